"""Helper (not a stream): run graphtage's command line in-process on a set of files and observe it.

Used inside harness.worker subprocesses only.  Observation per run:
   rc      : return value of main() (or SystemExit code)
   out/err : text written to sys.stdout / sys.stderr
   exc     : class name of an exception that escaped main() (None if none)
   loaders : [[filetype name, basename], ...] every Filetype.build_tree_handling_errors call, in order
"""
import base64, io, os, shutil, sys, tempfile, logging

_PATCHED = False
_LOADS = []


def _patch_loaders():
    global _PATCHED
    if _PATCHED:
        return
    import graphtage
    for name, ft in list(graphtage.FILETYPES_BY_TYPENAME.items()):
        cls = type(ft)
        orig = cls.build_tree_handling_errors
        if getattr(orig, "_verif_wrapped", False):
            continue

        def make(orig):
            def wrapped(self, path, options=None):
                _LOADS.append([self.name, os.path.basename(path)])
                return orig(self, path, options)
            wrapped._verif_wrapped = True
            return wrapped
        cls.build_tree_handling_errors = make(orig)
    _PATCHED = True


def write_files(files, d):
    for name, spec in files.items():
        p = os.path.join(d, name)
        if "b64" in spec:
            data = base64.b64decode(spec["b64"])
        else:
            data = spec["text"].encode("utf-8", "surrogatepass") if isinstance(spec["text"], str) else spec["text"]
        with open(p, "wb") as f:
            f.write(data)
        # identical timestamps (as after extracting an archive or a checkout with normalised times): the result
        # must depend on the CONTENTS of the files only
        os.utime(p, (1_700_000_000, 1_700_000_000))


class _Tty(io.StringIO):
    def isatty(self):
        return False

    def close(self):      # Printer.close() closes the stream it wraps; keep the captured text readable
        pass


def run_main(argv, cwd, stdin_bytes=None, env=None):
    """argv: arguments after the program name; file arguments are relative to cwd.  stdin_bytes: what the process
    would receive on standard input (for a `-` argument); env: environment variables set for the run only."""
    import graphtage.__main__ as gm
    _patch_loaders()
    del _LOADS[:]
    old = (sys.stdout, sys.stderr, os.getcwd())
    old_stdin = sys.stdin
    old_env = {k: os.environ.get(k) for k in (env or {})}
    if stdin_bytes is not None:
        sys.stdin = io.TextIOWrapper(io.BytesIO(stdin_bytes), encoding="utf-8", errors="surrogateescape")
    for k, v in (env or {}).items():
        os.environ[k] = v
    out, err = _Tty(), _Tty()
    rc, exc, msg = None, None, None
    root = logging.getLogger()
    old_handlers = list(root.handlers)
    try:
        os.chdir(cwd)
        sys.stdout, sys.stderr = out, err
        try:
            rc = gm.main(["graphtage"] + list(argv))
        except SystemExit as e:
            rc = e.code if isinstance(e.code, int) else (0 if e.code is None else 1)
            exc = None
        except BaseException as e:  # noqa
            exc = type(e).__name__
            msg = str(e)[:300]
    finally:
        sys.stdout, sys.stderr = old[0], old[1]
        sys.stdin = old_stdin
        for k, v in old_env.items():
            if v is None:
                os.environ.pop(k, None)
            else:
                os.environ[k] = v
        os.chdir(old[2])
        for h in list(root.handlers):
            if h not in old_handlers:
                root.removeHandler(h)
    return {"rc": rc, "out": out.getvalue(), "err": err.getvalue(), "exc": exc, "msg": msg, "loaders": list(_LOADS)}


def run_case(files, runs):
    d = tempfile.mkdtemp(prefix="gtverif_")
    try:
        write_files(files, d)
        res = []
        for r in runs:
            res.append(run_main(r["argv"], d))
        return res
    finally:
        shutil.rmtree(d, ignore_errors=True)

"""Shared machinery for all property checks (see DESIGN.md section 2).

A *stream module* (harness/streams/<name>.py) defines:
    NAME                     stream name (also the "s" field the Lean driver dispatches on)
    gen(rng, tier)           -> list of JSON-serialisable cases (corpus cases are prepended by the engine)
    impl(case)               -> observation from the REAL code (runs inside harness.worker subprocesses)
    to_model(case, obs)      -> dict for the Lean driver (must contain "s"), or None to skip the model
    expect(case, obs)        -> the JSON value the model must print for this case (canonical form)
    monitor(case, obs)       -> list of {"prop","key","what"} : property violations visible on the
                                implementation's observation alone (independent of the model)
    classify(case, obs)      -> short string used for the input-distribution table (optional)
    nontrivial(case, obs)    -> bool (optional; default True)
    shrink(case)             -> iterable of smaller candidate cases (optional)
"""
import fcntl, hashlib, importlib, json, os, random, re, subprocess, sys, time
from concurrent.futures import ThreadPoolExecutor

VERIF = os.path.dirname(os.path.dirname(os.path.abspath(__file__)))
REPO = os.environ.get("VERIF_REPO", "/repo")
LEAN_DIR = os.path.join(VERIF, "lean")
PY = os.environ.get("VERIF_PYTHON", "/venv/bin/python")
DRIVER = os.path.join(LEAN_DIR, ".lake", "build", "bin", "gtdriver")
NCPU = max(1, min(16, os.cpu_count() or 1))
ALLOWED_AXIOMS = {"propext", "Classical.choice", "Quot.sound"}


def seed() -> int:
    v = os.environ.get("VERIF_SEED", "0")
    try:
        return int(v)
    except ValueError:
        # any other text is a seed too (its hash), never silently seed 0
        return int.from_bytes(hashlib.sha256(v.encode()).digest()[:6], "big")


def rng_for(*names) -> random.Random:
    h = hashlib.sha256(("/".join(map(str, names)) + "/" + str(seed())).encode()).digest()
    return random.Random(int.from_bytes(h[:8], "big"))


def load_stream(name):
    return importlib.import_module("harness.streams." + name)


# --------------------------------------------------------------------------------------------------
# running the implementation

def _worker_env(extra=None):
    env = dict(os.environ)
    env["PYTHONPATH"] = VERIF + os.pathsep + REPO
    env.setdefault("PYTHONHASHSEED", "0")
    env["GRAPHTAGE_VERIF"] = "1"
    env["PYTHONDONTWRITEBYTECODE"] = "1"
    if extra:
        env.update(extra)
    return env


def _run_chunk(stream, cases, env_extra=None, timeout=None):
    """Run one worker subprocess over `cases`; if the worker dies mid-way the remaining cases are
    retried in a fresh worker and the case it died on is reported as a crash."""
    results = []
    todo = list(cases)
    while todo:
        inp = "".join(json.dumps(c) + "\n" for c in todo)
        try:
            p = subprocess.run([PY, "-m", "harness.worker", stream], input=inp, capture_output=True, text=True,
                               cwd=VERIF, env=_worker_env(env_extra), timeout=timeout or (60 + 25 * len(todo)))
            outl = [l for l in p.stdout.split("\n") if l.strip()]
            err = p.stderr[-500:]
        except subprocess.TimeoutExpired as e:
            outl = [l for l in (e.stdout or b"").decode(errors="replace").split("\n") if l.strip()]
            err = "worker timeout"
        got = []
        for l in outl:
            try:
                got.append(json.loads(l))
            except ValueError:
                break
        results.extend(got)
        if len(got) >= len(todo):
            break
        # the worker died on case todo[len(got)]
        results.append({"error": "internal", "exc": "WorkerDied", "msg": err})
        todo = todo[len(got) + 1:]
    return results[:len(cases)]


def run_impl(stream, cases, env_extra=None, jobs=None, chunk=None):
    """Observations of the real code for every case, in order."""
    if not cases:
        return []
    jobs = jobs or NCPU
    chunk = chunk or max(1, min(200, (len(cases) + jobs - 1) // jobs))
    chunks = [cases[i:i + chunk] for i in range(0, len(cases), chunk)]
    with ThreadPoolExecutor(max_workers=jobs) as ex:
        outs = list(ex.map(lambda c: _run_chunk(stream, c, env_extra), chunks))
    res = []
    for o in outs:
        res.extend(o)
    return res


# --------------------------------------------------------------------------------------------------
# running the Lean model

_PRIVATE_DRIVER = {}


def _snapshot_driver():
    """Called under the build lock: keep a private copy of the freshly built driver for this run, so that a
    concurrent check re-linking the driver (after regenerating its Gen tables) cannot pull it from under us."""
    import atexit, shutil
    if os.path.exists(DRIVER):
        dst = DRIVER + ".%d" % os.getpid()
        try:
            shutil.copy2(DRIVER, dst)
            _PRIVATE_DRIVER["path"] = dst
            atexit.register(lambda: os.path.exists(dst) and os.remove(dst))
        except OSError:
            pass


def run_model(lines, jobs=None):
    """lines: list of dicts (or None).  Returns list of parsed JSON outputs (None where skipped)."""
    idx = [i for i, l in enumerate(lines) if l is not None]
    outs = [None] * len(lines)
    if not idx:
        return outs
    driver = _PRIVATE_DRIVER.get("path") or DRIVER
    for _ in range(120):                      # another check may be re-linking the driver right now
        if os.path.exists(driver):
            break
        time.sleep(1)
    if not os.path.exists(driver):
        raise RuntimeError("Lean driver not built: " + driver)
    jobs = jobs or NCPU
    per = max(1, (len(idx) + jobs - 1) // jobs)
    parts = [idx[i:i + per] for i in range(0, len(idx), per)]

    def one(part):
        inp = "".join(json.dumps(lines[i]) + "\n" for i in part)
        p = subprocess.run([driver], input=inp, capture_output=True, text=True, timeout=1800)
        got = [l for l in p.stdout.split("\n") if l.strip()]
        res = []
        for k, i in enumerate(part):
            if k < len(got):
                try:
                    res.append((i, json.loads(got[k])))
                except ValueError:
                    res.append((i, {"model_error": "unparsable: " + got[k][:100]}))
            else:
                res.append((i, {"model_error": "driver died: " + p.stderr[-200:]}))
        return res

    with ThreadPoolExecutor(max_workers=jobs) as ex:
        for r in ex.map(one, parts):
            for i, v in r:
                outs[i] = v
    return outs


# --------------------------------------------------------------------------------------------------
# Lean build + audit

class LeanStatus:
    def __init__(self):
        self.ok = True
        self.log = ""
        self.theorems = {}      # name -> sorted axiom list, or None if missing
        self.failed = []        # theorem names that are missing / use a forbidden axiom
        self.build_s = 0.0
        self.audit_hits = []


def _flock():
    f = open(os.path.join(LEAN_DIR, ".check.lock"), "w")
    fcntl.flock(f, fcntl.LOCK_EX)
    return f


FORBIDDEN = re.compile(r"\bsorry\b|\badmit\b|^\s*axiom\s|native_decide|bv_decide|implemented_by|\bunsafe\s|maxHeartbeats\s+0\b")


def source_audit():
    """grep for forbidden constructs outside comments in every Lean source of the project."""
    hits = []
    for root, _, files in os.walk(LEAN_DIR):
        if ".lake" in root:
            continue
        for fn in files:
            if not fn.endswith(".lean"):
                continue
            path = os.path.join(root, fn)
            src = open(path, encoding="utf-8").read()
            # strip block comments (nested) and line comments
            out = []
            depth = 0
            i = 0
            while i < len(src):
                if src.startswith("/-", i):
                    depth += 1
                    i += 2
                elif depth and src.startswith("-/", i):
                    depth -= 1
                    i += 2
                elif depth:
                    if src[i] == "\n":
                        out.append("\n")
                    i += 1
                elif src.startswith("--", i):
                    while i < len(src) and src[i] != "\n":
                        i += 1
                else:
                    out.append(src[i])
                    i += 1
            for n, line in enumerate("".join(out).split("\n"), 1):
                if FORBIDDEN.search(line):
                    hits.append(f"{os.path.relpath(path, LEAN_DIR)}:{n}: {line.strip()[:120]}")
    return hits


def lean_check(modules, theorems, clean=False, leanchecker=False, gen=None):
    """Build the given modules (and the driver), then print the axioms of every listed theorem.
    `gen` is an optional callable that regenerates Gen tables from /repo (run under the lock)."""
    st = LeanStatus()
    t0 = time.time()
    lock = _flock()
    try:
        if gen is not None:
            try:
                gen()
            except Exception as e:  # a table that can no longer be extracted is a broken obligation
                st.ok = False
                st.log += f"Gen table extraction failed: {e!r}\n"
        if clean:
            for m in modules:
                rel = m.replace(".", "/")
                for ext in (".olean", ".ilean", ".c", ".c.o.export", ".trace", ".hash", ".olean.hash", ".ilean.hash"):
                    for base in ("lib/lean", "ir"):
                        p = os.path.join(LEAN_DIR, ".lake", "build", base, rel + ext)
                        if os.path.exists(p):
                            os.remove(p)
        p = subprocess.run(["lake", "build"] + list(modules) + ["gtdriver"], cwd=LEAN_DIR, capture_output=True, text=True)
        st.log += p.stdout[-4000:] + p.stderr[-2000:]
        if p.returncode != 0:
            st.ok = False
        if p.returncode == 0:
            _snapshot_driver()
        st.audit_hits = source_audit()
        if st.audit_hits:
            st.ok = False
        if theorems and p.returncode == 0:
            src = "".join(f"import {m}\n" for m in modules) + "".join(f"#print axioms {t}\n" for t in theorems)
            tmp = os.path.join(LEAN_DIR, f".audit_{os.getpid()}.lean")
            open(tmp, "w").write(src)
            try:
                q = subprocess.run(["lake", "env", "lean", tmp], cwd=LEAN_DIR, capture_output=True, text=True)
            finally:
                os.remove(tmp)
            text = q.stdout + q.stderr
            for t in theorems:
                m = re.search(r"'" + re.escape(t) + r"' depends on axioms: \[([^\]]*)\]", text)
                if m:
                    st.theorems[t] = sorted(a.strip() for a in m.group(1).replace("\n", " ").split(",") if a.strip())
                elif re.search(r"'" + re.escape(t) + r"' does not depend on any axioms", text):
                    st.theorems[t] = []
                else:
                    st.theorems[t] = None
            for t, ax in st.theorems.items():
                if ax is None or not set(ax) <= ALLOWED_AXIOMS:
                    st.failed.append(t)
            if st.failed:
                st.ok = False
                st.log += text[-2000:]
        elif theorems:
            st.failed = list(theorems)
        if leanchecker and p.returncode == 0:
            q = subprocess.run(["lake", "env", "leanchecker"] + list(modules), cwd=LEAN_DIR, capture_output=True, text=True)
            st.log += "\nleanchecker rc=%d %s" % (q.returncode, (q.stdout + q.stderr)[-500:])
            if q.returncode != 0:
                st.ok = False
    finally:
        if gen is not None and os.path.realpath(REPO) != "/repo":
            # the Gen tables were regenerated from another checkout (VERIF_REPO): put the committed ones back while
            # the lock is still held, so that the working tree of /verif never shows tables of a foreign tree
            subprocess.run(["git", "-C", VERIF, "checkout", "--", "lean/GtModel/Gen"], capture_output=True)
        lock.close()
    st.build_s = time.time() - t0
    return st


# --------------------------------------------------------------------------------------------------
# known findings, evidence, reporting

def known_findings():
    p = os.path.join(VERIF, "known_findings.json")
    if not os.path.exists(p):
        return []
    return json.load(open(p))


def finding_matches(prop, key):
    for f in known_findings():
        if f.get("status") == "finding" and f.get("property") == prop and re.fullmatch(f.get("key", ""), key or ""):
            return f
    return None


def canon(x):
    return json.dumps(x, sort_keys=True, ensure_ascii=True)


def corpus_cases(prop, stream):
    d = os.path.join(VERIF, "corpus", stream)
    res = []
    if os.path.isdir(d):
        for fn in sorted(os.listdir(d)):
            if fn.endswith(".json"):
                try:
                    res.append(json.load(open(os.path.join(d, fn))))
                except ValueError:
                    pass
    return res


def write_replay(prop, payload):
    os.makedirs(os.path.join(VERIF, "replays"), exist_ok=True)
    n = 0
    while True:
        path = os.path.join(VERIF, "replays", f"{prop}-{seed()}-{n}.json")
        if not os.path.exists(path):
            break
        n += 1
    json.dump(payload, open(path, "w"), indent=1, sort_keys=True)
    return path


def write_evidence(prop, tier, level, coverage, assumptions, wall_s, violations):
    if os.path.realpath(REPO) != "/repo":
        # a run against another checkout (seeded changes): never overwrite the evidence of /repo itself
        d = os.path.join(VERIF, "replays", "evidence-other-tree")
        os.makedirs(d, exist_ok=True)
        ev = {"property_id": prop, "tier": tier, "seed": seed(), "level": level, "coverage": coverage,
              "assumptions": assumptions, "wall_s": round(wall_s, 2), "violations": violations, "repo": REPO}
        json.dump(ev, open(os.path.join(d, prop + ".json"), "w"), indent=1, sort_keys=True)
        return ev
    os.makedirs(os.path.join(VERIF, "evidence"), exist_ok=True)
    ev = {"property_id": prop, "tier": tier, "seed": seed(), "level": level, "coverage": coverage,
          "assumptions": assumptions, "wall_s": round(wall_s, 2), "violations": violations}
    json.dump(ev, open(os.path.join(VERIF, "evidence", prop + ".json"), "w"), indent=1, sort_keys=True)
    return ev

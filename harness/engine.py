"""Generic per-property check pipeline (DESIGN.md 2.4 / 2.5)."""
import json, os, sys, time, collections

from . import common as C
from .props import PROPS


def _collect(prop, spec, stream_name, tier, sub=0, budget_mult=1, cases=None):
    """Run one stream: returns dict with cases, obs, model outputs, disagreements, monitor hits."""
    sm = C.load_stream(stream_name)
    rng = C.rng_for(prop, stream_name, sub)
    if cases is None:
        cases = list(C.corpus_cases(prop, stream_name)) if sub == 0 else []
        if budget_mult != 1 and hasattr(sm, "gen_scaled"):
            cases += sm.gen_scaled(rng, tier, budget_mult)
        else:
            for _ in range(budget_mult):
                cases += sm.gen(rng, tier)
    env_extra = getattr(sm, "ENV", None)
    obs = C.run_impl(stream_name, cases, env_extra=env_extra)
    lines = []
    to_model_errors = []
    for c, o in zip(cases, obs):
        try:
            lines.append(sm.to_model(c, o) if hasattr(sm, "to_model") else None)
        except Exception as e:  # an observation the harness cannot even translate: never drop the case silently
            lines.append(None)
            to_model_errors.append({"stream": stream_name, "case": c, "impl": {"to_model_error": repr(e)[:300]}, "model": None})
    mouts = C.run_model(lines) if any(l is not None for l in lines) else [None] * len(lines)
    disagreements = list(to_model_errors)
    hits = []
    compared = 0
    for i, (c, o, l, m) in enumerate(zip(cases, obs, lines, mouts)):
        if l is not None:
            compared += 1
            try:
                exp = sm.expect(c, o)
            except Exception as e:
                exp = {"expect_error": repr(e)}
            if C.canon(exp) != C.canon(m):
                disagreements.append({"stream": stream_name, "case": c, "impl": exp, "model": m})
        try:
            for h in sm.monitor(c, o):
                if h.get("prop") == prop:
                    hits.append({"stream": stream_name, "case": c, "obs": _trim(o), "key": h.get("key", ""), "what": h.get("what", "")})
        except Exception as e:
            hits.append({"stream": stream_name, "case": c, "obs": _trim(o), "key": "monitor-crash", "what": "monitor raised " + repr(e)})
    return {"sm": sm, "cases": cases, "obs": obs, "compared": compared, "disagreements": disagreements, "hits": hits}


def _trim(o, n=2000):
    s = json.dumps(o, sort_keys=True)
    if len(s) <= n:
        return o
    return {"_truncated": s[:n]}


_CONFIRMED = {}
_DISMISSED = {}
WATCHDOG = __import__("re").compile(r"hang|no-termination|[Tt]imeout|harness-error|does not converge|step")


def _confirm(prop, hit):
    """A hit that comes from one of the harness' own limits (per-case alarm, step cap, time limit) is not a property
    violation by itself: run the case again, alone, with five times the time and twenty times the step limits; keep the hit only if the
    monitor reports the same key again."""
    if not hit.get("stream") or "case" not in hit or not WATCHDOG.search(hit.get("key", "") + " " + hit.get("what", "")[:80]):
        return hit
    if _CONFIRMED.get((prop, hit["stream"]), 0) >= 2:
        return hit          # two watchdog hits of this stream already recurred with generous limits: the limits are not the cause
    if _DISMISSED.get((prop, hit["stream"]), 0) >= 4:
        return None         # four in a row did not recur: slow cases under load, not worth minutes of re-runs each
    sm = C.load_stream(hit["stream"])
    env = dict(getattr(sm, "ENV", None) or {})
    env["VERIF_CASE_TIMEOUT"] = str(5 * int(env.get("VERIF_CASE_TIMEOUT", "20")))
    env["VERIF_LIMIT_MULT"] = "20"
    try:
        obs = C.run_impl(hit["stream"], [hit["case"]], env_extra=env, jobs=1)[0]
        again = [h for h in sm.monitor(hit["case"], obs) if h.get("prop") == prop and h.get("key") == hit["key"]]
    except Exception:
        return hit
    if not again:
        _DISMISSED[(prop, hit["stream"])] = _DISMISSED.get((prop, hit["stream"]), 0) + 1
        print(f"[{prop}] note: {hit['key']} did not recur with generous limits (harness limit, not a violation)")
        return None
    _CONFIRMED[(prop, hit["stream"])] = _CONFIRMED.get((prop, hit["stream"]), 0) + 1
    return dict(hit, obs=_trim(obs), what=again[0].get("what", hit["what"]) + " [confirmed with 5x time and 20x step limits]")


_SHRINK_DEADLINE = None


def _shrink(prop, stream_name, hit, max_rounds=60):
    """Greedy shrinking of a monitor hit: keep a candidate iff the monitor still reports the same key."""
    sm = C.load_stream(stream_name)
    if not hasattr(sm, "shrink"):
        return hit
    best = hit
    rounds = 0
    improved = True
    # per-hit budget, and one budget for all hits of a run (a seeded non-termination makes every candidate run into the
    # per-case alarm: without the overall cap a run with many distinct keys takes tens of minutes)
    global _SHRINK_DEADLINE
    if _SHRINK_DEADLINE is None:
        _SHRINK_DEADLINE = time.time() + float(os.environ.get("VERIF_SHRINK_TOTAL_S", "420"))
    t_end = min(time.time() + float(os.environ.get("VERIF_SHRINK_BUDGET_S", "120")), _SHRINK_DEADLINE)
    while improved and rounds < max_rounds and time.time() < t_end:
        improved = False
        rounds += 1
        cands = []
        try:
            for cand in sm.shrink(best["case"]):
                cands.append(cand)
                if len(cands) >= 32:
                    break
        except Exception:
            break
        if not cands:
            break
        obs = C.run_impl(stream_name, cands, env_extra=getattr(sm, "ENV", None))
        for c, o in zip(cands, obs):
            try:
                hs = [h for h in sm.monitor(c, o) if h.get("prop") == prop and h.get("key", "") == best["key"]]
            except Exception:
                hs = []
            if hs:
                best = {"stream": stream_name, "case": c, "obs": _trim(o), "key": hs[0].get("key", ""), "what": hs[0].get("what", "")}
                improved = True
                break
    return best


def run_property(prop, tier="quick", replay=None):
    t0 = time.time()
    spec = PROPS[prop]
    out_lines = []
    violations = []     # (replay payload, suffix)
    known = []
    known_keys = collections.Counter()
    broken_streams = []
    thorough = tier == "thorough"

    # ---- A/B: Gen tables, Lean build, axiom audit
    st = C.lean_check(spec.get("lean_modules", []), spec.get("theorems", []), clean=thorough,
                      leanchecker=thorough and spec.get("leanchecker", True), gen=spec.get("gen"))

    # ---- C/D: correspondence + monitors
    results = {}
    total_cases = 0
    compared = 0
    distinct = set()
    dist = collections.Counter()
    samples = []
    all_dis = []
    all_hits = []
    replay_cases = None
    if replay:
        rp = json.load(open(replay))
        replay_cases = collections.defaultdict(list)
        for item in rp.get("cases", []):
            replay_cases[item["stream"]].append(item["case"])
    for sname in spec.get("streams", []):
        if replay_cases is not None:
            if not replay_cases.get(sname):
                continue
            r = _collect(prop, spec, sname, tier, cases=replay_cases[sname])
        else:
            r = _collect(prop, spec, sname, tier)
        results[sname] = r
        sm = r["sm"]
        total_cases += len(r["cases"])
        compared += r["compared"]
        for c, o in zip(r["cases"], r["obs"]):
            nt = True
            if hasattr(sm, "nontrivial"):
                try:
                    nt = bool(sm.nontrivial(c, o))
                except Exception:
                    nt = False
            if nt:
                distinct.add(C.canon(c))
            if hasattr(sm, "classify"):
                try:
                    dist[sname + ":" + str(sm.classify(c, o))] += 1
                except Exception:
                    dist[sname + ":classify-error"] += 1
            if isinstance(o, dict) and o.get("error"):
                dist[sname + ":error:" + str(o.get("exc", o.get("error")))] += 1
        for c, o in list(zip(r["cases"], r["obs"]))[:3]:
            samples.append({"stream": sname, "case": c, "obs": _trim(o, 600)})
        all_dis += r["disagreements"]
        all_hits += r["hits"]
        n_int = sum(1 for o in r["obs"] if isinstance(o, dict) and o.get("error") == "internal")
        if r["obs"] and n_int > 0.5 * len(r["obs"]):
            broken_streams.append(f"{sname}: {n_int} of {len(r['obs'])} cases raised inside the harness or the library before an observation could be made "
                                  f"(e.g. {next(o for o in r['obs'] if isinstance(o, dict) and o.get('error') == 'internal').get('exc')})")

    # property-specific extra step (hash-seed sweeps, table checks, ...)
    extra_info = {}
    if "extra" in spec and replay is None:
        ex = spec["extra"](prop, tier)
        extra_info = ex.get("info", {})
        all_hits += ex.get("hits", [])
        total_cases += ex.get("evaluations", 0)
        for s in ex.get("distinct", []):
            distinct.add(s)
        samples += ex.get("samples", [])[:3]

    # ---- E: decide
    def handle_hits(hits, shrink=True):
        seen = set()
        for h in hits:
            kf = C.finding_matches(prop, h["key"])
            if kf:
                known_keys[h["key"]] += 1
                if ("K", kf.get("key")) not in seen:
                    seen.add(("K", kf.get("key")))
                    known.append(f"KNOWN-FINDING: property={prop} {kf.get('what', h['what'])} [e.g. {h['key']}]")
                continue
            if ("V", h["key"]) in seen:
                continue
            h = _confirm(prop, h)
            if h is None:
                continue
            seen.add(("V", h["key"]))
            if shrink and h.get("stream") and "case" in h:
                h = _shrink(prop, h["stream"], h)
            path = C.write_replay(prop, {"property": prop, "kind": "failing-input", "key": h["key"], "what": h["what"],
                                         "cases": [{"stream": h.get("stream"), "case": h.get("case")}], "observed": h.get("obs"),
                                         "seed": C.seed(), "tier": tier})
            violations.append((path, ""))

    handle_hits(all_hits)

    broken = []
    if not st.ok:
        broken.append({"kind": "lean", "failed_theorems": st.failed, "audit_hits": st.audit_hits, "log": st.log[-3000:]})
    if all_dis:
        broken.append({"kind": "correspondence", "count": len(all_dis), "first": all_dis[:3]})
    searched = 0
    if broken and not violations:
        # failing-input search against the real code (DESIGN 2.5)
        found = []
        # (1) the disagreeing cases themselves were already monitored above; (2) widen
        mult = 5 if tier == "quick" else 20
        for sname in spec.get("streams", []):
            for sub in range(1, 1 + (2 if tier == "quick" else 4)):
                r = _collect(prop, spec, sname, tier, sub=sub, budget_mult=mult)
                searched += len(r["cases"])
                found += [h for h in r["hits"] if not C.finding_matches(prop, h["key"])]
                if found:
                    break
            if found:
                break
        if found:
            handle_hits(found)          # (hits that stem from a harness limit may all be dismissed here)
        if not violations:
            path = C.write_replay(prop, {"property": prop, "kind": "no-failing-input-found", "broken": broken,
                                         "cases": [{"stream": d["stream"], "case": d["case"]} for d in all_dis[:5]],
                                         "searched_cases": searched, "seed": C.seed(), "tier": tier})
            violations.append((path, " no-failing-input-found"))

    wall = time.time() - t0
    n_thm = len(spec.get("theorems", []))
    coverage = {
        "obligations": max(1, n_thm),
        "discharged": max(0, n_thm - len(st.failed)) if n_thm else (1 if st.ok else 0),
        "checker_cmd": "cd lean && lake build " + " ".join(spec.get("lean_modules", [])) + " && lake env lean <#print axioms of each theorem>"
                       + (" && lake env leanchecker <modules>" if thorough and spec.get("leanchecker", True) else ""),
        "trusted_base": ["Lean 4.33.0 kernel", "axioms allowed: propext, Classical.choice, Quot.sound",
                         "hand-written model tied to /repo by the differential correspondence run below",
                         "harness canonicaliser and Lean driver JSON reader"] + spec.get("trusted", []),
        "theorems": {k: v for k, v in st.theorems.items()},
        "theorems_failed": st.failed,
        "lean_build_ok": st.ok,
        "lean_build_s": round(st.build_s, 1),
        "evaluations": total_cases,
        "distinct_nontrivial": len(distinct),
        "rule": spec.get("rule", "cases generated per stream from VERIF_SEED; distinct = distinct canonical case JSON that the stream's nontrivial() accepts"),
        "traces_validated_against_impl": compared,
        "model_impl_disagreements": len(all_dis),
        "monitor_hits": len(all_hits),
        "known_finding_keys": dict(sorted(known_keys.items())),
        "failing_input_search_cases": searched,
        "input_distribution": dict(sorted(dist.items())),
        "samples": samples[:8] if samples else [{"note": "no dynamic cases for this property"}],
        "partial": spec.get("partial", ""),
        "extra": extra_info,
    }
    C.write_evidence(prop, tier, "proof", coverage, spec.get("assumptions", []), wall, len(violations))
    for k in known:
        print(k)
    for path, suffix in violations:
        print(f"VIOLATION property={prop} replay={os.path.relpath(path, C.VERIF)}{suffix}")
    if broken_streams and not violations:
        # more than half of a stream's cases produced no observation at all and no monitor objected: the check decided nothing
        for b in broken_streams:
            print(f"CHECK-BROKEN property={prop} {b}")
        print(f"[{prop}] tier={tier} seed={C.seed()} the check itself failed (exit 2)")
        return 2
    print(f"[{prop}] tier={tier} seed={C.seed()} theorems={n_thm - len(st.failed)}/{n_thm} lean_ok={st.ok} cases={total_cases} "
          f"compared={compared} disagreements={len(all_dis)} monitor_hits={len(all_hits)} violations={len(violations)} wall={wall:.1f}s")
    if not st.ok:
        print(st.log[-1500:])
    if os.path.realpath(C.REPO) != "/repo":
        # the Gen tables were regenerated from another checkout: put the committed ones back
        import subprocess
        lock = C._flock()
        try:
            subprocess.run(["git", "-C", C.VERIF, "checkout", "--", "lean/GtModel/Gen"], capture_output=True)
        finally:
            lock.close()
    return 1 if violations else 0


def main(argv):
    import argparse
    ap = argparse.ArgumentParser()
    ap.add_argument("prop")
    ap.add_argument("--tier", default=os.environ.get("VERIF_TIER", "quick"), choices=["quick", "thorough"])
    ap.add_argument("--replay", default=None)
    a = ap.parse_args(argv)
    if a.prop not in PROPS:
        print(f"unknown property {a.prop}", file=sys.stderr)
        return 2
    try:
        return run_property(a.prop, a.tier, a.replay)
    except Exception:
        import traceback
        traceback.print_exc()
        return 2


if __name__ == "__main__":
    sys.exit(main(sys.argv[1:]))

"""Small translators: finite tables that live in /repo's source are re-extracted on every run into
lean/GtModel/Gen/*.lean (DESIGN 2.3).  A Gen file is rewritten only when its content changes, so an unchanged
/repo never invalidates the Lean build; a changed table changes the proof obligation over it.

Extraction runs in a subprocess that imports /repo's working tree."""
import json, os, subprocess

from . import common as C

GEN_DIR = os.path.join(C.LEAN_DIR, "GtModel", "Gen")

_EXTRACT = r'''
import ast, importlib, inspect, json, sys
import graphtage
import graphtage.__main__
out = {}
# ---- file types
out["filetypes"] = [[name, ft.default_mimetype, list(ft.mimetypes)] for name, ft in graphtage.FILETYPES_BY_TYPENAME.items()]
out["by_mime"] = sorted([m, ft.name] for m, ft in graphtage.FILETYPES_BY_MIME.items())
# ---- except clauses of every build_tree_handling_errors
def dotted(node):
    if isinstance(node, ast.Name):
        return node.id
    if isinstance(node, ast.Attribute):
        return dotted(node.value) + "." + node.attr
    return "?"
handlers = {}
for name, ft in graphtage.FILETYPES_BY_TYPENAME.items():
    cls = type(ft)
    fn = None
    for k in cls.__mro__:
        if "build_tree_handling_errors" in k.__dict__:
            fn = k.__dict__["build_tree_handling_errors"]
            owner = k
            break
    mod = sys.modules[owner.__module__]
    src = inspect.getsource(fn)
    tree = ast.parse("class _X:\n" + src if src.startswith("    ") else src)
    caught = []
    def calls_build_tree(stmts):
        for st in stmts:
            for n in ast.walk(st):
                if isinstance(n, ast.Call):
                    f = n.func
                    if (isinstance(f, ast.Attribute) and f.attr == "build_tree") or (isinstance(f, ast.Name) and f.id == "build_tree"):
                        return True
        return False
    for node in ast.walk(tree):
        # only the handlers of a `try` whose BODY makes the build_tree call count, and a handler whose body contains a
        # `raise` (re-raise or a new exception) catches nothing as far as the command line is concerned
        if isinstance(node, ast.Try) and calls_build_tree(node.body):
            for h in node.handlers:
                if any(isinstance(n, ast.Raise) for st in h.body for n in ast.walk(st)):
                    continue
                if h.type is None:
                    caught.append("BaseException")
                elif isinstance(h.type, ast.Tuple):
                    caught += [dotted(e) for e in h.type.elts]
                else:
                    caught.append(dotted(h.type))
    # resolve each caught name to the class object in the defining module's namespace
    resolved = []
    for c in caught:
        obj = None
        try:
            obj = eval(c, vars(mod))
        except Exception:
            try:
                obj = eval(c, vars(__import__("builtins")))
            except Exception:
                obj = None
        resolved.append(obj.__module__ + "." + obj.__qualname__ if obj is not None else "UNRESOLVED:" + c)
    handlers[name] = resolved
out["handlers"] = handlers
# ---- MROs of the exception classes the external parsers are assumed to raise (the assumption list is passed in)
raisable = json.loads(sys.argv[1])
mros = {}
for name, excs in raisable.items():
    for e in excs:
        modname, _, q = e.rpartition(".")
        try:
            obj = getattr(importlib.import_module(modname), q)
            mros[e] = [k.__module__ + "." + k.__qualname__ for k in obj.__mro__]
        except Exception:
            mros[e] = [e, "UNRESOLVED"]      # a class that cannot be looked up is caught by nothing
out["mros"] = mros
print(json.dumps(out))
'''

# What the external parser of each text format can raise on syntactically invalid input: the HAND list (documented
# behaviour of the libraries plus every class the recorded fuzz below has ever shown).  It is no longer the table the
# theorem is checked against: `raisable_table()` unites it, on every run, with the classes a seeded fuzz of the
# parser entry points really raises (second audit, H2: four classes were missing from the hand list and nothing
# noticed).  Keeping the observed classes in the hand list as well only keeps the generated table (and with it the
# Lean build cache) stable across seeds.
RAISABLE = {
    "json": ["json.decoder.JSONDecodeError", "builtins.UnicodeDecodeError", "builtins.RecursionError",
             "builtins.ValueError"],                       # int() beyond sys.get_int_max_str_digits()
    "json5": ["builtins.ValueError", "builtins.UnicodeDecodeError", "builtins.RecursionError"],
    "yaml": ["yaml.scanner.ScannerError", "yaml.parser.ParserError", "yaml.reader.ReaderError",
             "yaml.composer.ComposerError", "yaml.constructor.ConstructorError",
             # the constructor's converters of tagged scalars: !!int xyz / 2001-13-45 (ValueError), !!timestamp 42
             # (AttributeError: a regex that did not match), !!bool 42 (KeyError), !!float "" (IndexError)
             "builtins.ValueError", "builtins.AttributeError", "builtins.KeyError", "builtins.IndexError"],
    "xml": ["xml.etree.ElementTree.ParseError",
            "builtins.LookupError", "builtins.ValueError", "builtins.UnicodeError"],   # encoding= of the XML declaration
    "html": ["xml.etree.ElementTree.ParseError", "builtins.LookupError", "builtins.ValueError", "builtins.UnicodeError"],
    "plist": ["xml.parsers.expat.ExpatError", "plistlib.InvalidFileException", "builtins.ValueError", "builtins.IndexError",
              "builtins.AttributeError",                    # <date>notadate</date>
              "builtins.LookupError", "builtins.UnicodeError",   # encoding= of the XML declaration
              "binascii.Error",                             # <data> that is not base64
              "builtins.MemoryError"],                      # absurd size fields of a binary plist
}

# bounds of the recorded fuzz (files per type; the pure-Python json5 / PyYAML reference parsers are the slow ones)
FUZZ_FILES = {"quick": {"json": 12000, "json5": 2500, "yaml": 2500, "xml": 12000, "html": 12000, "plist": 12000},
              "thorough": {"json": 60000, "json5": 12000, "yaml": 12000, "xml": 60000, "html": 60000, "plist": 60000}}
FUZZ_DEADLINE_S = {"quick": 10.0, "thorough": 60.0}
LAST_RECORDED = {}


def _tier():
    import sys
    a = sys.argv
    if "--tier" in a and a.index("--tier") + 1 < len(a):
        return a[a.index("--tier") + 1]
    return os.environ.get("VERIF_TIER", "quick")


def record_raised(tier=None):
    """Seeded fuzz (VERIF_SEED) of the parser entry point each loader calls, one subprocess per file type, all in
    parallel: {type: {"classes": {qualified class: count}, "tried": n, "rejected": n}}.  Independent of /repo (graphtage
    is not imported); only files the stream's independent reference parser rejects are counted.  Nothing is cached."""
    from concurrent.futures import ThreadPoolExecutor
    tier = tier if tier in FUZZ_FILES else "quick"
    env = dict(os.environ)
    env["PYTHONPATH"] = C.VERIF
    env["PYTHONHASHSEED"] = "0"
    code = ("import json,sys\nfrom harness.streams import faults\n"
            "k=sys.argv[1]\nprint(json.dumps(faults.record_raised(int(sys.argv[2]), kinds=[k], per_kind=int(sys.argv[3]), "
            "deadline_s=float(sys.argv[4]), tier='quick')))")

    def one(kind):
        p = subprocess.run([C.PY, "-c", code, kind, str(C.seed()), str(FUZZ_FILES[tier][kind]), str(FUZZ_DEADLINE_S[tier])],
                           capture_output=True, text=True, env=env, cwd=C.VERIF, timeout=4 * FUZZ_DEADLINE_S[tier] + 60)
        if p.returncode != 0:
            raise RuntimeError(f"recorded fuzz of the {kind} parser died (rc={p.returncode}): " + p.stderr[-600:])
        return json.loads(p.stdout.strip().split("\n")[-1])[kind]
    kinds = sorted(RAISABLE)
    with ThreadPoolExecutor(max_workers=len(kinds)) as ex:
        res = dict(zip(kinds, ex.map(one, kinds)))
    LAST_RECORDED.clear()
    LAST_RECORDED.update(res)
    return res


def raisable_table(recorded):
    """hand list ∪ recorded classes, per type (hand list first, then new classes in sorted order)"""
    out = {}
    for k, hand in RAISABLE.items():
        extra = sorted(c for c in recorded.get(k, {}).get("classes", {}) if c not in hand)
        out[k] = list(hand) + extra
    return out


def extract(raisable=None):
    env = dict(os.environ)
    env["PYTHONPATH"] = C.REPO
    p = subprocess.run([C.PY, "-c", _EXTRACT, json.dumps(raisable if raisable is not None else RAISABLE)], capture_output=True, text=True, env=env, timeout=120)
    if p.returncode != 0:
        raise RuntimeError("table extraction failed: " + p.stderr[-800:])
    return json.loads(p.stdout.strip().split("\n")[-1])


def _write_if_changed(path, content):
    os.makedirs(os.path.dirname(path), exist_ok=True)
    if os.path.exists(path) and open(path, encoding="utf-8").read() == content:
        return False
    with open(path, "w", encoding="utf-8") as f:
        f.write(content)
    return True


def _s(x):
    return json.dumps(x, ensure_ascii=False)


def _lst(xs):
    return "[" + ", ".join(xs) + "]"


def gen_cli_tables():
    recorded = record_raised(_tier())
    raisable = raisable_table(recorded)
    t = extract(raisable)
    t["recorded"] = recorded
    t["raisable"] = raisable
    lines = ["-- GENERATED from /repo by harness/gentables.py on every run. Do not edit.",
             "namespace GtModel.Gen", "",
             "/-- FILETYPES_BY_TYPENAME in registration order: (type name, default MIME type, all MIME types) -/",
             "def fileTypes : List (String × String × List String) := ["]
    lines.append(",\n".join(f"  ({_s(n)}, {_s(d)}, {_lst(_s(m) for m in ms)})" for n, d, ms in t["filetypes"]))
    lines += ["]", "", "/-- FILETYPES_BY_MIME: MIME type ↦ type name -/", "def byMime : List (String × String) := ["]
    lines.append(",\n".join(f"  ({_s(m)}, {_s(n)})" for m, n in t["by_mime"]))
    lines += ["]", "", "/-- exception classes caught by each type's `build_tree_handling_errors` (fully qualified) -/",
              "def caught : List (String × List String) := ["]
    lines.append(",\n".join(f"  ({_s(n)}, {_lst(_s(c) for c in cs)})" for n, cs in sorted(t["handlers"].items())))
    lines += ["]", "", "/-- what each type's external parser raises on invalid syntax: the hand list of harness/gentables.py united with",
              "    every class a seeded fuzz of the parser entry points raised in THIS run (on files an independent parser rejects) -/",
              "def raisable : List (String × List String) := ["]
    lines.append(",\n".join(f"  ({_s(n)}, {_lst(_s(c) for c in cs)})" for n, cs in sorted(raisable.items())))
    lines += ["]", "", "/-- method resolution order of every raisable class -/", "def mro : List (String × List String) := ["]
    lines.append(",\n".join(f"  ({_s(n)}, {_lst(_s(c) for c in cs)})" for n, cs in sorted(t["mros"].items())))
    lines += ["]", "", "end GtModel.Gen", ""]
    _write_if_changed(os.path.join(GEN_DIR, "CliTables.lean"), "\n".join(lines))
    return t


if __name__ == "__main__":
    print(json.dumps(gen_cli_tables(), indent=1)[:3000])


# --------------------------------------------------------------------------------------------------
# C07: iteration over hash-ordered collections (sets / frozensets) in the package, by an `ast` walk.
#
# This is a TRIPWIRE for the syntactic forms listed here, not a proof that no other form exists.  An expression counts as a set when
# it is: a set display / comprehension; a call of set / frozenset; a name assigned or annotated as a set in the function, at module
# level or at class level of the same file, or imported `from .mod import NAME` where mod defines NAME as a set; a PARAMETER annotated
# as a set; an attribute `<anything>.x` where some `<anything>.x = <set>` / `x: Set[...]` exists in the package (by attribute name);
# a call of a function or method of the package whose `return` is a set expression or whose return annotation is a set (by name);
# | & - ^ of sets or of dict views; .union/.intersection/.difference/.symmetric_difference/.copy of a set; a conditional expression or
# `or` / `and` with a set operand.  A set SITE is a set expression that is: iterated by for / comprehension / yield from; passed to
# list / tuple / iter / next / enumerate / zip / map / filter / reversed / dict.fromkeys / str.join or unpacked with `*`; popped
# (`s.pop()`); or passed to sorted / min / max together with a `key=` (ties are then broken by iteration order).

_SET_ANN = ("Set[", "FrozenSet[", "AbstractSet[", "MutableSet[", "set[", "frozenset[")


def _ann_is_set(ann):
    import ast
    if ann is None:
        return False
    txt = ast.unparse(ann)
    if isinstance(ann, ast.Constant) and isinstance(ann.value, str):
        txt = ann.value
    txt = txt.strip("'\" ")
    return any(t in txt for t in _SET_ANN) or txt in ("set", "frozenset", "Set", "FrozenSet", "AbstractSet", "MutableSet") or \
        txt.split(".")[-1] in ("Set", "FrozenSet", "AbstractSet", "MutableSet")


def _set_sites():
    import ast
    pkg = os.path.join(C.REPO, "graphtage")
    files = {}
    for fn in sorted(os.listdir(pkg)):
        if fn.endswith(".py"):
            files[fn] = ast.parse(open(os.path.join(pkg, fn), encoding="utf-8").read())

    setattrs, setfuncs, modsets = set(), set(), {}

    def is_set_expr(e, names):
        if isinstance(e, (ast.Set, ast.SetComp)):
            return True
        if isinstance(e, ast.Call) and isinstance(e.func, ast.Name) and e.func.id in ("set", "frozenset"):
            return True
        if isinstance(e, ast.Call) and isinstance(e.func, ast.Name) and e.func.id in setfuncs:
            return True
        if isinstance(e, ast.Call) and isinstance(e.func, ast.Attribute) and e.func.attr in setfuncs:
            return True
        if isinstance(e, ast.Name) and e.id in names:
            return True
        if isinstance(e, ast.Attribute) and e.attr in setattrs:
            return True
        if isinstance(e, ast.IfExp):
            return is_set_expr(e.body, names) or is_set_expr(e.orelse, names)
        if isinstance(e, ast.BoolOp):
            return any(is_set_expr(v, names) for v in e.values)
        if isinstance(e, ast.NamedExpr):
            return is_set_expr(e.value, names)
        if isinstance(e, ast.BinOp) and isinstance(e.op, (ast.BitOr, ast.BitAnd, ast.Sub, ast.BitXor)):
            def view(x):   # dict views combine into a set: d.keys() & e.keys()
                return isinstance(x, ast.Call) and isinstance(x.func, ast.Attribute) and x.func.attr in ("keys", "items")
            if view(e.left) or view(e.right):
                return True
            return is_set_expr(e.left, names) and is_set_expr(e.right, names)
        if isinstance(e, ast.Call) and isinstance(e.func, ast.Attribute) and e.func.attr in ("union", "intersection", "difference", "symmetric_difference", "copy") and is_set_expr(e.func.value, names):
            return True
        return False

    def assigned(node):
        """(targets, value, annotation-is-set) of an assignment statement"""
        if isinstance(node, ast.Assign):
            return node.targets, node.value, False
        if isinstance(node, ast.AnnAssign):
            return [node.target], node.value, _ann_is_set(node.annotation)
        if isinstance(node, ast.AugAssign):
            return [node.target], node.value, False
        return [], None, False

    def funcs_of(tree):
        return [n for n in ast.walk(tree) if isinstance(n, (ast.FunctionDef, ast.AsyncFunctionDef))]

    def local_names(func, base):
        names = set(base)
        a = func.args
        for arg in a.posonlyargs + a.args + a.kwonlyargs + [x for x in (a.vararg, a.kwarg) if x]:
            if _ann_is_set(arg.annotation):
                names.add(arg.arg)
        changed = True
        while changed:
            changed = False
            for node in ast.walk(func):
                tgts, val, ann = assigned(node)
                for t in tgts:
                    if isinstance(t, ast.Name) and t.id not in names and (ann or (val is not None and is_set_expr(val, names))):
                        names.add(t.id)
                        changed = True
        return names

    # ---- package-wide knowledge, to a fixed point: set-valued attributes (by attribute name), module / class level set names,
    # functions that return a set (by function name)
    for _ in range(4):
        before = (len(setattrs), len(setfuncs), sum(len(v) for v in modsets.values()))
        for fn, tree in files.items():
            mods = modsets.setdefault(fn, set())
            for node in ast.iter_child_nodes(tree):
                tgts, val, ann = assigned(node)
                for t in tgts:
                    if isinstance(t, ast.Name) and (ann or (val is not None and is_set_expr(val, mods))):
                        mods.add(t.id)
                if isinstance(node, ast.ImportFrom) and node.module and node.level >= 1:
                    src = modsets.get(node.module.split(".")[-1] + ".py", set())
                    for al in node.names:
                        if al.name in src:
                            mods.add(al.asname or al.name)
            for cls in [n for n in ast.walk(tree) if isinstance(n, ast.ClassDef)]:
                for node in cls.body:
                    tgts, val, ann = assigned(node)
                    for t in tgts:
                        if isinstance(t, ast.Name) and (ann or (val is not None and is_set_expr(val, mods))):
                            setattrs.add(t.id)
            for func in funcs_of(tree):
                names = local_names(func, mods)
                for node in ast.walk(func):
                    tgts, val, ann = assigned(node)
                    for t in tgts:
                        if isinstance(t, ast.Attribute) and (ann or (val is not None and is_set_expr(val, names))):
                            setattrs.add(t.attr)
                    if isinstance(node, ast.Return) and node.value is not None and is_set_expr(node.value, names):
                        setfuncs.add(func.name)
                if _ann_is_set(func.returns):
                    setfuncs.add(func.name)
        if before == (len(setattrs), len(setfuncs), sum(len(v) for v in modsets.values())):
            break
    setfuncs -= {"__init__", "__new__", "__iter__", "__next__", "__enter__", "__exit__"}

    ITER_FUNCS = ("list", "tuple", "iter", "next", "enumerate", "zip", "map", "filter", "reversed")
    sites = []
    for fn, tree in files.items():
        scopes = [(f.name, f, local_names(f, modsets[fn])) for f in funcs_of(tree)]
        inner = set()
        for _, f, _n in scopes:
            for n in ast.walk(f):
                inner.add(id(n))
        # module / class level code (outside every function) is a scope of its own
        top = [n for n in ast.walk(tree) if id(n) not in inner and not isinstance(n, (ast.FunctionDef, ast.AsyncFunctionDef))]
        work = [(name, list(ast.walk(f)), names) for name, f, names in scopes] + [("<module>", top, modsets[fn])]
        for fname, nodes, names in work:
            for node in nodes:
                found = []
                if isinstance(node, (ast.For, ast.AsyncFor)):
                    found.append((node.iter, "for"))
                elif isinstance(node, ast.comprehension):
                    found.append((node.iter, "comprehension"))
                elif isinstance(node, ast.YieldFrom):
                    found.append((node.value, "yield-from"))
                elif isinstance(node, ast.Starred):
                    found.append((node.value, "star"))
                elif isinstance(node, ast.Call):
                    f = node.func
                    has_key = any(k.arg == "key" for k in node.keywords)
                    if isinstance(f, ast.Name) and f.id in ITER_FUNCS:
                        found += [(a, f.id) for a in node.args]
                    elif isinstance(f, ast.Name) and f.id in ("sorted", "min", "max") and has_key and node.args:
                        found.append((node.args[0], f.id + "-key"))
                    elif isinstance(f, ast.Attribute) and f.attr == "join" and node.args:
                        found.append((node.args[0], "join"))
                    elif isinstance(f, ast.Attribute) and f.attr == "fromkeys" and node.args:
                        found.append((node.args[0], "fromkeys"))
                    elif isinstance(f, ast.Attribute) and f.attr == "pop" and not node.args and not node.keywords:
                        found.append((f.value, "pop"))
                for it, how in found:
                    if is_set_expr(it, names):
                        sites.append([fn, fname, how, ast.unparse(it)[:60]])
    return sorted(map(tuple, set(map(tuple, sites))))


def gen_set_sites():
    sites = _set_sites()
    lines = ["-- GENERATED from /repo by harness/gentables.py on every run. Do not edit.",
             "namespace GtModel.Gen", "",
             "/-- every place in the package where a `set`/`frozenset` is iterated: (file, function, how, expression) -/",
             "def setSites : List (String × String × String × String) := ["]
    lines.append(",\n".join(f"  ({_s(a)}, {_s(b)}, {_s(c)}, {_s(d)})" for a, b, c, d in sites))
    lines += ["]", "", "end GtModel.Gen", ""]
    _write_if_changed(os.path.join(GEN_DIR, "SetSites.lean"), "\n".join(lines))
    return sites


# --------------------------------------------------------------------------------------------------
# C13: the formatter registry and the class hierarchies the dispatch (`formatter._get_formatter`) inspects

_EXTRACT_FMT = r'''
import json, sys, inspect
import graphtage
from graphtage import formatter as F, tree as T
import graphtage.pydiff, graphtage.dataclasses, graphtage.xml, graphtage.csv, graphtage.plist, graphtage.yaml, graphtage.json, graphtage.pickle

def fmt(inst):
    prints = sorted(n for n in dir(inst) if n.startswith("print_") and callable(getattr(inst, n, None)))
    return {"cls": type(inst).__name__, "prints": prints, "subs": [fmt(s) for s in inst.sub_formatters]}

def all_subclasses(c, seen=None):
    seen = seen if seen is not None else []
    for s in c.__subclasses__():
        if s not in seen:
            seen.append(s)
            all_subclasses(s, seen)
    return seen

nodes = [c for c in all_subclasses(T.TreeNode) if not c.__name__.startswith("Edited")]
edits = [c for c in all_subclasses(graphtage.edits.AbstractEdit)]
def own_print(c):
    p = getattr(c, "print", None)
    return p is not None and not getattr(p, "__isabstractmethod__", False)
out = {
  "formatters": [fmt(f) for f in F.FORMATTERS],
  "nodes": sorted([[c.__name__, [k.__name__ for k in c.mro()], bool(own_print(c)), bool(inspect.isabstract(c))] for c in nodes]),
  "edits": sorted([[c.__name__, [k.__name__ for k in c.mro()], bool(own_print(c)), bool(inspect.isabstract(c))] for c in edits]),
}
print(json.dumps(out))
'''


def extract_formatters():
    env = dict(os.environ)
    env["PYTHONPATH"] = C.REPO
    p = subprocess.run([C.PY, "-c", _EXTRACT_FMT], capture_output=True, text=True, env=env, timeout=120)
    if p.returncode != 0:
        raise RuntimeError("formatter table extraction failed: " + p.stderr[-800:])
    return json.loads(p.stdout.strip().split("\n")[-1])


def gen_formatter_tables():
    t = extract_formatters()

    def f(x, ind):
        pad = "  " * ind
        subs = ",\n".join(f(s, ind + 1) for s in x["subs"])
        return f'{pad}.mk {_s(x["cls"])} {_lst(_s(p) for p in x["prints"])} [' + ("\n" + subs + "\n" + pad if subs else "") + "]"
    lines = ["-- GENERATED from /repo by harness/gentables.py on every run. Do not edit.",
             "import GtModel.Model.Dispatch", "namespace GtModel.Gen", "open GtModel.Dispatch", "",
             "/-- graphtage.formatter.FORMATTERS: every non-partial formatter with its print_* methods and sub-formatter tree -/",
             "def formatters : List Fmt := ["]
    lines.append(",\n".join(f(x, 1) for x in t["formatters"]))
    lines += ["]", "", "/-- every TreeNode subclass: (name, MRO names, has a concrete print(), is abstract) -/",
              "def nodeClasses : List (String × List String × Bool × Bool) := ["]
    lines.append(",\n".join(f"  ({_s(n)}, {_lst(_s(m) for m in mro)}, {str(op).lower()}, {str(ab).lower()})" for n, mro, op, ab in t["nodes"]))
    lines += ["]", "", "/-- every AbstractEdit subclass: (name, MRO names, has a concrete print(), is abstract) -/",
              "def editClasses : List (String × List String × Bool × Bool) := ["]
    lines.append(",\n".join(f"  ({_s(n)}, {_lst(_s(m) for m in mro)}, {str(op).lower()}, {str(ab).lower()})" for n, mro, op, ab in t["edits"]))
    lines += ["]", "", "end GtModel.Gen", ""]
    _write_if_changed(os.path.join(GEN_DIR, "FormatterTables.lean"), "\n".join(lines))
    return t


# --------------------------------------------------------------------------------------------------
# C07: other sources of run-to-run variation or hidden state, by an `ast` walk.  TRIPWIRE for these syntactic forms (not "every use"):
#   * any import of time / datetime / random / secrets / uuid / threading / multiprocessing / concurrent / asyncio / signal / tempfile /
#     socket / getpass / platform (plain, aliased, or `from m import x [as y]`), every call through such a module name or alias
#     (attribute chains like `datetime.datetime.now()` included) and every call of a name imported from one of them;
#   * `os.<attr>` for every attribute other than `os.path` / constants, under any alias of os, and names imported `from os import`;
#   * np.empty / np.empty_like; sys.setrecursionlimit / setswitchinterval / settrace / setprofile / sys.argv / sys.flags.hash_randomization;
#   * every call of id(); hash() / id / hash / object.__repr__ / repr used inside a `key=` argument, inside an ordering comparison
#     (< <= > >=) or inside the arguments of sorted / min / max / .sort;
#   * `global` statements; module-level names bound to a mutable container (display, dict() / list() / set() / defaultdict / Counter /
#     OrderedDict / deque) that a function body mutates (subscript assignment / del, or .append/.add/.update/.setdefault/.pop/
#     .clear/.extend/.insert/.remove/.discard/.popitem/.appendleft) - a cache that survives the invocation, with no `global` needed;
#   * functools.lru_cache / functools.cache decorators.

def _nondet_sites():
    import ast
    pkg = os.path.join(C.REPO, "graphtage")
    MODS = {"time": "clock", "datetime": "clock", "random": "random", "secrets": "random", "uuid": "random",
            "threading": "concurrency", "multiprocessing": "concurrency", "concurrent": "concurrency", "asyncio": "concurrency",
            "signal": "concurrency", "tempfile": "environment", "socket": "environment", "getpass": "environment", "platform": "environment"}
    OS_PURE = {"path", "sep", "linesep", "devnull", "curdir", "pardir", "extsep", "altsep", "pathsep", "name", "PathLike", "fspath",
               "SEEK_SET", "SEEK_CUR", "SEEK_END"}
    MUTATORS = {"append", "add", "update", "setdefault", "pop", "clear", "extend", "insert", "remove", "discard", "popitem", "appendleft"}
    CONTAINERS = {"dict", "list", "set", "defaultdict", "Counter", "OrderedDict", "deque", "WeakValueDictionary", "WeakKeyDictionary"}
    sites = []

    def root_and_chain(e):
        chain = []
        while isinstance(e, ast.Attribute):
            chain.append(e.attr)
            e = e.value
        return (e.id if isinstance(e, ast.Name) else None), list(reversed(chain))

    for fn in sorted(os.listdir(pkg)):
        if not fn.endswith(".py"):
            continue
        tree = ast.parse(open(os.path.join(pkg, fn), encoding="utf-8").read())
        funcs = [n for n in ast.walk(tree) if isinstance(n, (ast.FunctionDef, ast.AsyncFunctionDef))]
        owner, parent = {}, {}
        for f in funcs:
            for n in ast.walk(f):
                owner.setdefault(id(n), f.name)
        for n in ast.walk(tree):
            for c in ast.iter_child_nodes(n):
                parent[id(c)] = n
        # ---- imports: local name -> (module, original name or None)
        modalias, fromnames = {}, {}
        for n in ast.walk(tree):
            if isinstance(n, ast.Import):
                for al in n.names:
                    top = al.name.split(".")[0]
                    if top in MODS or top == "os" or top in ("numpy", "sys", "functools"):
                        modalias[al.asname or top] = top
                    if top in MODS:
                        sites.append((MODS[top] + "-import", fn, owner.get(id(n), "<module>"), "import " + al.name + (" as " + al.asname if al.asname else "")))
            if isinstance(n, ast.ImportFrom) and n.module and n.level == 0:
                top = n.module.split(".")[0]
                if top in MODS or top == "os":
                    kind = MODS.get(top, "environment")
                    if top != "os" or any(a.name not in OS_PURE for a in n.names):
                        sites.append((kind + "-import", fn, "<module>", "from " + n.module + " import " + ",".join(a.name for a in n.names)))
                    for al in n.names:
                        if top != "os" or al.name not in OS_PURE:
                            fromnames[al.asname or al.name] = (top, al.name)
                if top == "functools":
                    for al in n.names:
                        if al.name in ("lru_cache", "cache"):
                            fromnames[al.asname or al.name] = ("functools", al.name)
        # ---- module-level mutable containers
        modstate = set()
        for n in ast.iter_child_nodes(tree):
            tgts = n.targets if isinstance(n, ast.Assign) else ([n.target] if isinstance(n, ast.AnnAssign) and n.value is not None else [])
            v = getattr(n, "value", None)
            mutable = isinstance(v, (ast.Dict, ast.List, ast.Set, ast.DictComp, ast.ListComp, ast.SetComp)) or \
                (isinstance(v, ast.Call) and ((isinstance(v.func, ast.Name) and v.func.id in CONTAINERS) or
                                              (isinstance(v.func, ast.Attribute) and v.func.attr in CONTAINERS)))
            if mutable:
                for t in tgts:
                    if isinstance(t, ast.Name):
                        modstate.add(t.id)

        def ordering_context(n):
            """inside key=..., an ordering comparison, or the arguments of sorted / min / max / .sort"""
            x = n
            while id(x) in parent:
                p = parent[id(x)]
                if isinstance(p, ast.keyword) and p.arg == "key":
                    return "key="
                if isinstance(p, ast.Compare) and any(isinstance(o, (ast.Lt, ast.LtE, ast.Gt, ast.GtE)) for o in p.ops):
                    return "ordering-comparison"
                if isinstance(p, ast.Call) and x is not p.func:
                    pf = p.func
                    if (isinstance(pf, ast.Name) and pf.id in ("sorted", "min", "max")) or (isinstance(pf, ast.Attribute) and pf.attr == "sort"):
                        return "sorted/min/max"
                if isinstance(p, (ast.FunctionDef, ast.AsyncFunctionDef, ast.ClassDef)):
                    return None
                x = p
            return None

        for n in ast.walk(tree):
            where = owner.get(id(n), "<module>")
            if isinstance(n, ast.Call):
                f = n.func
                root, chain = root_and_chain(f)
                if root is not None and chain:
                    m = modalias.get(root)
                    if m in MODS:
                        sites.append((MODS[m], fn, where, ast.unparse(f)))
                    if m == "numpy" or root in ("np", "numpy"):
                        if chain[-1] in ("empty", "empty_like"):
                            sites.append(("uninitialised-memory", fn, where, ast.unparse(f)))
                    if (m == "sys" or root == "sys") and chain[-1] in ("setrecursionlimit", "setswitchinterval", "settrace", "setprofile"):
                        sites.append(("interpreter-global", fn, where, ast.unparse(f)))
                    if m == "functools" and chain[-1] in ("lru_cache", "cache"):
                        sites.append(("memo", fn, where, ast.unparse(f)))
                if isinstance(f, ast.Name):
                    if f.id in fromnames:
                        mod, orig = fromnames[f.id]
                        kind = "memo" if mod == "functools" else MODS.get(mod, "environment")
                        sites.append((kind, fn, where, f"{f.id}() = {mod}.{orig}"))
                    if f.id == "id":
                        sites.append(("id", fn, where, ast.unparse(n)[:50]))
                    if f.id == "hash":
                        ctx = ordering_context(n)
                        if ctx:
                            sites.append(("hash-order", fn, where, ctx + " " + ast.unparse(n)[:40]))
                # mutation of a module-level container through a method
                if isinstance(f, ast.Attribute) and isinstance(f.value, ast.Name) and f.value.id in modstate and f.attr in MUTATORS and where != "<module>":
                    sites.append(("module-state", fn, where, f.value.id + "." + f.attr))
            # functools.lru_cache / cache used as a bare decorator
            if isinstance(n, (ast.FunctionDef, ast.AsyncFunctionDef)):
                for d in n.decorator_list:
                    r, ch = root_and_chain(d)
                    if (isinstance(d, ast.Name) and fromnames.get(d.id, ("", ""))[0] == "functools") or \
                            (r is not None and modalias.get(r) == "functools" and ch and ch[-1] in ("lru_cache", "cache")):
                        sites.append(("memo", fn, n.name, "@" + ast.unparse(d)))
            # a bare reference to id / hash / repr / object.__repr__ as a sort key
            if isinstance(n, ast.keyword) and n.arg == "key":
                v = n.value
                txt = ast.unparse(v)
                if txt in ("id", "hash", "repr", "object.__repr__") or "object.__repr__" in txt:
                    sites.append(("address-order", fn, where, "key=" + txt[:40]))
            if isinstance(n, ast.Attribute):
                root, chain = root_and_chain(n)
                if root is not None and modalias.get(root) == "os" and chain and chain[0] not in OS_PURE and not isinstance(parent.get(id(n)), ast.Attribute):
                    sites.append(("environment", fn, where, "os." + ".".join(chain)))
                if root is not None and (modalias.get(root) == "sys" or root == "sys") and chain and (chain[0] == "argv" or chain[:2] == ["flags", "hash_randomization"]) \
                        and not isinstance(parent.get(id(n)), ast.Attribute):
                    sites.append(("environment", fn, where, "sys." + ".".join(chain)))
            if isinstance(n, ast.Name) and n.id in fromnames and fromnames[n.id][0] == "os" and isinstance(n.ctx, ast.Load):
                sites.append(("environment", fn, where, f"{n.id} = os.{fromnames[n.id][1]}"))
            if isinstance(n, ast.Global):
                sites.append(("global-statement", fn, where, ",".join(n.names)))
            # subscript assignment / deletion on a module-level container inside a function
            if isinstance(n, (ast.Assign, ast.AugAssign, ast.Delete)) and where != "<module>":
                tgts = n.targets if isinstance(n, (ast.Assign, ast.Delete)) else [n.target]
                for t in tgts:
                    if isinstance(t, ast.Subscript) and isinstance(t.value, ast.Name) and t.value.id in modstate:
                        sites.append(("module-state", fn, where, t.value.id + "[...]" + (" del" if isinstance(n, ast.Delete) else " =")))
    return sorted(set(sites))


def gen_nondet_sites():
    sites = _nondet_sites()
    lines = ["-- GENERATED from /repo by harness/gentables.py on every run. Do not edit.",
             "namespace GtModel.Gen", "",
             "/-- wall clock / randomness / uninitialised memory / environment / id() / interpreter-global / `global`",
             "    sites in the package: (kind, file, function, expression) -/",
             "def nondetSites : List (String × String × String × String) := ["]
    lines.append(",\n".join(f"  ({_s(a)}, {_s(b)}, {_s(c)}, {_s(d)})" for a, b, c, d in sites))
    lines += ["]", "", "end GtModel.Gen", ""]
    _write_if_changed(os.path.join(GEN_DIR, "NondetSites.lean"), "\n".join(lines))
    return sites


def gen_c07_tables():
    gen_set_sites()
    gen_nondet_sites()

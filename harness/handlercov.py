"""Which `print` / `print_*` methods of graphtage run?  (helper, used by the `matrix` and `determinism` streams inside the worker
and as a stand-alone measuring script; NOT a check by itself.)

Every function object found in the `__dict__` of a class defined in a `graphtage.*` module whose name is `print` or starts with
`print_` is a *handler*: the `print` methods of nodes and edits, the `print_<Class>` methods the formatter dispatch resolves to.
Entering one is counted with `sys.monitoring` (PEP 669, local PY_START events on exactly these code objects: no measurable slow-down,
no wrapper objects, dispatch unchanged).

Stand-alone:   cd verif && PYTHONPATH=.:/repo /venv/bin/python -m harness.handlercov [--tier quick] [--seed N] [--jobs 8]
  runs the matrix stream's cases of that tier in-process and prints every handler with the number of cases that entered it.
"""
import importlib, inspect, pkgutil, sys

TOOL = 3          # sys.monitoring tool id (0..5 free for tools; 0 debugger, 1 coverage, 2 profiler by convention)
_CODES = {}       # code object -> handler name
_SEEN = {}        # handler name -> number of entries since the last reset()
_ON = False


def _unwrap(f):
    if isinstance(f, (staticmethod, classmethod)):
        f = f.__func__
    return f if inspect.isfunction(f) else None


def handler_table():
    """{name: function} for every handler of the imported graphtage tree; name = `<module>.<Class>.<method>` with the leading
    `graphtage.` dropped."""
    import graphtage
    for m in pkgutil.iter_modules(graphtage.__path__):
        try:
            importlib.import_module("graphtage." + m.name)
        except Exception:      # an optional module that does not import is not reachable either
            pass
    table, by_code = {}, {}
    for mn, mod in sorted(sys.modules.items()):
        if not (mn == "graphtage" or mn.startswith("graphtage.")) or mod is None:
            continue
        for cn, cls in list(vars(mod).items()):
            if not inspect.isclass(cls) or cls.__module__ != mn:
                continue
            for fn, f in vars(cls).items():
                f = _unwrap(f)
                if f is None or not (fn == "print" or fn.startswith("print_")):
                    continue
                short = mn[len("graphtage."):] if mn.startswith("graphtage.") else ""
                by_code.setdefault(f.__code__, (f, []))[1].append((short + "." if short else "") + cls.__qualname__ + "." + fn)
    for f, names in by_code.values():       # `print_MappingNode = print_MultiSetNode`: one function under two names is one handler
        table["=".join(sorted(set(names)))] = f
    return table


def all_handlers():
    return sorted(handler_table())


def start():
    """Idempotent: start counting entries into every handler."""
    global _ON
    if _ON:
        return
    mon = sys.monitoring
    if mon.get_tool(TOOL) is None:
        mon.use_tool_id(TOOL, "gtverif-handlers")
    for name, f in handler_table().items():
        _CODES[f.__code__] = name

    def on_start(code, offset):
        n = _CODES.get(code)
        if n is not None:
            _SEEN[n] = _SEEN.get(n, 0) + 1

    mon.register_callback(TOOL, mon.events.PY_START, on_start)
    for code in _CODES:
        mon.set_local_events(TOOL, code, mon.events.PY_START)
    _ON = True


def reset():
    _SEEN.clear()


def seen():
    return sorted(_SEEN)


def main(argv):
    import argparse, collections, json, os, random
    ap = argparse.ArgumentParser()
    ap.add_argument("--tier", default="quick")
    ap.add_argument("--seed", default="0")
    ap.add_argument("--stream", default="matrix")
    a = ap.parse_args(argv)
    os.environ["VERIF_SEED"] = a.seed
    from harness import common as C
    sm = C.load_stream(a.stream)
    cases = sm.gen(C.rng_for("C13", a.stream, 0), a.tier)
    obs = C.run_impl(a.stream, cases)
    cnt = collections.Counter()
    crashed = collections.Counter()
    for c, o in zip(cases, obs):
        for h in (o or {}).get("handlers", []) if isinstance(o, dict) else []:
            cnt[h] += 1
            if o.get("exc"):
                crashed[h] += 1
    names = [c["coverage"] for c in cases if "coverage" in c] or sorted(cnt)
    not_cli = getattr(sm, "NOT_CLI", {})
    real = sum(1 for c in cases if "coverage" not in c)
    print(f"{real} cases; handlers entered {sum(1 for n in names if cnt[n])}/{len(names)}; "
          f"not entered and not listed as unreachable: {[n for n in names if not cnt[n] and n not in not_cli]}")
    print("cases  of-which-crashed  handler")
    for n in names:
        print(f"{cnt[n]:6d} {crashed[n]:6d}  {n}" + ("   [listed: not reachable from the command line]" if n in not_cli else ""))


if __name__ == "__main__":
    main(sys.argv[1:])

"""Passive instrumentation of graphtage's Bounded protocol (shared by the streams `trace` and `history`).

The recorder wraps, FROM OUTSIDE, `bounds`, `tighten_bounds`, `is_complete`, `edits` and the `valid` getter of every
class implementing the protocol and only RECORDS what the engine itself obtains.  It never issues a call of its own on
any object (reading `bounds()` of a nested `EditDistance` is not side-effect free and once masked a real crash).

Per object (keyed by first-seen ordinal; all objects are kept alive during a case so `id()` is never reused) the
recorder keeps a flat event list:

    ["b", lo, hi]      a `bounds()` call returned Range(lo, hi)          (depth-0 w.r.t. `bounds` on that object:
                                                                           `super().bounds()` is not an observation)
    ["t<"] / ["t>", r] a `tighten_bounds()` call started / returned r    (a recursive self-call is not recorded)
    ["c", r]           `is_complete()` returned r
    ["v", r]           `valid` was read and was r
    ["e"]              `edits()` was called (the iterator is not consumed by the recorder)
    ["x", cls]         the call raised an exception of class cls

`install()` / `uninstall()` put the wrappers in place and remove them again, so every case can be re-run with no
instrumentation whatsoever.
"""
import functools

_STATE = {"tcount": {}, "on": False, "objs": {}, "keep": [], "events": [], "active": {}, "md": [], "steps": 0, "installed": []}

INF = "inf"
NINF = "-inf"


def num(x):
    from graphtage.bounds import Infinity
    if isinstance(x, Infinity):
        return INF if x.positive else NINF
    try:
        return int(x)
    except Exception:
        return str(x)


def rng(b):
    return [num(b.lower_bound), num(b.upper_bound)]


def target_classes():
    import graphtage
    import graphtage.edits as ge
    import graphtage.graphtage as gg
    import graphtage.sequences as gs
    import graphtage.levenshtein as gl
    import graphtage.multiset as gm
    import graphtage.matching as gma
    import graphtage.search as gse
    import graphtage.bounds as gb
    mods = [ge, gg, gs, gl, gm]
    for name in ("xml", "plist", "csv", "dataclasses", "pydiff"):
        try:
            mods.append(__import__("graphtage." + name, fromlist=["x"]))
        except Exception:
            pass
    seen = []
    for m in mods:
        for v in vars(m).values():
            if isinstance(v, type) and issubclass(v, ge.AbstractEdit) and v not in seen:
                seen.append(v)
    seen += [gma.WeightedBipartiteMatcher, gma.Matching, gma.Edge, gse.IterativeTighteningSearch, gb.ConstantBound]
    return seen


def _oid(obj):
    st = _STATE
    k = id(obj)
    o = st["objs"].get(k)
    if o is None:
        o = len(st["keep"])
        st["objs"][k] = o
        st["keep"].append(obj)
        st["events"].append([])
    return o


def _wrap(name, fn, code):
    @functools.wraps(fn)
    def wrapper(self, *a, **kw):
        st = _STATE
        if not st["on"]:
            return fn(self, *a, **kw)
        key = (id(self), name)
        act = st["active"]
        if act.get(key):
            # super().method() or a recursive self-call: not an observation of its own
            return fn(self, *a, **kw)
        o = _oid(self)
        ev = st["events"][o]
        act[key] = 1
        dk = (id(self), "#")
        d = act.get(dk, 0)
        act[dk] = d + 1
        st["calls"] = st.get("calls", 0) + 1
        if st["calls"] > st.get("max_steps", 400000):
            act[key] = 0
            act[dk] = d
            raise StepLimit()
        if code == "t":
            ev.append(["t<", d])
            st["steps"] += 1
            st["tcount"][o] = st["tcount"].get(o, 0) + 1
        try:
            r = fn(self, *a, **kw)
        except StepLimit:
            act[key] = 0
            act[dk] = d
            raise
        except BaseException as e:
            act[key] = 0
            act[dk] = d
            ev.append(["x", type(e).__name__, d])
            raise
        act[key] = 0
        act[dk] = d
        if code == "b":
            ev.append(["b", num(r.lower_bound), num(r.upper_bound), d])
        elif code == "t":
            ev.append(["t>", bool(r), d])
        elif code == "c":
            ev.append(["c", bool(r), d])
        elif code == "v":
            ev.append(["v", bool(r), d])
        elif code in ("e", "m"):
            ev.append([code, d])
        return r
    wrapper._lazyinst = True
    return wrapper


class StepLimit(BaseException):
    """More recorded calls than `max_steps`: the refinement does not terminate (BaseException so that no library
    `except Exception` can swallow it)."""


class Timeout(BaseException):
    """Wall-clock guard.  `logging` swallows an `Exception` raised from a signal handler while a record is being
    emitted (graphtage logs a warning on every iteration of a non-terminating `repeat_until_tightened` loop), so
    the harness worker's own `Hang(Exception)` alarm can be lost; this one cannot."""


class time_limit:
    def __init__(self, seconds):
        self.seconds = seconds

    def __enter__(self):
        import signal

        def handler(signum, frame):
            raise Timeout()
        self.old = signal.signal(signal.SIGALRM, handler)
        self.left = signal.setitimer(signal.ITIMER_REAL, self.seconds)[0]

    def __exit__(self, *exc):
        import signal
        signal.setitimer(signal.ITIMER_REAL, 0)
        signal.signal(signal.SIGALRM, self.old)
        if self.left:
            signal.setitimer(signal.ITIMER_REAL, max(0.05, self.left))
        return False


def quiet_logging():
    import logging
    logging.disable(logging.WARNING)


def install():
    st = _STATE
    if st["installed"]:
        return
    import graphtage.bounds as gb
    import graphtage.levenshtein as gl
    import graphtage.matching as gma
    for cls in target_classes():
        d = cls.__dict__
        for name, code in (("bounds", "b"), ("tighten_bounds", "t"), ("is_complete", "c"), ("edits", "e")):
            fn = d.get(name)
            if fn is None or not callable(fn) or getattr(fn, "_lazyinst", False):
                continue
            if getattr(fn, "__isabstractmethod__", False):
                continue
            st["installed"].append((cls, name, fn))
            setattr(cls, name, _wrap(name, fn, code))
        for name in ("remove_best", "search"):
            fn = d.get(name)
            if fn is not None and callable(fn) and not getattr(fn, "_lazyinst", False):
                st["installed"].append((cls, name, fn))
                setattr(cls, name, _wrap(name, fn, "m"))
        p = d.get("matching")
        if isinstance(p, property) and p.fget is not None and not getattr(p.fget, "_lazyinst", False):
            st["installed"].append((cls, "matching", p))
            setattr(cls, "matching", property(_wrap("matching", p.fget, "m"), p.fset, p.fdel, p.__doc__))
        p = d.get("valid")
        if isinstance(p, property) and p.fget is not None and not getattr(p.fget, "_lazyinst", False):
            st["installed"].append((cls, "valid", p))
            setattr(cls, "valid", property(_wrap("valid", p.fget, "v"), p.fset, p.fdel, p.__doc__))
    # make_distinct: record, per call, how many tighten_bounds() steps each argument received (oracle)
    orig = gb.make_distinct

    def md(*proxied):
        if not st["on"]:
            return orig(*proxied)
        bounded = proxied
        bounded = [getattr(b, "_lazy_real", b) for b in bounded]
        ids = [_oid(b) for b in bounded]
        before = [st["tcount"].get(o, 0) for o in ids]
        try:
            return orig(*proxied)
        finally:
            after = [st["tcount"].get(o, 0) for o in ids]
            final = []
            for o in ids:
                lastb = None
                for e in reversed(st["events"][o]):
                    if e[0] == "b":
                        lastb = [e[1], e[2]]
                        break
                final.append(lastb)
            st["md"].append({"n": len(ids), "counts": [a - b for a, b in zip(after, before)], "final": final,
                             "objs": ids})
    md._lazyinst = True
    for mod in (gb, gl, gma):
        st["installed"].append((mod, "make_distinct", mod.make_distinct))
        mod.make_distinct = md


def uninstall():
    st = _STATE
    for owner, name, orig in reversed(st["installed"]):
        setattr(owner, name, orig)
    st["installed"] = []


def start(max_steps=400000):
    st = _STATE
    st["objs"] = {}
    st["keep"] = []
    st["events"] = []
    st["active"] = {}
    st["md"] = []
    st["steps"] = 0
    st["calls"] = 0
    st["tcount"] = {}
    st["max_steps"] = max_steps
    st["on"] = True


def stop():
    """Stop recording; returns (objects, events, make_distinct records)."""
    st = _STATE
    st["on"] = False
    objs, events, md = st["keep"], st["events"], st["md"]
    st["objs"] = {}
    st["keep"] = []
    st["events"] = []
    st["active"] = {}
    st["md"] = []
    return objs, events, md


def oid_of(obj):
    return _STATE["objs"].get(id(obj))


def pause():
    _STATE["on"] = False


def resume():
    _STATE["on"] = True


# --------------------------------------------------------------------------------------------- interval helpers

def _lt(a, b):
    if a == b:
        return False
    if a == NINF or b == INF:
        return True
    if a == INF or b == NINF:
        return False
    return a < b


def _le(a, b):
    return a == b or _lt(a, b)


def contains(outer, inner):
    """Range.__contains__: inner in outer."""
    return _le(outer[0], inner[0]) and _le(inner[1], outer[1])


def definitive(b):
    return b[0] == b[1] and b[0] not in (INF, NINF)


def strictly_inside(b1, b0):
    return contains(b0, b1) and b1 != b0


# --------------------------------------------------------------------------------------------- protocol checks

def _sib(ev, k, d, step, stop):
    """Next event at depth d in direction step from k (exclusive), ignoring deeper (nested) events; None if a
    shallower event (the end of the enclosing call) or `stop` is reached first."""
    k += step
    while 0 <= k < len(ev) and k != stop:
        dd = ev[k][-1]
        if dd == d:
            return k
        if dd < d:
            return None
        k += step
    return None


def _obs(ev, k, d, step, stop):
    """The bounds observation adjacent (at depth d) to position k, skipping pure reads (`valid`, `is_complete`)."""
    while True:
        k = _sib(ev, k, d, step, stop)
        if k is None:
            return None
        e = ev[k]
        if e[0] == "b":
            return [e[1], e[2]]
        if e[0] not in ("v", "c"):
            return None


def check_object(cls, ev, hits, stats, label=""):
    """C04 on the passive event list of ONE bounded object.  Appends (key, what) pairs to hits."""
    obs = [(i, [e[1], e[2]]) for i, e in enumerate(ev) if e[0] == "b"]
    invalid = any(e[0] == "v" and e[1] is False for e in ev)
    stats["objects:" + cls] = stats.get("objects:" + cls, 0) + 1
    # the final value: the last definitive observation
    final = None
    for _, b in reversed(obs):
        if definitive(b):
            final = b
            break
    if invalid:
        hits.append(("invalidated:" + cls, f"{label}: the edit declared itself invalid"))
        return
    prev = None
    for i, b in obs:
        if prev is not None and not contains(prev, b):
            hits.append(("widened:" + cls, f"{label}: bounds went from {prev} to {b}"))
            break
        prev = b
    if final is not None:
        for i, b in obs:
            if not contains(b, final):
                hits.append(("unsound:" + cls, f"{label}: bounds {b} do not contain the final value {final[0]}"))
                break
        # after a definitive observation nothing may change any more
        seen_def = False
        for i, b in obs:
            if seen_def and b != final:
                hits.append(("changed-after-definitive:" + cls, f"{label}: bounds {b} observed after the definitive value {final}"))
                break
            if definitive(b):
                seen_def = True
    # steps: b0, t<, ..., t> r, b1
    n = len(ev)
    i = 0
    depth = 0
    while i < n:
        e = ev[i]
        if e[0] == "t<":
            # find the matching t> (tighten calls on one object do not nest in the record)
            j = i + 1
            while j < n and not (ev[j][0] in ("t>", "x") and ev[j][-1] == e[-1]):
                j += 1
            if j >= n or ev[j][0] == "x":
                i = j + 1
                continue
            r = ev[j][1]
            d = e[-1]
            b0 = _obs(ev, i, d, -1, -1)
            if b0 is None:
                k = _sib(ev, i, d + 1, 1, j)           # first call made inside the step
                if k is not None and ev[k][0] == "b":
                    b0 = [ev[k][1], ev[k][2]]
            b1 = _obs(ev, j, d, 1, n)
            if b1 is None:
                k = _sib(ev, j, d + 1, -1, i)          # last call made inside the step
                if k is not None and ev[k][0] == "b":
                    b1 = [ev[k][1], ev[k][2]]
            stats["steps:" + cls] = stats.get("steps:" + cls, 0) + 1
            if r:
                stats["true:" + cls] = stats.get("true:" + cls, 0) + 1
            if r and b0 is not None and b1 is not None:
                stats["true-observed:" + cls] = stats.get("true-observed:" + cls, 0) + 1
                if b0 == b1:
                    hits.append(("progress-without-shrink:" + cls, f"{label}: tighten_bounds() returned True but the bounds stayed {b0}"))
                elif not strictly_inside(b1, b0):
                    hits.append(("progress-not-inside:" + cls, f"{label}: tighten_bounds() returned True, bounds {b0} -> {b1}"))
            if r and b0 is not None and definitive(b0):
                hits.append(("progress-on-definitive:" + cls, f"{label}: tighten_bounds() returned True although the bounds were already {b0}"))
            if not r:
                # the next (or last inner) observation must be definitive
                nb = b1
                if nb is not None:
                    stats["false-observed:" + cls] = stats.get("false-observed:" + cls, 0) + 1
                    if not definitive(nb):
                        hits.append(("stopped-not-definitive:" + cls, f"{label}: tighten_bounds() returned False but the bounds are {nb}"))
            i = j + 1
        else:
            i += 1
    for e in ev:
        if e[0] == "x":
            hits.append(("raised:" + cls + ":" + e[1], f"{label}: a protocol method raised {e[1]}"))
            break

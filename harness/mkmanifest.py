"""Regenerate /verif/MANIFEST.json from the property registry (python -m harness.mkmanifest)."""
import json, os

from . import common as C
from .props import PROPS

ALL = [json.loads(l)["id"] for l in open(os.path.join(C.VERIF, "properties.jsonl"))]

# What each check's Lean part really establishes and what is decided on the real code only.  Kept by hand, per
# property, on purpose (an audit rightly objected to a uniform template).  "full" = the property as stated, on the
# model, for all inputs in the stated domain; the model is tied to /repo by the listed streams on every run.
CLAIMS = {
    "C01": "FULL on the model for trees built from JSON/JSON5/YAML/plist documents, CSV tables, XML/HTML elements and top-level multisets: script_accounts / xml_script_accounts / mset_accounts — every child of both containers is accounted for exactly once at every nesting level, in order for lists and strings, up to permutation for mappings, for every solver answer (the model cuts an answer down to a partial injection; a non-injective real answer would show as a model/code disagreement). Needs distinct keys per mapping (true of every parsed document, proved for build). Not covered: multisets nested inside multisets.",
    "C02": "FULL on the model: zero_cost_iff_eq, eq_iff_dataEq, zero_cost_iff_dataEq (cost 0 iff equal as data against an independent specification Doc.dataEq), positive_edit_exists; XML twins incl. the witness of finding D23 (tail text dropped). exit_status_iff is definitional (exit = cost > 0); that the real command follows it is checked by the cli and matrix streams. Domain excludes NaN, -0.0 and numerically equal int/float pairs.",
    "C03": "PARTLY definitional: for key/value, positional, multiset and fixed-key edits the model DEFINES the reported cost as the sum of the parts (mirroring the repaired code), so reported_eq_sum carries real content only for EditDistance / StringEdit (solve_total_eq_sum) and for the XML layer; that the real bounds() of every compound edit converges to that sum is (i) proved on the operational model L3, whose machines carry the code's own bounds() formulas (matcher bounds + matched key/value edits + k cheapest/costliest or actual left-overs; the EditCollection cap): C05.mkEdit_refines_L2 shows their final value is exactly the L2 cost, and (ii) tied to the code by the exact correspondence (cost field of every node) and the monitor, which is what caught defects D6, D7 and finding D21. three_views_agree is a traversal identity on the model; the three real views are compared by the monitor.",
    "C04": "engine_protocol_docs: for every pair of JSON documents and every option set the lazy machine mkEdit (constant, key/value, string, positional list, EditDistance with its fringe sweep and freed matrix, EditCollection, WeightedBipartiteMatcher + MultiSetEdit) obeys the protocol — intervals nested, always containing the final cost, a decreasing measure, False only on a single value, strict shrinking for an observer who read bounds() — for every make_distinct oracle and every full-size admissible solver answer (OrcFull); per-class theorems editDistance_protocol, editCollection_protocol, fixedLen_protocol, matcher_protocol, multiset_protocol; mkEdit_initial_bounds. Hypotheses: distinct keys; with dict strategy none additionally Tree.fkOK on the second document (outside it the property is FALSE: finding D24). Finding D21 (duplicate multiset elements, library API only). XML / CSV-specific edit classes and IterativeTighteningSearch-based PossibleEdits are outside the L3 model (search: see C17).",
    "C05": "no_internal_error_docs, history_independent_docs, mkEdit_refines_L2: after ANY sequence of the six public operations, under either setting of quiet, no internal error occurs and finishing yields exactly L2's script and cost (toD (diffDocs o orc f t)) — for every pair of JSON documents and option set, same hypotheses as C04 (distinct keys, OrcFull, fkOK under strategy none). Colour/status settings beyond quiet are exercised by the history stream, not modelled.",
    "C06": "project_from / project_to / marks_iff on the model of the JSON colour rendering: both projections of the rendered (character, mark) sequence tokenise to the respective document up to a permutation of the members of objects (ValPerm: lists element-wise in order, atoms equal; project_*_tokens: same multiset of tokens), and marks appear iff the documents differ — unconditional for documents with distinct keys. The statement uses a tokenizer, not a JSON parser, and the ANSI-mark rendering only; the plain-text (~~ ++) rendering and the real parser are exercised by the monitor.",
    "C07": "MOSTLY RUNTIME: the only Lean obligations are two tripwires over tables regenerated from the source by ast walks: set_sites_reviewed (every iteration over a set/frozenset) and nondet_sites_reviewed (every use of the clock, randomness, np.empty, the environment, id(), sys.setrecursionlimit-style interpreter settings and `global` statements) must be contained in reviewed lists, so a new hash-ordered loop or a new source of run-to-run variation breaks the build. Determinism across hash seeds and processes, absence of hidden state across invocations and non-mutation of inputs are decided on the real code by the determinism stream (PYTHONHASHSEED 0-3 / 0-8, reversed order, diff-of-diff-result snapshot). Key-order independence of the model is C08.",
    "C08": "FULL on the model: build_perm_dict / dict_perm_script (permuting keys at any depth yields the identical tree and script under the auto and match strategies), perm_equal / perm_cost_zero (every strategy), fdict_perm_cost (strategy none, any depth) and fdict_perm_pairing (strategy none, ROOT mapping only), list_swap_positive.",
    "C09": "THIN: in the model the JSON, JSON5 and YAML loaders are the same function (build) and plist adds a wrapper, so same_data_zero / third_doc_independent are consequences of C02 (equal trees cost 0) plus that modelling decision; the real content is (i) the ASSUMPTION, checked on every run, that the four real parsers return equal Python objects, (ii) the exact correspondence of the 4x4 zero-cost matrix and exit statuses incl. explicit type flags, and (iii) the witness theorem for finding D10 (plist on the to-side is a Replace).",
    "C10": "FULL on the model at every nesting level: none_no_cross_key, none_no_multiset, auto_same_key_paired, no_list_edits_positional, no_list_edits_same_length_positional (lists and mappings built by build_tree; a CSV table is the list of lists of strings the CSV loader builds, rows and cells carrying the list options) and, for the children of XML / HTML elements, xml_no_list_edits_positional, xml_no_list_edits_same_length_positional (+ _docs, _children, xml_list_edits_allowed). The streams exercise all 16 combinations of the four build options on JSON trees, default / -l / -ll on CSV tables through the real loader, and eight option sets on XML / HTML elements (direct and through both registered file types).",
    "C11": "FULL on the model: string_edit_minimal, kept_longest, removed_plus_inserted_minimal, strScript_reconstructs against an independent specification (List.Sublist, lcs); the greedy matrix of EditDistance is proved to compute the optimal insert/delete distance on unit-cost characters (it is NOT optimal on weighted lists, which no property claims). str strings only (a diff of bytes raises TypeError in the code).",
    "C12": "read_print (JSON: any nesting the printer can handle, all code points incl. lone surrogates, any integer; floats opaque) and csv_read_print (cells without CR) on the model of printer and reader; JSON5 shares the JSON printer and, since the loader fix, the surrogate-joining reader. YAML, plist and XML round trips are decided on the real code only. The real printer hits Python's recursion limit at about 150-200 levels of nesting (outside the exercised domain: depth <= 30).",
    "C13": "dispatch_total / dispatch_total_from_subformatters: over the regenerated formatter registry and class MROs, the formatter dispatch finds a print_* handler for every concrete node class (plain and Edited variants) from every formatter instance — no fallback needed; edit_dispatch_total records that every edit class has a formatter method or its own print. The ~1500 lines of handler BODIES are not modelled: that half is decided on the real code by exhaustive enumeration of input type x output format x mode x colour x condensed x option flags (thorough: 17k runs). Findings D11, D18.",
    "C14": "alias_from_type, explicit_mime_wins, explicit_type_wins, second_file_ignores_first_file_options, alias_k, alias_j over the regenerated file-type tables: main()'s selection logic. argparse's own parsing and the byte-level agreement with the library are decided by the cli stream (exact comparison of parsers invoked, options built, outputs of equivalent spellings, command vs library).",
    "C15": "FULL for every solver answer meeting the stated contract: result_is_injection, only_existing_pairs, reports_true_weights, pairs_min_n_m, total_is_minimum, null_value_dominates, get_dtype_sound (regenerated table). scipy itself is a parameter: every recorded answer is validated against the contract (brute force for n,m <= 6). Weights >= 0, |w| < 2^53.",
    "C16": "FULL on a structure-exact model: reachable_inv (invariant over all operation sequences), reachable_no_index_error, size_eq_live, peek_is_min, pop_is_min and the max-heap twins, smallest/largest_correct.",
    "C17": "lt_terminates, lt_consistent, le_correct, min_bounded_min, make_distinct_post / make_distinct_terminates (every admissible choice), search_returns_min, search_bounds_point, search_bounds_sound, search_terminates (default initial bounds, every heap oracle) — full; sort_sorted_partial assumes a heap contract that is checked on every run instead of being derived from the C16 model.",
    "C18": "to_obj_build, entry_points_agree, copy_eq, sharing_not_cycle, build_terminates(_checked), cycle_detected, cycle_placeholder for lists/tuples/dicts/sets/scalars through BasicBuilder, pydiff.build_tree and json.build_tree; placeholder presence through dict-valued cycles, custom objects and the pydiff.diff entry point are covered by the stream only. Findings copy-neq/cyclicref, copy-neq/pyobj.",
    "C19": "no_underscore_getattr, names_resolved(_default), whitelist_eq_documented, reflective_member_refused, safe_method_intercepted for ALL token sequences: the evaluator itself never issues an underscore getattr and resolves only given names and the documented whitelist. That no reachable public method hands out private state is an ASSUMPTION about the host, validated by tripwires; it is known to be false for TreeNode.editable_dict (finding D26).",
    "C20": "handlers_cover over the regenerated except-clause table and exception MROs: every exception class the external parser of a text format is ASSUMED to raise on invalid syntax is caught by that format's loader; error_path_* restate main()'s three-line error branch. Which classes the parsers really raise, and the message text, are decided by the fault enumeration on the real code (truncation at every byte, delimiter corruption, deep nesting, invalid UTF-8, under several option sets).",
}


def main():
    checks = []
    modules = []
    for p in ALL:
        if p not in PROPS:
            continue
        spec = PROPS[p]
        thms = spec.get("theorems", [])
        for m in spec.get("lean_modules", []):
            if m not in modules:
                modules.append(m)
        text = CLAIMS.get(p, "") + f" [{len(thms)} registered theorems in {', '.join(spec.get('lean_modules', []))}; streams: {', '.join(spec.get('streams', []))}]"
        checks.append({
            "property_id": p,
            "quick_cmd": f"./check {p} --tier quick",
            "thorough_cmd": f"./check {p} --tier thorough",
            "evidence_file": f"evidence/{p}.json",
            "replay_cmd_template": f"./check {p} --replay {{path}}",
            "engine": "lean-model+harness",
            "level_claimed": {"category": "proof", "text": text, "design_ref": "DESIGN.md section 4 (" + p + ")"},
            "level_note": "Trusted: Lean 4.33 kernel; axioms of every registered theorem are printed on each run and must be within {propext, Classical.choice, Quot.sound}; "
                          "no sorry/admit/native_decide/bv_decide/implemented_by/unsafe (source audit on each run). The hand-written model describes the code only as far as the "
                          "correspondence run has compared them (input distribution in the evidence file). " + " ".join(spec.get("assumptions", []))[:1500],
            "technique": "Lean 4 theorems over an executable model + differential correspondence with /repo (line protocol) + property monitor / failing-input search",
        })
    na = [{"property_id": p, "reason": "check not built"} for p in ALL if p not in PROPS]
    m = {
        "version": 1,
        "setup_cmd": "cd lean && lake build gtdriver " + " ".join(modules),
        "hooks": {"guard": "GRAPHTAGE_VERIF",
                  "enable": "no source hooks: the harness imports /repo's working tree in worker subprocesses (PYTHONPATH=/repo) and wraps functions from outside at import time",
                  "baseline_off_cmd": "cd /repo && /venv/bin/python -m pytest -ra -q -p no:cacheprovider --timeout=900 --continue-on-collection-errors",
                  "source_commits": [], "add_only": True},
        "engines": [
            {"name": "lean-model", "path": "lean/", "serves_properties": [c["property_id"] for c in checks],
             "kind_free_text": "Lean 4 model + theorems (lake project GtModel, Mathlib-free models), line-protocol driver gtdriver (lean_exe)"},
            {"name": "harness", "path": "harness/", "serves_properties": [c["property_id"] for c in checks],
             "kind_free_text": "Python: case generators, real-code workers, correspondence differ, property monitors, shrinking, failing-input search, Gen-table translators"}],
        "checks": checks,
        "notes": "See DESIGN.md. known_findings.json lists genuine defects recorded rather than repaired and the fix: commits made in /repo. "
                 "The level category is `proof` for every check because that is the technique; the per-check text says which part of the property is a theorem and which part is decided on the real code only.",
        "not_applicable": na,
    }
    json.dump(m, open(os.path.join(C.VERIF, "MANIFEST.json"), "w"), indent=1)
    print("checks:", [c["property_id"] for c in checks], "not yet:", [x["property_id"] for x in na])
    print("setup:", m["setup_cmd"][:200], "...")


if __name__ == "__main__":
    main()

"""Regenerate /verif/MANIFEST.json from the property registry (python -m harness.mkmanifest)."""
import json, os

from . import common as C
from .props import PROPS

ALL = [json.loads(l)["id"] for l in open(os.path.join(C.VERIF, "properties.jsonl"))]

DESIGN_REF = {p: "DESIGN.md section 4 (" + p + ")" for p in ALL}


def main():
    checks = []
    for p in ALL:
        if p not in PROPS:
            continue
        spec = PROPS[p]
        thms = spec.get("theorems", [])
        partial = spec.get("partial", "")
        text = (f"{len(thms)} Lean 4 theorems about a hand-written executable model of the code ("
                + ", ".join(spec.get("lean_modules", [])) + "), quantified over all inputs/histories the property names; "
                "the model is tied to /repo's working tree on every run by a differential correspondence run (streams: "
                + ", ".join(spec.get("streams", [])) + ") plus an independent monitor of the property on the real code, which is also the failing-input search when a proof obligation or the correspondence breaks.")
        if partial:
            text += " PARTIAL: " + partial
        if not thms:
            text += " (no property theorem yet: the check currently rests on the correspondence run and the monitor only.)"
        checks.append({
            "property_id": p,
            "quick_cmd": f"./check {p} --tier quick",
            "thorough_cmd": f"./check {p} --tier thorough",
            "evidence_file": f"evidence/{p}.json",
            "replay_cmd_template": f"./check {p} --replay {{path}}",
            "engine": "lean-model+harness",
            "level_claimed": {"category": "proof", "text": text, "design_ref": DESIGN_REF[p]},
            "level_note": "Trusted: Lean 4.33 kernel; axioms of every listed theorem are printed on each run and must be within {propext, Classical.choice, Quot.sound}; "
                          "no sorry/admit/native_decide/bv_decide/implemented_by/unsafe (source audit on each run). The model describes the code only as far as the "
                          "correspondence run has compared them (input distribution in the evidence file). " + " ".join(spec.get("assumptions", [])),
            "technique": "Lean 4 theorems over an executable model + differential correspondence with /repo (line protocol) + property monitor / failing-input search",
        })
    na = [{"property_id": p, "reason": "check not built yet (work in progress; will be claimed)"} for p in ALL if p not in PROPS]
    m = {
        "version": 1,
        "setup_cmd": "cd lean && lake build",
        "hooks": {"guard": "GRAPHTAGE_VERIF",
                  "enable": "no source hooks: the harness imports /repo's working tree in worker subprocesses (PYTHONPATH=/repo) and wraps functions from outside at import time",
                  "baseline_off_cmd": "cd /repo && /venv/bin/python -m pytest -ra -q -p no:cacheprovider --timeout=900 --continue-on-collection-errors",
                  "source_commits": [], "add_only": True},
        "engines": [
            {"name": "lean-model", "path": "lean/", "serves_properties": [c["property_id"] for c in checks],
             "kind_free_text": "Lean 4 model + theorems (lake project GtModel, Mathlib-free models), line-protocol driver gtdriver (lean_exe)"},
            {"name": "harness", "path": "harness/", "serves_properties": [c["property_id"] for c in checks],
             "kind_free_text": "Python: case generators, real-code workers, correspondence differ, property monitors, shrinking, failing-input search, Gen-table translators"}],
        "checks": checks,
        "notes": "See DESIGN.md. known_findings.json lists genuine defects recorded rather than repaired and the fix: commits made in /repo.",
        "not_applicable": na,
    }
    json.dump(m, open(os.path.join(C.VERIF, "MANIFEST.json"), "w"), indent=1)
    print("checks:", [c["property_id"] for c in checks], "not yet:", [x["property_id"] for x in na])


if __name__ == "__main__":
    main()

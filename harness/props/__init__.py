"""Registry: property id -> what decides it (Lean modules/theorems, correspondence streams, extras)."""
import importlib, pkgutil

PROPS = {}


def register(pid, **spec):
    PROPS[pid] = spec


from . import table  # noqa: E402,F401  (fills PROPS)

# every other module of this package registers one property (cxx.py)
for _m in sorted(m.name for m in pkgutil.iter_modules(__path__)):
    if _m != "table":
        importlib.import_module(__name__ + "." + _m)


# one domain restriction shared by every property whose model rests on the L1 scalar equality (second audit, H4)
_NUMERIC_DOMAIN = ("scalars: the model compares floats as opaque str() tokens, Python compares numbers by value: a pair of "
                   "documents in which a float equals an int (1.0 / 1, 1e16 / 10**16), -0.0 meets 0.0 or 0, or NaN occurs is "
                   "outside the model; the real code is checked on exactly those documents by the monitor-only stream numeq "
                   "(C01-C03) and by the build stream (C18)")
for _pid in ("C01", "C02", "C03", "C04", "C05", "C06", "C08", "C10"):
    if _pid in PROPS:
        PROPS[_pid].setdefault("assumptions", [])
        if _NUMERIC_DOMAIN not in PROPS[_pid]["assumptions"]:
            PROPS[_pid]["assumptions"] = list(PROPS[_pid]["assumptions"]) + [_NUMERIC_DOMAIN]

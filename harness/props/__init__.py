"""Registry: property id -> what decides it (Lean modules/theorems, correspondence streams, extras)."""
PROPS = {}


def register(pid, **spec):
    PROPS[pid] = spec


from . import table  # noqa: E402,F401  (fills PROPS)

"""Registry: property id -> what decides it (Lean modules/theorems, correspondence streams, extras)."""
import importlib, pkgutil

PROPS = {}


def register(pid, **spec):
    PROPS[pid] = spec


from . import table  # noqa: E402,F401  (fills PROPS)

# every other module of this package registers one property (cxx.py)
for _m in sorted(m.name for m in pkgutil.iter_modules(__path__)):
    if _m != "table":
        importlib.import_module(__name__ + "." + _m)

"""C01: the edit script accounts for every element of both documents exactly once, at every nesting level."""
from . import register

register(
    "C01",
    lean_modules=["GtModel.Props.C01", "GtModel.Props.C01x", "GtModel.Props.C01m"],
    theorems=[
        "GtModel.C01.sanitize_partial_injection",
        "GtModel.C01.oracle_partial_injection",
        "GtModel.C01.fixed_accounts",
        "GtModel.C01.ed_accounts",
        "GtModel.C01.str_accounts",
        "GtModel.C01.kvp_accounts",
        "GtModel.C01.fk_accounts",
        "GtModel.C01.ms_accounts_from",
        "GtModel.C01.ms_accounts",
        "GtModel.C01.script_accounts",
        "GtModel.C01.build_keysDistinct",
        "GtModel.C01.script_accounts_docs",
        "GtModel.C01.keep_reproduces",
        "GtModel.C01.keep_root",
        # sentence 2 for whole documents: the two projections of the script rebuild the two documents
        "GtModel.C01.project_of_accounts",
        "GtModel.C01.project_from",
        "GtModel.C01.project_to",
        "GtModel.C01.project_from_docs",
        "GtModel.C01.project_to_docs",
        "GtModel.C01.project_from_mapFree",
        "GtModel.C01.project_to_mapFree",
        # XML / HTML elements (model GtModel.Xml.xmlEdits, stream scriptxml)
        "GtModel.C01.xml_elem_accounts",
        "GtModel.C01.xml_elem_children_length",
        "GtModel.C01.xml_ed_accounts",
        "GtModel.C01.xml_fixed_accounts",
        "GtModel.C01.xml_script_accounts",
        "GtModel.C01.xml_script_accounts_docs",
        "GtModel.C01.xml_keep_reproduces",
        "GtModel.Xml.xbuild_keysDistinct",
        # general multisets with duplicates (model GtModel.MSet.msGeneral, stream scriptmset): by multiplicity, both sides
        "GtModel.C01.mset_accounts_from",
        "GtModel.C01.mset_accounts_to",
        "GtModel.C01.mset_accounts",
        "GtModel.C01.mset_children_length",
    ],
    streams=["script", "scriptx", "scriptxml", "scriptmset", "script_O", "numeq", "dataclass"],
    assumptions=[
        "Tree.KeysDistinct: no mapping holds a key twice (true of every tree built from a Python dict: "
        "GtModel.C01.build_keysDistinct); needed only for the to-side of MultiSetEdit / FixedKeyDictNodeEdit",
        "the engine has fully tightened every bound (the model is the static final script)",
        "trees are those json.build_tree makes (leaf / list / DictNode / FixedKeyDictNode; CSV tables are lists of "
        "lists of strings) and the XML / HTML elements xml.build_tree makes (xml_* theorems, XTree.KeysDistinct: no "
        "attribute name twice per element); MultiSetNodes of arbitrary nodes with duplicates (library API): model "
        "GtModel.MSet.msGeneral, keys = equivalence classes of == (presumes what Python's dict presumes: == on nodes is an "
        "equivalence compatible with hash); accounting is by multiplicity (equal elements share one node object)",
    ],
    trusted=[
        "correspondence stream `script`: GtModel.edits reproduces the real engine's final script incl. indices",
        "correspondence stream `scriptxml`: GtModel.Xml.xmlEdits reproduces the real engine's final script incl. "
        "indices for XML / HTML elements",
        "correspondence stream `scriptmset`: GtModel.MSet.msGeneral reproduces the real engine's final script, costs "
        "(incl. the D21 collisions) and children() order on multisets with duplicates",
        "the assignment solver (scipy) is an oracle: its answer is sanitised to a partial injection, theorems hold "
        "for every answer",
    ],
    partial="sentence 2 ('discarding what is marked inserted reproduces the first document, …removed… the second') is proved "
    "for whole JSON-family documents on the model (project_from / project_to: the projections rebuild every level from "
    "the script's kinds, order and indices) with these limits: (a) mappings are reproduced up to the ORDER of their "
    "pairs (Tree.Sim; equality for documents without mappings, project_*_mapFree); (b) the model's scripts carry "
    "indices and costs, no values: a Match / Replace / Remove / Insert without sub-edits contributes the node its "
    "recorded index names in the parent's from- resp. to-node, looked up in the two documents; (c) the marks on the "
    "real EditedTreeNodes (removed / inserted / edit.to_node) are tied to the model's script by the `script` stream's "
    "monitor, not by a theorem; (d) keep_reproduces / xml_keep_reproduces are PER-NODE re-readings of LocalAcc (one "
    "compound edit, no descent): XML / HTML elements and general multisets have no whole-document projection theorem",
)

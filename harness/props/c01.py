"""C01: the edit script accounts for every element of both documents exactly once, at every nesting level."""
from . import register

register(
    "C01",
    lean_modules=["GtModel.Props.C01"],
    theorems=[
        "GtModel.C01.sanitize_partial_injection",
        "GtModel.C01.oracle_partial_injection",
        "GtModel.C01.fixed_accounts",
        "GtModel.C01.ed_accounts",
        "GtModel.C01.str_accounts",
        "GtModel.C01.kvp_accounts",
        "GtModel.C01.fk_accounts",
        "GtModel.C01.ms_accounts_from",
        "GtModel.C01.ms_accounts",
        "GtModel.C01.script_accounts",
        "GtModel.C01.build_keysDistinct",
        "GtModel.C01.script_accounts_docs",
        "GtModel.C01.keep_reproduces",
        "GtModel.C01.keep_root",
    ],
    streams=["script", "scriptx"],
    assumptions=[
        "Tree.KeysDistinct: no mapping holds a key twice (true of every tree built from a Python dict: "
        "GtModel.C01.build_keysDistinct); needed only for the to-side of MultiSetEdit / FixedKeyDictNodeEdit",
        "the engine has fully tightened every bound (the model is the static final script)",
        "trees are those json.build_tree makes (leaf / list / DictNode / FixedKeyDictNode); XML, CSV and "
        "multiset-of-non-pairs nodes are not modelled",
    ],
    trusted=[
        "correspondence stream `script`: GtModel.edits reproduces the real engine's final script incl. indices",
        "the assignment solver (scipy) is an oracle: its answer is sanitised to a partial injection, theorems hold "
        "for every answer",
    ],
    partial="",
)

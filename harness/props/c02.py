"""C02: no edits are reported exactly when the two documents are equal."""
from . import register

register(
    "C02",
    lean_modules=["GtModel.Props.C02"],
    theorems=[
        "GtModel.C02.zero_cost_iff_eq",
        "GtModel.C02.eq_zero_cost",
        "GtModel.C02.build_WF",
        "GtModel.C02.eq_iff_dataEq",
        "GtModel.C02.zero_cost_iff_dataEq",
        "GtModel.C02.pos_atom_of_pos_cost",
        "GtModel.C02.positive_edit_exists",
        "GtModel.C02.exit_status_iff",
        "GtModel.lev_eq_zero_iff",
        "GtModel.strEdits_cost_zero_iff",
    ],
    streams=["script", "scriptx", "cli"],
    assumptions=[
        "objects of the compared documents have distinct keys (Doc.distinctKeys; what json/yaml parsers deliver); "
        "without it graphtage's DictNode equality is multiset equality of pairs and the statement is not claimed",
        "float leaves are opaque tokens compared by their str(); numerically equal int/float pairs are outside the model's domain",
        "the script is the fully refined one (all bounds tightened), as dumped by the script stream",
    ],
    trusted=[
        "script stream: model output (script, eq, sizes) == real graphtage on every generated case",
        "the assignment solver's answers enter as an oracle; theorems hold for every oracle",
    ],
    partial="",
)

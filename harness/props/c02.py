"""C02: no edits are reported exactly when the two documents are equal."""
from . import register

register(
    "C02",
    lean_modules=["GtModel.Props.C02", "GtModel.Props.C02x"],
    theorems=[
        "GtModel.C02.zero_cost_iff_eq",
        "GtModel.C02.eq_zero_cost",
        "GtModel.C02.build_WF",
        "GtModel.C02.eq_iff_dataEq",
        "GtModel.C02.zero_cost_iff_dataEq",
        "GtModel.C02.pos_atom_of_pos_cost",
        "GtModel.C02.positive_edit_exists",
        "GtModel.C02.exit_status_iff",
        "GtModel.lev_eq_zero_iff",
        "GtModel.strEdits_cost_zero_iff",
        # XML / HTML elements (model GtModel.Xml.xmlEdits, stream scriptxml)
        "GtModel.C02.xml_zero_cost_iff_eq",
        "GtModel.C02.xml_eq_zero_cost",
        "GtModel.C02.xml_eq_symm",
        "GtModel.C02.xml_build_WF",
        "GtModel.C02.xml_eq_iff_dataEq",
        "GtModel.C02.xml_zero_cost_iff_dataEq",
        "GtModel.C02.xml_pos_atom_of_pos_cost",
        "GtModel.C02.xml_positive_edit_exists",
        "GtModel.C02.xml_exit_status_iff",
        "GtModel.C02.xml_tail_ignored",
        "GtModel.C02.xml_text_whitespace_charged",
    ],
    streams=["script", "scriptx", "scriptxml", "cli", "matrix", "script_O", "numeq"],
    assumptions=[
        "objects of the compared documents have distinct keys (Doc.distinctKeys; what json/yaml parsers deliver); "
        "without it graphtage's DictNode equality is multiset equality of pairs and the statement is not claimed",
        "float leaves are opaque tokens compared by their str(); numerically equal int/float pairs are outside the model's domain",
        "the script is the fully refined one (all bounds tightened), as dumped by the script stream",
        "XML / HTML (xml_* theorems): every element has pairwise distinct attribute names (XDoc.wf; a duplicated "
        "attribute is a well-formedness error for every XML parser); equality is graphtage's: text modulo "
        "surrounding white space with absent = empty, and the text FOLLOWING a child element (ElementTree tail) is not "
        "part of the tree at all — defect D23, Lean witness xml_tail_ignored; xml_zero_cost_iff_dataEq is the "
        "strongest true statement (equality as data ignoring tails)",
    ],
    trusted=[
        "script stream: model output (script, eq, sizes) == real graphtage on every generated case",
        "scriptxml stream: GtModel.Xml.xmlEdits output (script, eq, sizes) == real graphtage on XML / HTML elements; "
        "the white-space table of str.strip() is compared exhaustively over all code points (thorough tier)",
        "the assignment solver's answers enter as an oracle; theorems hold for every oracle",
    ],
    partial="XML/HTML: cost 0 <=> equal holds only for the data build_tree keeps; tail text is dropped (D23, known finding)",
)

"""C03: the reported cost equals the sum of its parts, in every view."""
from . import register

register(
    "C03",
    lean_modules=["GtModel.Props.C03"],
    theorems=[
        "GtModel.C03.reported_eq_sum",
        "GtModel.C03.reported_eq_sum_root",
        "GtModel.C03.three_views_agree",
        "GtModel.C03.three_views_agree_docs",
    ],
    streams=["script", "scriptx"],
    assumptions=[
        "the engine has fully tightened every bound (the model is the static final script; stream `script` dumps "
        "the script after `tighten_bounds()` is exhausted)",
    ],
    trusted=[
        "correspondence stream `script`: GtModel.edits reproduces the real engine's final script and costs",
        "GtModel.EditMatrix.solve_total_eq_sum / solve_endPos (proved in Proofs/EditMatrix.lean)",
    ],
    partial="",
)

"""C03: the reported cost equals the sum of its parts, in every view."""
from . import register

register(
    "C03",
    lean_modules=["GtModel.Props.C03", "GtModel.Props.C03x", "GtModel.Props.C03m", "GtModel.Props.C03l"],
    theorems=[
        "GtModel.C03.reported_eq_sum",
        "GtModel.C03.reported_eq_sum_root",
        "GtModel.C03.three_views_agree",
        "GtModel.C03.three_views_agree_docs",
        # the ENGINE's reported cost (operational model L3): after any run + tightening, the dump satisfies reported = sum
        # at every level (from C05.history_independent_docs; hypotheses OrcFull, distinct keys, fkOK without key edits)
        "GtModel.C03.engine_reported_eq_sum_docs",
        # XML / HTML elements (model GtModel.Xml.xmlEdits, stream scriptxml)
        "GtModel.C03.xml_reported_eq_sum",
        "GtModel.C03.xml_reported_eq_sum_root",
        "GtModel.C03.xml_reported_eq_sum_docs",
        "GtModel.C03.xml_three_views_agree",
        # general multisets with duplicates (model GtModel.MSet.msGeneral, stream scriptmset); D21 characterised
        "GtModel.C03.mset_reported_eq_sum_iff",
        "GtModel.C03.mset_reported_eq_sum_partial",
        "GtModel.C03.mset_d21_witness",
    ],
    streams=["script", "scriptx", "scriptxml", "scriptmset", "script_O", "numeq", "dataclass"],
    assumptions=[
        "reported_eq_sum / three_views_agree are theorems about the L2 script and have no hypothesis; the link to the cost "
        "the ENGINE reports (bounds() after tightening) is engine_reported_eq_sum_docs = C05.history_independent_docs + "
        "reported_eq_sum and assumes: OrcFull (every recorded answer of the assignment solver has full size "
        "min(#from, #to); a shorter answer makes the machine stop with Err.oracle while L2's script still sums up), "
        "distinct keys, without key edits the to-document in fkOK (D24), one solver oracle for all histories",
        "the engine has fully tightened every bound (the model is the static final script; stream `script` dumps "
        "the script after `tighten_bounds()` is exhausted)",
    ],
    trusted=[
        "correspondence stream `script`: GtModel.edits reproduces the real engine's final script and costs",
        "correspondence stream `scriptmset`: GtModel.MSet.msGeneral reproduces script and reported cost of MultiSetEdit "
        "on multisets with duplicate elements, D21 cases included",
        "correspondence stream `scriptxml`: GtModel.Xml.xmlEdits reproduces the real engine's final script and costs "
        "for XML / HTML elements (same builder and node classes for both file types)",
        "GtModel.EditMatrix.solve_total_eq_sum / solve_endPos (proved in Proofs/EditMatrix.lean)",
    ],
    partial="for kvp / fixed / ms / fk nodes of the L2 script (and XMLElementEdit / fixed child lists of the XML script) the "
            "cost is a sum BY DEFINITION (mkCompound / xCompound): the non-definitional content is EditDistance / StringEdit "
            "(solve_total_eq_sum) and, for JSON-family documents, engine_reported_eq_sum_docs on the operational model (under "
            "OrcFull); there is no operational model of XMLElementEdit.bounds() — XML is tied to the sum by the scriptxml "
            "monitor only.  three_views_agree compares two traversals of one script value (editedCost s = s.cost by "
            "definition); the three real views are compared by the monitors.  "
            "MultiSetNode with duplicate elements (library API only): reported = sum is FALSE (D21, Lean witness mset_d21_witness); "
            "proved: the exact characterisation (mset_reported_eq_sum_iff) and the not-cached case; the case 'no two unmatched "
            "from-elements equal' needs a sandwich lemma that is not formalised",
)

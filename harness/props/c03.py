"""C03: the reported cost equals the sum of its parts, in every view."""
from . import register

register(
    "C03",
    lean_modules=["GtModel.Props.C03", "GtModel.Props.C03x", "GtModel.Props.C03m"],
    theorems=[
        "GtModel.C03.reported_eq_sum",
        "GtModel.C03.reported_eq_sum_root",
        "GtModel.C03.three_views_agree",
        "GtModel.C03.three_views_agree_docs",
        # XML / HTML elements (model GtModel.Xml.xmlEdits, stream scriptxml)
        "GtModel.C03.xml_reported_eq_sum",
        "GtModel.C03.xml_reported_eq_sum_root",
        "GtModel.C03.xml_reported_eq_sum_docs",
        "GtModel.C03.xml_three_views_agree",
        # general multisets with duplicates (model GtModel.MSet.msGeneral, stream scriptmset); D21 characterised
        "GtModel.C03.mset_reported_eq_sum_iff",
        "GtModel.C03.mset_reported_eq_sum_partial",
        "GtModel.C03.mset_d21_witness",
    ],
    streams=["script", "scriptx", "scriptxml", "scriptmset", "script_O", "numeq"],
    assumptions=[
        "the engine has fully tightened every bound (the model is the static final script; stream `script` dumps "
        "the script after `tighten_bounds()` is exhausted)",
    ],
    trusted=[
        "correspondence stream `script`: GtModel.edits reproduces the real engine's final script and costs",
        "correspondence stream `scriptmset`: GtModel.MSet.msGeneral reproduces script and reported cost of MultiSetEdit "
        "on multisets with duplicate elements, D21 cases included",
        "correspondence stream `scriptxml`: GtModel.Xml.xmlEdits reproduces the real engine's final script and costs "
        "for XML / HTML elements (same builder and node classes for both file types)",
        "GtModel.EditMatrix.solve_total_eq_sum / solve_endPos (proved in Proofs/EditMatrix.lean)",
    ],
    partial="MultiSetNode with duplicate elements (library API only): reported = sum is FALSE (D21, Lean witness mset_d21_witness); "
            "proved: the exact characterisation (mset_reported_eq_sum_iff) and the not-cached case; the case 'no two unmatched "
            "from-elements equal' needs a sandwich lemma that is not formalised",
)

from . import register

register("C04",
         lean_modules=["GtModel.Model.Lazy", "GtModel.Props.C04"],
         theorems=["GtModel.C04.kvp_protocol", "GtModel.C04.fixedLen_protocol",
                   "GtModel.C04.repeat_until_tightened_terminates", "GtModel.C04.editCollection_protocol",
                   "GtModel.C04.engine_protocol_partial",
                   "GtModel.C04.engine_protocol_structural", "GtModel.C04.bounds_sound", "GtModel.C04.observed_step",
                   "GtModel.C04.converges", "GtModel.C04.editDistance_fringe_lb_monotone",
                   "GtModel.C04.editDistance_fringe_lb_sound", "GtModel.C04.editDistance_final_le_total"],
         streams=["trace"],
         assumptions=["AtomHyp: EditDistance / MultiSetEdit+matcher machines obey "
                      "the protocol whenever their children do (hypothesis of engine_protocol_partial; validated by the "
                      "passive monitor of the trace stream on every bounded object of every run)",
                      "make_distinct step counts and assignment-solver answers are oracles recorded from the run"],
         trusted=["harness/lazyinst.py (passive recorder and per-object protocol checker)"],
         partial="engine_protocol proved for const/kvp/str/fixed/coll(EditCollection) machines over atoms that obey the "
                 "protocol, unconditionally when there are no atoms; editDistance_protocol and matcher/multiset_protocol "
                 "are hypotheses (AtomHyp); the static facts behind EditDistance's interval are proved; "
                 "'progress => strictly shrunk' holds for an observer that read bounds() before the step")

from . import register

register("C04", lean_modules=[], theorems=[], streams=["trace"],
         partial="model and theorems under construction")

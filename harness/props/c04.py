from . import register

register("C04",
         lean_modules=["GtModel.Model.Lazy", "GtModel.Props.C04"],
         theorems=["GtModel.C04.kvp_protocol", "GtModel.C04.fixedLen_protocol",
                   "GtModel.C04.repeat_until_tightened_terminates", "GtModel.C04.editCollection_protocol",
                   "GtModel.C04.engine_protocol_partial",
                   "GtModel.C04.engine_protocol_no_multiset", "GtModel.C04.editDistance_protocol",
                   "GtModel.C04.editDistance_final_is_greedy", "GtModel.C04.mkEdit_invariant",
                   "GtModel.C04.mkEdit_initial_bounds", "GtModel.C04.engine_protocol", "GtModel.C04.bounds_sound", "GtModel.C04.observed_step",
                   "GtModel.C04.converges", "GtModel.C04.editDistance_fringe_lb_monotone",
                   "GtModel.C04.editDistance_fringe_lb_sound", "GtModel.C04.editDistance_final_le_total"],
         streams=["trace"],
         assumptions=["AtomHyp: MultiSetEdit+matcher machines obey "
                      "the protocol whenever their children do (hypothesis of engine_protocol_partial; validated by the "
                      "passive monitor of the trace stream on every bounded object of every run)",
                      "make_distinct step counts and assignment-solver answers are oracles recorded from the run"],
         trusted=["harness/lazyinst.py (passive recorder and per-object protocol checker)"],
         partial="engine_protocol proved with NO hypothesis on the machine for from.edits(to) without MultiSetEdit "
                 "(no DictNode on the from side, distinct keys, to-side in the domain fkOK of the static "
                 "FixedKeyDictNodeEdit bound; outside fkOK the property is false: finding D24 / coll-ub); "
                 "engine_protocol_no_multiset: every machine of that fragment satisfying the structural invariant; "
                 "over MultiSetEdit atoms it is conditional on matcher/multiset_protocol (AtomHyp); "
                 "'progress => strictly shrunk' holds for an observer that read bounds() before the step")

from . import register

register("C04",
         lean_modules=["GtModel.Model.Lazy", "GtModel.Props.C04"],
         theorems=["GtModel.C04.kvp_protocol", "GtModel.C04.fixedLen_protocol",
                   "GtModel.C04.repeat_until_tightened_terminates", "GtModel.C04.editCollection_protocol",
                   "GtModel.C04.editDistance_protocol", "GtModel.C04.editDistance_final_is_greedy",
                   "GtModel.C04.matcher_protocol", "GtModel.C04.multiset_protocol",
                   "GtModel.C04.engine_protocol_every_machine", "GtModel.C04.mkEdit_invariant",
                   "GtModel.C04.mkEdit_initial_bounds", "GtModel.C04.engine_protocol",
                   "GtModel.C04.mkEdit_invariant_dict", "GtModel.C04.engine_protocol_docs",
                   "GtModel.C04.bounds_sound", "GtModel.C04.observed_step", "GtModel.C04.converges",
                   "GtModel.C04.editDistance_fringe_lb_monotone", "GtModel.C04.editDistance_fringe_lb_sound",
                   "GtModel.C04.editDistance_final_le_total"],
         streams=["trace", "bounded", "scriptxml", "scriptx"],
         assumptions=["make_distinct step counts and assignment-solver answers are oracles recorded from the run; the "
                      "theorems hold for EVERY make_distinct oracle and every ADMISSIBLE solver answer (AssignOK: in "
                      "range, ordered by from index, injective, of size min(nf, nt))",
                      "OrcFull: every recorded solver answer pairs min(nf, nt) nodes (hypothesis of the document-level "
                      "theorems with key edits)"],
         trusted=["harness/lazyinst.py (passive recorder and per-object protocol checker)"],
         partial="engine_protocol_every_machine: proved with no hypothesis for EVERY machine class (const, kvp, str, "
                 "fixed, EditCollection, EditDistance, MultiSetEdit+matcher) satisfying the structural invariant; "
                 "engine_protocol: the machine of from.edits(to) satisfies it when there is no DictNode on the from "
                 "side (distinct keys, to-side in the domain fkOK of the static FixedKeyDictNodeEdit bound; outside "
                 "fkOK the property is FALSE: finding D24 / coll-ub); engine_protocol_docs: FULL statement for every "
                 "pair of documents and every option set (with key edits: every full-size solver oracle; without: "
                 "distinct keys and fkOK); "
                 "'progress => strictly shrunk' holds for an observer that read bounds() before the step")

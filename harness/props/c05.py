from . import register

register("C05", lean_modules=[], theorems=[], streams=["history"],
         partial="model and theorems under construction")

from . import register

register("C05",
         lean_modules=["GtModel.Model.Lazy", "GtModel.Props.C05"],
         theorems=["GtModel.C05.no_internal_error_every_machine", "GtModel.C05.observations_nested_every_machine",
                   "GtModel.C05.history_independent_every_machine", "GtModel.C05.editDistance_freed_cached",
                   "GtModel.C05.editDistance_fresh_J", "GtModel.C05.no_internal_error",
                   "GtModel.C05.observations_nested", "GtModel.C05.history_independent",
                   "GtModel.C05.mkEdit_refines_L2", "GtModel.C05.history_independent_L2",
                   "GtModel.C05.observations_contain_L2_cost", "GtModel.C05.no_internal_error_docs",
                   "GtModel.C05.history_independent_docs"],
         streams=["history", "script", "render", "cli"],
         assumptions=["oracles as in C04 (every make_distinct oracle, admissible solver answers)",
                      "ONE FIXED SOLVER ANSWER FOR ALL HISTORIES: history_independent_docs / history_independent(_L2) use the same "
                      "orc.assign in `run q1 ... ops`, `finish q1` and `finish q2`.  In the code scipy is handed the edges' "
                      "bounds().upper_bound at the moment the matching is forced, i.e. the solver's answer is a function of the "
                      "edge bounds at solve time, which a different history or quiet setting could in principle change; the model "
                      "takes the answer from the recorded run and the theorems do NOT exclude 'history A leads the solver to "
                      "matching X, history B to a different full-size matching Y of different cost'.  Checked per run only: "
                      "the history stream records the solver calls of the quiet and the non-quiet run and the monitor compares "
                      "final cost and script of both",
                      "the L3->L2 link scriptG(mkEdit ...) = toD(edits ...) is PROVED for every pair of trees "
                      "(mkEdit_refines_L2)"],
         trusted=["harness/lazyinst.py"],
         partial="*_every_machine: no_internal_error / observations_nested / history_independent proved with no "
                 "hypothesis (both values of quiet) for EVERY machine class incl. MultiSetEdit+matcher satisfying the "
                 "structural invariant; no_internal_error / history_independent(_L2): for the machine of "
                 "from.edits(to) when there is no DictNode on the from side (distinct keys, to-side in fkOK; outside "
                 "it: finding D24 / coll-ub), where finishing after any history yields L2's script itself; "
                 "no_internal_error_docs / history_independent_docs: FULL statements for every pair of documents and "
                 "every option set (with key edits: every full-size solver oracle and every make_distinct oracle); "
                 "the result of finishing after any history is L2's diffDocs script itself")

from . import register

register("C05",
         lean_modules=["GtModel.Model.Lazy", "GtModel.Props.C05"],
         theorems=["GtModel.C05.no_internal_error_partial", "GtModel.C05.observations_nested_partial",
                   "GtModel.C05.history_independent_partial", "GtModel.C05.no_internal_error_no_multiset", "GtModel.C05.observations_nested_no_multiset",
                   "GtModel.C05.history_independent_no_multiset", "GtModel.C05.editDistance_freed_cached",
                   "GtModel.C05.editDistance_fresh_J", "GtModel.C05.no_internal_error",
                   "GtModel.C05.observations_nested", "GtModel.C05.history_independent",
                   "GtModel.C05.mkEdit_refines_L2", "GtModel.C05.history_independent_L2",
                   "GtModel.C05.observations_contain_L2_cost"],
         streams=["history", "script"],
         assumptions=["AtomHyp / EditsHyp for the atom class MultiSetEdit (see C04)",
                      "the L3->L2 link scriptG(mkEdit ...) = edits ... is PROVED for the fragment without MultiSetEdit "
                      "(mkEdit_refines_L2); with MultiSetEdit it is validated by the streams only"],
         trusted=["harness/lazyinst.py"],
         partial="no_internal_error / observations_nested / history_independent proved with NO hypothesis on the machine "
                 "(both values of quiet) for from.edits(to) without MultiSetEdit (no DictNode on the from side, distinct "
                 "keys, to-side in the domain fkOK; outside it: finding D24 / coll-ub); "
                 "over MultiSetEdit atoms conditional on AtomHyp/EditsHyp")

from . import register

register("C05",
         lean_modules=["GtModel.Model.Lazy", "GtModel.Props.C05"],
         theorems=["GtModel.C05.no_internal_error_partial", "GtModel.C05.observations_nested_partial",
                   "GtModel.C05.history_independent_partial", "GtModel.C05.no_internal_error_structural",
                   "GtModel.C05.history_independent_structural", "GtModel.C05.editDistance_freed_cached",
                   "GtModel.C05.editDistance_fresh_J"],
         streams=["history", "script"],
         assumptions=["AtomHyp / EditsHyp for the atom classes (see C04)",
                      "the L3->L2 link scriptG(mkEdit ...) = edits ... is validated by the streams, not proved"],
         trusted=["harness/lazyinst.py"],
         partial="no_internal_error / history_independent proved for const/kvp/str/fixed/coll machines over atoms "
                 "obeying the protocol, for both values of quiet; unconditional for machines without atoms (fixed-key "
                 "dicts, kvps, positional lists); EditDistance's freed=>cached invariant proved for arbitrary cells")

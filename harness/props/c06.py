"""C06: both documents can be read back from the rendered diff."""
from . import register

register(
    "C06",
    lean_modules=["GtModel.Model.Render", "GtModel.Props.C06"],
    theorems=[
        "GtModel.C06.project_from_wf",
        "GtModel.C06.project_to_wf",
        "GtModel.C06.projection_is_value",
        "GtModel.C06.project_from_partial",
        "GtModel.C06.project_to_partial",
        "GtModel.C06.project_from_checked",
        "GtModel.C06.project_to_checked",
        "GtModel.Render.wfB_sound",
        "GtModel.C06.printJson_toks",
        "GtModel.C06.no_marks_of_zero_cost_leaf",
        "GtModel.C06.marks_of_change",
        "GtModel.C06.marks_iff_partial",
        "GtModel.Render.render_spec",
        "GtModel.Render.main",
        "GtModel.Render.seq_lemma",
        "GtModel.Render.step_facts",
        "GtModel.Render.proj_strOut",
        "GtModel.Render.tokens_quote",
        "GtModel.Render.closedT_jsonText",
    ],
    streams=["render"],
    assumptions=[
        "ScriptWellFormed f t (edits o orc [] [] f t): the engine's script is a well-formed edit in the sense of "
        "Render.WF (every sub-edit names existing children, the sub-edits of a list keep every element of either list "
        "in order, those of a mapping keep every pair of either mapping, a zero-cost Match relates node-equal nodes, "
        "the key edit of a pair costs 0 only for equal keys); the index part is C01 script_accounts, the equality part "
        "C02 zero_cost_iff_eq; not yet derived in the form WF uses",
        "float leaves carry Python's repr as an opaque token that consists of literal characters (litOK); "
        "non-finite floats are not JSON",
        "marks_iff_partial: C02 zero_cost_iff_eq and 'an edit of positive cost renders a marked character' are hypotheses",
    ],
    trusted=[
        "render stream: model output (characters, marks, script) == real JSONFormatter output after mark recovery and "
        "whitespace canonicalisation on every generated case",
        "mark recovery from the ANSI/combining-mark output (harness/streams/render.py: recover, drop_ws)",
        "the assignment solver's answers enter as an oracle; theorems hold for every oracle",
    ],
    partial="(1),(2) are proved for every well-formed script; that the engine's script is well formed is a hypothesis "
            "(script_wellformed). (3) is proved from two named L2 hypotheses. The monitor checks the full statement "
            "on the real output of every case.",
)

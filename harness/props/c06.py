"""C06: both documents can be read back from the rendered diff."""
from . import register

register(
    "C06",
    lean_modules=["GtModel.Model.Render", "GtModel.Props.C06"],
    theorems=[
        # the property
        "GtModel.C06.project_from",
        "GtModel.C06.project_to",
        "GtModel.C06.marks_iff",
        "GtModel.C06.project_from_docs",
        "GtModel.C06.project_to_docs",
        "GtModel.C06.marks_iff_docs",
        "GtModel.C06.project_from_tokens",
        "GtModel.C06.project_to_tokens",
        # what the relation ValPerm can and cannot identify
        "GtModel.Render.ValPerm.toks_perm",
        "GtModel.Render.ValPerm.atom_eq",
        # key lemmas
        "GtModel.C06.script_wellformed",
        "GtModel.C06.project_from_wf",
        "GtModel.C06.project_to_wf",
        "GtModel.Render.eq_valPerm",
        "GtModel.Render.seq_lemma",
    ],
    streams=["render", "render_O"],
    assumptions=[
        "objects of the compared documents have distinct keys (Doc.distinctKeys / Tree.KeysDistinct; what json parsers "
        "deliver)",
        "float leaves carry Python's repr as an opaque, non-empty token that consists of literal characters "
        "(litOK / Doc.floatsOK; evaluated by the driver on every stream case); non-finite floats are not JSON",
        "the statement is about the colour (ANSI-mark) rendering and uses a JSON tokenizer, not a full parser: the "
        "projections have the token tree of the documents up to ValPerm = the order of the members of objects (pairs "
        "are printed in edit order); lists are element-wise, atoms identical",
    ],
    trusted=[
        "render stream: model output (characters, marks, script, executable script check) == real JSONFormatter output "
        "after mark recovery and whitespace canonicalisation on every generated case",
        "mark recovery from the ANSI/combining-mark output (harness/streams/render.py: recover, drop_ws)",
        "the assignment solver's answers enter as an oracle; theorems hold for every oracle",
        "L2 proofs C01 (index accounting), C02 (zero_cost_iff_eq, eq_iff_dataEq), C03 (reported_eq_sum)",
    ],
    partial="the theorems are about the colour (ANSI-mark) rendering; the plain-text rendering (~~removed~~, ++inserted++, old -> new: the default "
            "when the output is not a terminal) has no model and no theorem: it is decided on the real code only, by the plain-text pass of the "
            "render stream (parse_plain reads both documents back from the in-band text), and only for documents none of whose strings and keys "
            "contains `~` or `+` (outside that domain the in-band format is inherently ambiguous and nothing is claimed)",
)

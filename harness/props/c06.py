"""C06: both documents can be read back from the rendered diff."""
from . import register

register(
    "C06",
    lean_modules=["GtModel.Model.Render", "GtModel.Props.C06"],
    theorems=[
        "GtModel.C06.project_from",
        "GtModel.C06.project_to",
        "GtModel.C06.marks_iff",
        "GtModel.C06.project_from_docs",
        "GtModel.C06.project_to_docs",
        "GtModel.C06.marks_iff_docs",
        "GtModel.C06.script_wellformed",
        "GtModel.C06.project_from_wf",
        "GtModel.C06.project_to_wf",
        "GtModel.C06.projection_is_value",
        "GtModel.C06.project_from_checked",
        "GtModel.C06.project_to_checked",
        "GtModel.C06.printJson_toks",
        "GtModel.C06.no_marks_of_zero_cost_leaf",
        "GtModel.C06.marks_of_change",
        "GtModel.Render.wfB_sound",
        "GtModel.Render.wf_edits",
        "GtModel.Render.positive_cost_shows",
        "GtModel.Render.zero_cost_is_match",
        "GtModel.Render.render_spec",
        "GtModel.Render.main",
        "GtModel.Render.seq_lemma",
        "GtModel.Render.step_facts",
        "GtModel.Render.proj_strOut",
        "GtModel.Render.tokens_quote",
        "GtModel.Render.closedT_jsonText",
        "GtModel.build_litOK",
    ],
    streams=["render"],
    assumptions=[
        "objects of the compared documents have distinct keys (Doc.distinctKeys / Tree.KeysDistinct; what json parsers "
        "deliver); the _checked variants need no such hypothesis but the executable script check instead",
        "float leaves carry Python's repr as an opaque, non-empty token that consists of literal characters "
        "(litOK / Doc.floatsOK; evaluated by the driver on every stream case); non-finite floats are not JSON",
        "the projections equal the documents up to ValSim: order of the members of objects (pairs are printed in edit "
        "order) and node-equal subtrees; lists are exact",
    ],
    trusted=[
        "render stream: model output (characters, marks, script, script check) == real JSONFormatter output after mark "
        "recovery and whitespace canonicalisation on every generated case",
        "mark recovery from the ANSI/combining-mark output (harness/streams/render.py: recover, drop_ws)",
        "the assignment solver's answers enter as an oracle; theorems hold for every oracle",
        "L2 proofs C01 (index accounting), C02 (zero_cost_iff_eq, eq_iff_dataEq), C03 (reported_eq_sum)",
    ],
    partial="",
)

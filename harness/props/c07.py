from . import register
from .. import common as C
from .. import gentables


def extra(prop, tier):
    """Run the determinism cases again in fresh worker processes under other PYTHONHASHSEED values and compare
    every case's output hash and exit status with the base run (seed 0)."""
    sm = C.load_stream("determinism")
    rng = C.rng_for(prop, "determinism", 0)
    cases = list(C.corpus_cases(prop, "determinism")) + sm.gen(rng, tier)
    seeds = [1, 2, 3] if tier == "quick" else [1, 2, 3, 4, 5, 6, 7, 8]
    base = C.run_impl("determinism", cases, env_extra={"PYTHONHASHSEED": "0"})
    hits = []
    evaluations = 0
    for sd in seeds:
        obs = C.run_impl("determinism", cases, env_extra={"PYTHONHASHSEED": str(sd)})
        evaluations += len(obs)
        for c, b, o in zip(cases, base, obs):
            if not (isinstance(b, dict) and isinstance(o, dict)) or b.get("error") or o.get("error"):
                continue
            if (b["rc"], b["sha"], b["exc"]) != (o["rc"], o["sha"], o["exc"]):
                hits.append({"stream": "determinism", "case": c, "obs": {"seed0": b, "seed%d" % sd: o},
                             "key": "hashseed-differs" + sm.key_suffix(c, b), "what": f"output differs between PYTHONHASHSEED=0 and {sd}: rc {b['rc']} vs {o['rc']}, {b['len']} vs {o['len']} chars"})
    # hidden state across invocations: the same cases in REVERSED order (different predecessors in each worker
    # process) must give the same per-case output as in the base run
    rev = list(reversed(cases))
    obs = list(reversed(C.run_impl("determinism", rev, env_extra={"PYTHONHASHSEED": "0"})))
    evaluations += len(obs)
    for c, b, o in zip(cases, base, obs):
        if not (isinstance(b, dict) and isinstance(o, dict)) or b.get("error") or o.get("error"):
            continue
        if (b["rc"], b["sha"], b["exc"]) != (o["rc"], o["sha"], o["exc"]):
            hits.append({"stream": "determinism", "case": c, "obs": {"in_order": b, "reversed_order": o},
                         "key": "order-of-invocations-differs" + sm.key_suffix(c, b), "what": "the output for this pair depends on which comparisons ran earlier in the same process"})
    return {"hits": hits, "evaluations": evaluations, "distinct": [],
            "info": {"hash_seeds": [0] + seeds, "cases_per_seed": len(cases)},
            "samples": [{"stream": "determinism", "case": cases[0], "obs": base[0]}] if cases else []}


register("C07", lean_modules=["GtModel.Props.C07"], gen=gentables.gen_c07_tables,
         theorems=["GtModel.C07.set_sites_reviewed", "GtModel.C07.nondet_sites_reviewed"], streams=["determinism"], extra=extra,
         partial="the two (table) theorems are a TRIPWIRE for the syntactic forms listed in front of _set_sites / _nondet_sites in harness/gentables.py "
                 "(set-typed names, parameters, attributes, helper results, module constants iterated / popped / sorted with a key; imports of and calls through "
                 "time, datetime, random, secrets, uuid, threading, tempfile, os.<x> ... under any alias; id(); hash()/id/repr in sort keys and ordering comparisons; "
                 "global statements; module-level containers mutated in functions; lru_cache) - not every hash-order / clock / hidden-state dependence; "
                 "everything else (other forms, allocation-order effects, repeated invocation, non-mutation of inputs) is checked on the real code by the determinism "
                 "stream across hash seeds, on every input type, output format and mode, for the documents of the stream only",
         assumptions=["at most one combining mark (strike / under_plus) is active at a time while an edit is printed"],
         trusted=["ast walk of /repo/graphtage in harness/gentables.py (finds the LISTED syntactic forms only: see the comments in front of _set_sites and _nondet_sites)"])

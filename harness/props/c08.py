"""C08: mappings are unordered, lists are ordered."""
from . import register

register(
    "C08",
    lean_modules=["GtModel.Props.C08"],
    theorems=[
        "GtModel.C08.build_perm_dict",
        "GtModel.C08.dict_perm_script",
        "GtModel.C08.perm_equal",
        "GtModel.C08.perm_cost_zero",
        "GtModel.C08.list_swap_positive",
        "GtModel.C08.fdict_perm_cost",
        "GtModel.C08.fdict_perm_pairing",
        "GtModel.sortKV_perm_eq",
        "GtModel.strLt_trans",
        "GtModel.strLt_total",
        "GtModel.strLt_irrefl",
    ],
    streams=["script", "mixedkeys"],
    assumptions=[
        "objects have distinct keys (Doc.distinctKeys / Tree.WF) where stated",
        "sorted(kvps) in DictNode.from_dict is modelled by an insertion sort on the keys (for distinct keys every correct sort agrees)",
    ],
    trusted=[
        "script stream: model output == real graphtage on every generated case (incl. key-permuted pairs)",
    ],
    partial="",
)

"""C08: mappings are unordered, lists are ordered."""
from . import register

register(
    "C08",
    lean_modules=["GtModel.Props.C08"],
    theorems=[
        "GtModel.C08.build_perm_dict",
        "GtModel.C08.dict_perm_script",
        "GtModel.C08.perm_equal",
        "GtModel.C08.perm_cost_zero",
        "GtModel.C08.list_swap_positive",
        "GtModel.C08.fdict_perm_cost",
        "GtModel.C08.fdict_perm_pairing",
        # pairing by key at EVERY nesting level (Walk over the whole script) and for any two FixedKeyDictNodes
        "GtModel.C08.fdict_perm_pairing_any_node",
        "GtModel.C08.fdict_pairing_every_level",
        "GtModel.C08.fdict_pairing_every_level_docs",
        "GtModel.C08.pairing_spec_order_independent",
        "GtModel.sortKV_perm_eq",
        "GtModel.strLt_trans",
        "GtModel.strLt_total",
        "GtModel.strLt_irrefl",
    ],
    streams=["script", "mixedkeys"],
    assumptions=[
        "objects have distinct keys (Doc.distinctKeys / Tree.WF) where stated",
        "sorted(kvps) in DictNode.from_dict is modelled by an insertion sort on the keys (for distinct keys every correct sort agrees)",
    ],
    trusted=[
        "script stream: model output == real graphtage on every generated case (incl. key-permuted pairs)",
    ],
    partial="mapping keys are STRINGS in the Lean model (JSON objects): mappings with non-string keys (YAML / Python-object "
            "entry points: 10 next to '10', True, 1.5, None) are covered by the monitor-only stream `mixedkeys`, no theorem; "
            "pairing under strategy `none` is proved at every nesting level (fdict_pairing_every_level) for trees with "
            "distinct keys and no DictNode, i.e. what build makes with allow_key_edits=False; under the default strategy "
            "key order cannot matter because build sorts the pairs (build_perm_dict / dict_perm_script)",
)

"""C10: matching options restrict the script as documented."""
from . import register

register(
    "C10",
    lean_modules=["GtModel.Props.C10"],
    theorems=[
        "GtModel.C10.none_no_cross_key",
        "GtModel.C10.none_no_multiset",
        "GtModel.C10.auto_same_key_paired",
        "GtModel.C10.no_list_edits_positional",
        "GtModel.C10.no_list_edits_same_length_positional",
        "GtModel.C10.no_list_edits_root",
    ],
    streams=["script", "scriptx"],
    assumptions=[
        "the engine has fully tightened every bound (the model is the static final script)",
        "trees are those json.build_tree makes; the list options do not reach CSV rows / XML child lists "
        "(constructed without options) which are outside the model",
    ],
    trusted=[
        "correspondence stream `script`: GtModel.edits / GtModel.build reproduce the real engine's final script "
        "under all 16 option combinations",
    ],
    partial="",
)

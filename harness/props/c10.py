"""C10: matching options restrict the script as documented."""
from . import register

register(
    "C10",
    lean_modules=["GtModel.Props.C10", "GtModel.Props.C10x"],
    theorems=[
        "GtModel.C10.none_no_cross_key",
        "GtModel.C10.none_no_multiset",
        "GtModel.C10.auto_same_key_paired",
        "GtModel.C10.no_list_edits_positional",
        "GtModel.C10.no_list_edits_same_length_positional",
        "GtModel.C10.no_list_edits_root",
        # children of XML / HTML elements (model GtModel.Xml.xmlEdits / kidsScript, stream scriptxml)
        "GtModel.C10.xml_no_list_edits_positional",
        "GtModel.C10.xml_no_list_edits_same_length_positional",
        "GtModel.C10.xml_no_list_edits_positional_docs",
        "GtModel.C10.xml_no_list_edits_same_length_positional_docs",
        "GtModel.C10.xml_no_list_edits_children",
        "GtModel.C10.xml_no_list_edits_same_length_children",
        "GtModel.C10.xml_list_edits_allowed",
    ],
    streams=["script", "scriptx", "scriptxml", "optplumb"],
    assumptions=[
        "the engine has fully tightened every bound (the model is the static final script)",
        "trees are those json.build_tree makes (a CSV table = the list of lists of strings csv.build_tree makes, rows "
        "and cells carrying the list options) and the XML / HTML elements xml.build_tree makes (xml_* theorems); both "
        "trees of a comparison are built with the same options (ListNode.edits reads the flags of the from-list)",
    ],
    trusted=[
        "correspondence stream `script`: GtModel.edits / GtModel.build reproduce the real engine's final script "
        "under all 16 option combinations, incl. CSV tables loaded by the real CSV loader under default / -l / -ll",
        "correspondence stream `scriptxml`: GtModel.Xml.xmlEdits reproduces the real engine's final script for XML / "
        "HTML elements under eight option sets (all combinations of the two list options), built directly and through "
        "the registered XML and HTML file types",
    ],
    partial="",
)

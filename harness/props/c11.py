"""C11 "String changes are minimal": greedy Levenshtein matrix of EditDistance (GtModel.EditMatrix) + string script."""
from . import register

register(
    "C11",
    lean_modules=["GtModel.Model.EditMatrix", "GtModel.Proofs.EditMatrix", "GtModel.Proofs.EditMatrixLcs",
                  "GtModel.Props.C11"],
    theorems=[
        # the property
        "GtModel.C11.string_edit_minimal",
        "GtModel.C11.kept_longest",
        "GtModel.C11.removed_plus_inserted_eq",
        "GtModel.C11.removed_plus_inserted_minimal",
        "GtModel.C11.strScript_reconstructs",
        "GtModel.C11.strScript_no_subst",
        "GtModel.C11.strCost_eq",
        # corollaries: direction / reversal independence, nothing marked <=> equal strings
        "GtModel.C11.lcs_comm",
        "GtModel.C11.removed_plus_inserted_symm",
        "GtModel.C11.removed_plus_inserted_reverse",
        "GtModel.C11.no_marks_iff_eq",
        "GtModel.C11.minimal_iff_kept_longest",
        # what `lcs` means
        "GtModel.EditMatrix.lcs_le",
        "GtModel.EditMatrix.lcs_attained",
        "GtModel.EditMatrix.lcs_trim",
        "GtModel.EditMatrix.solve_unit_cost",
        # general matrix lemmas (used by the tree-diff layer)
        "GtModel.EditMatrix.solve_eq_spec",
        "GtModel.EditMatrix.spec_induction",
        "GtModel.EditMatrix.solve_counts",
        "GtModel.EditMatrix.solve_endPos",
        "GtModel.EditMatrix.solve_total_eq_sum",
        "GtModel.EditMatrix.solve_total_le",
        "GtModel.EditMatrix.solve_diag_lt",
        "GtModel.EditMatrix.solve_diag_lt_located",
        "GtModel.EditMatrix.solve_zero",
        "GtModel.EditMatrix.solve_path",
    ],
    streams=["editmatrix", "strscript", "editmatrix_O", "strscript_O"],
    assumptions=[
        "strings are sequences of elements compared with ==: str and bytes; elements of size 1 (a character of a str; an "
        "element of a bytes object is an int wrapped in StringNode(int), which must count as size 1 like a character for the "
        "LCS theorems to apply: with element size 2 = len(str(97)) a substitution (cost 1) is cheaper than remove + insert "
        "and the script is not an LCS script)",
        "every matrix cell is fully tightened (definitive) before _best_match reads it, so the script depends on "
        "final costs only (asserted by levenshtein.py itself and checked by the editmatrix/strscript streams under "
        "three ways of driving the edit)",
        "costs fit numpy uint64 and path lengths uint16 (sequences shorter than 32768 elements)",
    ],
    trusted=[
        "harness/streams/editmatrix.py fake LeafNode subclass (edits() returns Match(self, other, table[r][c])) and "
        "its _cleanup observation hook used to read costs/path_costs before they are freed",
    ],
    partial="bytes strings (diffable since /repo bb73030, element-wise over StringNode(int)) are covered by the theorems only "
            "under the assumption 'elements of size 1'; that assumption itself (an element of a bytes object costs 1) has no theorem: it is "
            "checked on the real code by the bytes cases of the strscript stream (all pairs over {a,b} up to length 3, sampled "
            "beyond incl. NUL / 0xff / quote / backslash, script and coloured rendering)",
)

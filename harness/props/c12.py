from . import register

register("C12",
         lean_modules=["GtModel.Props.C12"],
         theorems=["GtModel.C12.read_print",
                   # JSON5, current loader (json5.load + JSON5._combine_surrogates): all code points
                   "GtModel.C12.read_print_json5", "GtModel.C12.json5_library_splits",
                   # HISTORICAL WITNESSES: the json5 library alone = the loader before the repair (kept; used in the proof above)
                   "GtModel.C12.read_print_json5_bmp", "GtModel.C12.json5_astral_counterexample",
                   "GtModel.C12.pair_hypothesis_needed", "GtModel.C12.csv_machine", "GtModel.C12.csv_read_print",
                   "GtModel.C12.csv_cr_counterexample"],
         streams=["roundtrip"],
         assumptions=["float(repr(x)) == x and repr(x) is a JSON number literal with a fraction or an exponent, or nan/inf (CPython); "
                      "the driver re-lexes every float token the harness ships and the stream fails if one does not fit",
                      "loaded JSON documents never hold a high surrogate directly followed by a low surrogate (json.loads combines them); "
                      "checked on every case: the model reports `valid` for each loaded document",
                      "files are read and written as UTF-8 (worker runs with PYTHONUTF8=1); the CSV/JSON loaders use the locale encoding"],
         trusted=["json.dumps / csv.writer / csv.reader / json.loads / json5 are CPython or third-party code: mirrored by the model, tied by the "
                  "roundtrip stream on the real printed text, not proved"],
         partial="YAML, plist and XML round trips are covered by the roundtrip stream only (their parsers and formatters are not modelled); "
                 "JSON5 is proved for the JSON subset the printer emits (JSON5-only source syntax is exercised by the stream); "
                 "read_print_json5 is the statement about the CURRENT JSON5 loader (all code points); read_print_json5_bmp and "
                 "json5_astral_counterexample describe the json5 library alone (the pre-fix loader) and are historical witnesses; "
                 "tree1 == tree2 beyond mapping depth 12 is not evaluated (== is exponential in mapping depth), data equality is")

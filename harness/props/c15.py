"""C15 -- minimum-weight assignment is valid and optimal (model layer L5, GtModel.Assign)."""
import json, os, subprocess

from . import register
from .. import common as C

GEN_PATH = os.path.join(C.LEAN_DIR, "GtModel", "Gen", "DtypeTable.lean")

# Runs inside /venv/bin/python with /repo on the path: dumps the table of graphtage.matching as JSON.
_EXTRACT = r"""
import json, numpy as np
import graphtage.matching as M
rows = []
for lo, hi, dt in M.INTEGER_DTYPE_INTERVALS:
    dt = np.dtype(dt)
    if dt.kind not in "iu":
        raise SystemExit("non-integer dtype in INTEGER_DTYPE_INTERVALS: %r" % (dt,))
    ii = np.iinfo(dt)
    rows.append([int(lo), int(hi), str(dt), int(ii.min), int(ii.max)])
fb = np.dtype(int)
fi = np.iinfo(fb)
print(json.dumps({"rows": rows, "fallback": [str(fb), int(fi.min), int(fi.max)]}))
"""


def _lean_int(v: int) -> str:
    return str(v) if v >= 0 else f"({v})"


def render(table) -> str:
    lines = [
        "/-",
        "  GENERATED on every `./check C15` run by harness/props/c15.py from",
        "  graphtage.matching.INTEGER_DTYPE_INTERVALS (do not edit by hand).",
        "  Row = (lo, hi, numpy dtype name, numpy's true representable range np.iinfo(dtype).min/.max).",
        "  `get_dtype` selects the first row with `lo <= min_value and hi > max_value`.",
        "-/",
        "namespace GtModel.Gen",
        "",
        "structure DtypeRow where",
        "  lo : Int",
        "  hi : Int",
        "  name : String",
        "  trueLo : Int",
        "  trueHi : Int",
        "deriving Repr, DecidableEq",
        "",
        "/-- `INTEGER_DTYPE_INTERVALS`, in source order. -/",
        "def integerDtypeIntervals : List DtypeRow := [",
    ]
    rows = table["rows"]
    for k, (lo, hi, name, tlo, thi) in enumerate(rows):
        sep = "," if k + 1 < len(rows) else ""
        lines.append(f"  ⟨{_lean_int(lo)}, {_lean_int(hi)}, {json.dumps(name)}, {_lean_int(tlo)}, {_lean_int(thi)}⟩{sep}")
    lines.append("]")
    name, tlo, thi = table["fallback"]
    lines += [
        "",
        "/-- `np.dtype(int)`, the fallback of `get_dtype` (its `lo`/`hi` fields repeat the true range). -/",
        f"def fallbackDtype : DtypeRow := ⟨{_lean_int(tlo)}, {_lean_int(thi + 1)}, {json.dumps(name)}, {_lean_int(tlo)}, {_lean_int(thi)}⟩",
        "",
        "end GtModel.Gen",
        "",
    ]
    return "\n".join(lines)


def extract():
    env = dict(os.environ)
    env["PYTHONPATH"] = C.REPO
    env["PYTHONDONTWRITEBYTECODE"] = "1"
    p = subprocess.run([C.PY, "-c", _EXTRACT], capture_output=True, text=True, env=env, cwd=C.VERIF, timeout=120)
    if p.returncode != 0:
        raise RuntimeError("cannot extract INTEGER_DTYPE_INTERVALS: " + (p.stderr or p.stdout)[-400:])
    return json.loads(p.stdout.strip().split("\n")[-1])


def gen():
    """Regenerate GtModel/Gen/DtypeTable.lean from /repo; write only when the content changed."""
    text = render(extract())
    os.makedirs(os.path.dirname(GEN_PATH), exist_ok=True)
    old = None
    if os.path.exists(GEN_PATH):
        old = open(GEN_PATH, encoding="utf-8").read()
    if old != text:
        tmp = GEN_PATH + ".tmp"
        open(tmp, "w", encoding="utf-8").write(text)
        os.replace(tmp, GEN_PATH)


register(
    "C15",
    lean_modules=["GtModel.Gen.DtypeTable", "GtModel.Model.Assign", "GtModel.Proofs.Assign", "GtModel.Props.C15"],
    theorems=[
        "GtModel.C15.get_dtype_sound",
        "GtModel.C15.get_dtype_fallback",
        "GtModel.C15.fallback_is_int64",
        "GtModel.C15.no_overflow_from_table",
        "GtModel.C15.result_is_injection",
        "GtModel.C15.only_existing_pairs",
        "GtModel.C15.reports_true_weights",
        "GtModel.C15.pairs_min_n_m",
        "GtModel.C15.total_is_minimum",
        "GtModel.C15.null_value_dominates",
        "GtModel.C15.assert_never_fires",
        "GtModel.C15.filter_removes_exactly_missing",
        "GtModel.C15.validate_sound",
        "GtModel.C15.recorded_answer_meets_contract",
        # totality: returns on the admitted domain; the three raising branches and their causes
        "GtModel.C15.prepare_ok_on_domain",
        "GtModel.C15.minWeight_ok_on_domain",
        "GtModel.C15.minWeight_valid_on_domain",
        "GtModel.C15.error_domain",
    ],
    streams=["assign"],
    gen=gen,
    assumptions=[
        "scipy.optimize.linear_sum_assignment meets the solver contract (distinct in-range rows/cols, exactly "
        "min(n,m) pairs, minimum total on the dense matrix it is shown); validated on every recorded call, "
        "optimality against a proven-complete brute force for n,m <= 6 and sum|entries| < 2^53",
        "weights are non-negative when pairs are missing (graphtage only passes costs >= 0); negative weights with "
        "missing pairs can trip `assert null_edge_value > max_edge` and are outside the domain",
        "optimality is claimed only while every entry shown to scipy (including the sentinel) is exactly "
        "representable in float64 and partial sums stay below 2^53",
        "float weights are compared as exact rationals (scaled to integers by a power of two); float column sums "
        "are assumed exact (the generator only emits dyadic rationals for which they are)",
        "NaN / inf weights are excluded",
        "ADMITTED DOMAIN of 'returns a valid, optimal pairing' (GtModel.C15.minWeight_ok_on_domain): weights >= 0 and "
        "finite, one Python type per table, and for int tables every weight and (when a pair is missing) the sentinel "
        "max column sum + 1 below 2^63; for float tables every weight and column sum below 2^53 (so that the sentinel's "
        "+1 and the column sums are exact in float64).  Tables with an int weight / sentinel >= 2^63 (numpy "
        "OverflowError from 2^64 on, or with any negative weight) and float tables with |w| or a column sum >= 2^53 "
        "(real code: AssertionError on [[2.0**53, None]], the model returns: model != code there) are OUTSIDE",
        "the solver (scipy) itself returns on every finite matrix it is shown (the model's solver is a total function)",
    ],
    trusted=[
        "numpy: np.array(list_of_python_numbers, dtype=d) is lossless whenever every number lies in np.iinfo(d) "
        "(the shown matrix is compared with the model's on every case); np.array(x, dtype=bool) maps non-zero to True",
        "the translator harness/props/c15.py (np.iinfo, str(dtype))",
    ],
    partial="validity and optimality are proved for the value the function returns; THAT it returns is proved on the "
    "admitted domain only (minWeight_ok_on_domain: weights >= 0, one type, int weights and sentinel < 2^63); outside it "
    "the three raising branches are characterised (error_domain) but nothing is claimed about the result.  Tables with "
    "|w| >= 2^53 (float) or >= 2^63 (int), negative weights next to missing pairs, NaN / inf are outside: on float tables "
    "at 2^53 the model's exact arithmetic and float64 differ ([[2.0**53, None]] raises AssertionError in the code, the "
    "model returns) and no stream generates them.  That a minimiser exists for every matrix (forall d, exists a, "
    "Contract d a) is not proved; optimality of scipy's answer is validated only up to 6x6 (model) / 8x8 (monitor)",
)

"""C16 — the priority queue always yields a minimum."""
from . import register

_P = "GtModel.C16."
_H = "GtModel.Heap."

register("C16",
         lean_modules=["GtModel.Model.Heap", "GtModel.Proofs.HeapBasic", "GtModel.Proofs.HeapCons", "GtModel.Proofs.HeapExtract",
                       "GtModel.Proofs.HeapCut", "GtModel.Proofs.HeapOps", "GtModel.Props.C16"],
         theorems=[_P + "inv_init", _P + "inv_step", _P + "reachable_inv", _P + "reachable_no_index_error",
                   _P + "size_eq_live", _P + "forest_eq_history", _P + "size_eq_history", _P + "live_eq_history",
                   _P + "reach_has_history", _P + "peek_is_min", _P + "pop_is_min", _P + "pop_peek_defined",
                   _P + "pop_is_min_int", _P + "pop_is_max_int", _P + "peek_is_min_int", _P + "peek_is_max_int",
                   _P + "reachable_inv_min", _P + "reachable_inv_max",
                   _P + "select_correct", _P + "smallest_correct", _P + "largest_correct",
                   _H + "push_spec", _H + "pop_spec", _H + "peek_spec", _H + "decreaseKey_spec", _H + "decreaseKey_valueError",
                   _H + "remove_spec", _H + "extractMin_spec", _H + "consolidate_spec", _H + "consolidate_ok",
                   _H + "total_intMin", _H + "total_intMax",
                   _P + "drainsTo_length", _P + "drain_sorted", _P + "reachable_drain_sorted",
                   _P + "drain_ascending_int", _P + "drain_descending_int"],
         streams=["heap", "heapsel", "heap_O"],
         assumptions=["keys are compared by a total preorder (Total cmp); proved for int keys and ReversedComparator(int)",
                      "decrease_key / remove are only applied to nodes that are in the heap (documented precondition)",
                      "nobody sets HeapNode.deleted on a node that is still in the heap (documented warning)"],
         trusted=["Mathlib.Algebra.Order.Group.Multiset (Multiset + ac_rfl, used only inside proofs)"],
         partial="size_eq_live alone is the invariant's field Inv.size re-read (live = the model's own forest); 'reported size = "
                 "number of live items' with live defined from the HISTORY (pushed and not yet popped / removed / cleared, from "
                 "the operations' return values) is size_eq_history / forest_eq_history, by induction over all operation "
                 "sequences.  Not covered: heaps on which remove / decrease_key are applied to nodes that are not in the heap "
                 "(documented precondition, rejected by the model)")

"""C17 — bound-driven search, ordering and separation are correct."""
from . import register

register(
    "C17",
    lean_modules=["GtModel.Model.Bounded", "GtModel.Model.Search", "GtModel.Props.C17"],
    theorems=[
        "GtModel.C17.lt_terminates",
        "GtModel.C17.lt_consistent",
        "GtModel.C17.le_correct",
        "GtModel.C17.min_bounded_min",
        "GtModel.C17.make_distinct_post",
        "GtModel.C17.make_distinct_terminates",
        "GtModel.C17.sort_sorted_partial",
        "GtModel.C17.search_tighten_terminates",
        "GtModel.C17.search_terminates",
    ],
    streams=["bounded"],
    assumptions=[
        "items follow the Bounded protocol as finite trajectories: nested, strictly shrinking ranges ending in a point "
        "(ValidSt); IterativeTighteningSearch is used with the default initial_bounds (graphtage never passes one)",
        "intervaltree's set iteration inside make_distinct picks some maximal-size interval (validated per run; the "
        "theorems hold for every such choice)",
        "FibonacciHeap: every pop is justified by comparisons it performed, and after a pop _min is a node of minimal "
        "key (validated per run by the model; to be discharged by the C16 heap theorems)",
    ],
    trusted=[
        "harness wrappers recording oracle answers: subclasses substituted for graphtage.bounds.BoundedComparator, "
        "graphtage.bounds.IntervalTree and graphtage.search.FibonacciHeap inside the worker process only",
    ],
    partial="sort_sorted_partial assumes the heap contract (transcript accepted by sortReplay) instead of deriving it "
            "from a heap model; for IterativeTighteningSearch only termination (search_tighten_terminates, "
            "search_terminates) is proved - search_returns_min / search_bounds_point / search_bounds_sound are "
            "covered by the correspondence stream and the monitor (exhaustive small scope in the thorough tier) but "
            "not by a theorem: the invariant of the two heaps with stale keys is not yet formalised",
)

"""C17 — bound-driven search, ordering and separation are correct."""
from . import register

register(
    "C17",
    lean_modules=["GtModel.Model.Bounded", "GtModel.Model.Search", "GtModel.Props.C17"],
    theorems=[
        "GtModel.C17.lt_terminates",
        "GtModel.C17.lt_consistent",
        "GtModel.C17.le_correct",
        "GtModel.C17.min_bounded_min",
        "GtModel.C17.make_distinct_post",
        "GtModel.C17.make_distinct_terminates",
        "GtModel.C17.sort_sorted_partial",
        "GtModel.C17.sort_terminates_partial",
        "GtModel.C17.search_tighten_terminates",
        "GtModel.C17.search_terminates",
        "GtModel.C17.search_returns_min",
        "GtModel.C17.search_bounds_point",
        "GtModel.C17.search_bounds_sound",
        "GtModel.C17.search_reach",
    ],
    streams=["bounded", "bounded_O"],
    assumptions=[
        "items are INDEPENDENT trajectories: tightening one Bounded object never changes the bounds of another (real edits "
        "share sub-edits; shared state between the compared objects is outside the model, the theorems and the generator)",
        "items follow the Bounded protocol as finite trajectories: nested, strictly shrinking ranges ending in a point "
        "(ValidSt); IterativeTighteningSearch is used with the default initial_bounds (graphtage never passes one)",
        "intervaltree's set iteration inside make_distinct picks some maximal-size interval (validated per run; the "
        "theorems hold for every such choice)",
        "FibonacciHeap inside bounds.sort: every pop is justified by comparisons it performed (hypothesis of "
        "sort_sorted_partial, validated per run by the model).  Inside IterativeTighteningSearch the heap's _min after "
        "a pop is an oracle answer validated to be a node of minimal key; the search theorems hold for EVERY oracle "
        "(an inadmissible answer is replaced by the first minimal node), so this only matters for the "
        "model-vs-code correspondence",
    ],
    trusted=[
        "harness wrappers recording oracle answers: subclasses substituted for graphtage.bounds.BoundedComparator, "
        "graphtage.bounds.IntervalTree and graphtage.search.FibonacciHeap inside the worker process only",
    ],
    partial="TERMINATION of bounds.sort is proved only up to the heap: sort_terminates_partial (same heap contract) shows "
            "that every comparator call terminates, that all calls together perform at most total(sigma) tightenings, and "
            "that the drain loop pops exactly n times and then the heap is empty; that the Fibonacci heap makes finitely "
            "many comparator calls per push / pop is ASSUMED (part of the contract), not derived from the C16 model.  "
            "Schedules in which tighten_bounds() answers True without changing the range (stutter steps) are outside the "
            "theorems (ValidSt demands strictly shrinking ranges), the monitor (traj_valid) and the generator.  "
            "sort_sorted_partial assumes the heap contract (the recorded transcript of comparator calls and pops is "
            "accepted by sortReplay: every pop is justified by performed comparisons) instead of deriving it from a "
            "heap model; the contract is validated on every recorded run.  The C16 heap model cannot discharge it as "
            "is: it takes a pure comparator with asymmetry (Total), while BoundedComparator is stateful and answers "
            "ties either way - C16's heap functions would have to thread an answer oracle and its invariant be "
            "phrased on final costs (see NOTES_C17.md).  The IterativeTighteningSearch theorems are proved for the "
            "default initial_bounds only (explicit initial_bounds is a documented defect, witnesses in Props/C17.lean)",
)

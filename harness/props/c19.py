"""C19 — match expressions cannot reach private attributes (model layer L7, stream `expr`)."""
from . import register
from ..gen import expr_tables

register(
    "C19",
    lean_modules=["GtModel.Gen.ExprTables", "GtModel.Model.Expr", "GtModel.Model.ExprHost", "GtModel.Proofs.Expr",
                  "GtModel.Props.C19"],
    theorems=[
        "GtModel.C19.host_never_asked_underscore",
        "GtModel.C19.ghost_log_faithful",
        "GtModel.C19.spy_erasure",
        "GtModel.C19.host_calls_are_the_logged_reads",
        "GtModel.C19.no_underscore_getattr",
        "GtModel.C19.names_resolved",
        "GtModel.C19.names_resolved_default",
        "GtModel.C19.whitelist_eq_documented",
        "GtModel.C19.only_member_keeps_raw_operand",
        "GtModel.C19.member_access_row",
        "GtModel.C19.reads_classified",
        "GtModel.C19.whitelist_nodup",
        "GtModel.C19.table_shapes",
        "GtModel.C19.table_wellFormed",
        "GtModel.C19.expandArgs_allObj",
        "GtModel.C19.expandArgs_headObj",
        "GtModel.C19.reflective_member_refused",
        "GtModel.C19.safe_method_intercepted",
        "GtModel.C19.concrete_host_no_underscore",
        "GtModel.C19.Witness.format_refused_witness",
        "GtModel.C19.Witness.prefix_format_bypass_witness",
        "GtModel.C19.Witness.nested_spec_refused_witness",
        "GtModel.C19.Witness.prefix_nested_spec_witness",
        "GtModel.C19.Witness.member_of_generator_refused_witness",
        "GtModel.C19.Witness.format_traverses_reflective_witness",
        "GtModel.C19.Witness.format_reads_private_global_witness",
        "GtModel.C19.Witness.format_underscore_attribute_of_frame_refused_witness",
    ],
    streams=["expr"],
    gen=expr_tables.gen,
    assumptions=[
        "HOST CONTRACT: no whitelisted builtin and no public attribute/method of an object reachable from the "
        "expression's variables performs name-driven attribute traversal or hands out reflective objects, given that "
        "(a) str.format / str.format_map are unreachable (get_member substitutes _safe_format / _safe_format_map, whose "
        "get_field refuses every ATTRIBUTE step whose name starts with an underscore — and nothing else: modelled, theorem "
        "concrete_host_no_underscore) and (b) get_member reads no member of frame/code/traceback/generator/coroutine/"
        "async-generator/module objects (theorem reflective_member_refused), so no frame, namespace dict or builtin is ever "
        "obtained AS A VALUE.  Validated by the tripwire monitor of stream `expr` (keys format-field-attribute, "
        "reflective-builtin, call:*, operator:*).",
        "CONTRACT GAP ON THE CURRENT CODE (monitor key format-traverses-reflective:<first attribute>, reported as a "
        "violation until it is recorded in known_findings.json): clause (b) does not cover format fields.  "
        "_SafeFormatter.get_field vets underscore ATTRIBUTE names only; gi_frame, gi_code, f_globals, f_locals, "
        "f_builtins, f_code, co_filename are public names and index steps ([__builtins__], [_private_global]) are not "
        "vetted, so '{0.gi_frame.f_globals[__builtins__][getattr]}'.format(g) returns '<built-in function getattr>', "
        "'{0.gi_frame.f_code.co_filename}' the source path, '{0.gi_frame.f_globals[sys].modules[os].environ[HOME]}' an "
        "environment variable.  Only text comes back (no object, no callable, no underscore-named attribute is read: the "
        "letter of C19 holds), but get_member refuses every member of these objects and _SafeFormatter is documented to "
        "obey the same rule.  The Lean host mirrors the traversal (witness format_traverses_reflective_witness); results "
        "rendered from reflective objects are compared as 'some str' (CV.ostr / [\"s?\"]): the text itself (addresses, paths, "
        "reprs of namespaces) is not modelled, the result class (str / which exception) is.",
        "The host contract is FALSE for TreeNode.editable_dict() on real tree nodes (finding D26, key "
        "public-method-exposes-private:editable_dict): it returns dict(self.__dict__).  The end-to-end claim holds only "
        "modulo that finding.  Any other public member of a node class that hands out private state fails the check under "
        "its own key: every public member of every node class of the tree under test is read, called without arguments and "
        "called with every underscore attribute name (deterministically, every run); an exposure is the node's __dict__ "
        "itself, a private MUTABLE container by identity (not tuples/scalars, not the child/parent nodes that documented "
        "accessors return), or a private attribute name as a mapping key / first element of a pair (rule: "
        "harness/streams/expr.py find_exposures).  `__class__` is not swept as an argument (isinstance() inside graphtage "
        "makes the same runtime inquiry).",
        "Values bound in locals/globals are not graphtage Token instances.",
        "isinstance() inside get_value/get_member/eval asks the runtime for `__class__` of the operand; this runtime type "
        "inquiry is not counted as an attribute read of the evaluator.",
        "The tokenizer and infix_to_rpn are not modelled; the theorems hold for every token list.",
        "Generators bound in the modelled environments are fresh (never started); the attribute tables of generator / frame "
        "/ code objects in Model/ExprHost.lean are those of CPython 3.12 and are checked by the correspondence stream.",
    ],
    trusted=["harness/gen/expr_tables.py (translator of the Operator enum, DEFAULT_GLOBALS and the docstring whitelist)",
             "harness/streams/expr.py sentinel tripwire and its stack-based mechanism classification"],
    partial="The theorems are statements about the EVALUATOR (get_member / get_value / eval) for every host: "
            "host_never_asked_underscore (no name passed to the host's getattr starts with an underscore, stated on the "
            "recording wrapper `spy h`, so it does not depend on the evaluator's own log; HostOK.getattr is assumed for "
            "public names only) and ghost_log_faithful (the evaluator's log equals what the host was asked); "
            "no_underscore_getattr / names_resolved / reads_classified speak about the evaluator's own log, written at two "
            "call sites; spy_erasure shows the wrapper is invisible (same result, host state and log), so these are "
            "statements about the run on h itself (host_calls_are_the_logged_reads).  names_resolved(_default) remain "
            "statements about the log written at the single lookup site in get_value (name resolution involves no host call "
            "that could be recorded independently); their tie to the code is the stream's wrapped get_value.  NOT proved: "
            "anything about what happens INSIDE host operations (call, getitem, format traversal) except on the concrete "
            "host of the stream (concrete_host_no_underscore).  The whole-system statement of C19 therefore rests on the "
            "stream: instrumented getattr list compared with the model's log on every case, tripwired sentinels, real tree "
            "nodes with the exposure monitor.  Known to fail end to end: D26 (editable_dict); contract gap: format fields "
            "traverse generator/frame/code/namespace objects and return their text (format-traverses-reflective:*).",
)

"""C19 — match expressions cannot reach private attributes (model layer L7, stream `expr`)."""
from . import register
from ..gen import expr_tables

register(
    "C19",
    lean_modules=["GtModel.Gen.ExprTables", "GtModel.Model.Expr", "GtModel.Model.ExprHost", "GtModel.Proofs.Expr",
                  "GtModel.Props.C19"],
    theorems=[
        "GtModel.C19.no_underscore_getattr",
        "GtModel.C19.names_resolved",
        "GtModel.C19.names_resolved_default",
        "GtModel.C19.whitelist_eq_documented",
        "GtModel.C19.only_member_keeps_raw_operand",
        "GtModel.C19.member_access_row",
        "GtModel.C19.reads_classified",
        "GtModel.C19.whitelist_nodup",
        "GtModel.C19.table_shapes",
        "GtModel.C19.table_wellFormed",
        "GtModel.C19.expandArgs_allObj",
        "GtModel.C19.expandArgs_headObj",
        "GtModel.C19.reflective_member_refused",
        "GtModel.C19.safe_method_intercepted",
        "GtModel.C19.concrete_host_no_underscore",
        "GtModel.C19.Witness.format_refused_witness",
        "GtModel.C19.Witness.prefix_format_bypass_witness",
        "GtModel.C19.Witness.nested_spec_refused_witness",
        "GtModel.C19.Witness.prefix_nested_spec_witness",
    ],
    streams=["expr"],
    gen=expr_tables.gen,
    assumptions=[
        "HOST CONTRACT: no whitelisted builtin and no public attribute/method of an object reachable from the "
        "expression's variables performs name-driven attribute traversal or hands out reflective objects, given that "
        "(a) str.format / str.format_map are unreachable (get_member substitutes _safe_format / _safe_format_map, whose "
        "get_field applies the underscore rule: modelled, theorem concrete_host_no_underscore) and (b) members of "
        "frame/code/traceback/generator/coroutine/async-generator/module objects cannot be read (theorem "
        "reflective_member_refused).  Validated by the tripwire monitor of stream `expr` (keys format-field-attribute, "
        "reflective-builtin, call:*, operator:*).",
        "The host contract is FALSE for TreeNode.editable_dict() on real tree nodes (finding D26, key "
        "public-method-exposes-private:editable_dict): it returns dict(self.__dict__).  The end-to-end claim holds only "
        "modulo that finding; any other public API handing out a node's __dict__ fails the check.",
        "Values bound in locals/globals are not graphtage Token instances.",
        "isinstance() inside get_value/get_member/eval asks the runtime for `__class__` of the operand; this runtime type "
        "inquiry is not counted as an attribute read of the evaluator.",
        "The tokenizer and infix_to_rpn are not modelled; the theorems hold for every token list.",
    ],
    trusted=["harness/gen/expr_tables.py (translator of the Operator enum, DEFAULT_GLOBALS and the docstring whitelist)",
             "harness/streams/expr.py sentinel tripwire and its stack-based mechanism classification"],
    partial="",
)

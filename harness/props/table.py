from . import register

register("T00",  # infrastructure self-test, not a property of properties.jsonl
         lean_modules=["GtModel.Model.Range"], theorems=[], streams=["range"])

# C01, C02, C03, C08, C10: see c01.py ... c10.py

def _c20_extra(prop, tier):
    """every exception class the recorded fuzz of the parser entry points saw (harness/gentables.py, Gen step of this run)
    goes through the real command line with the shortest file that raised it, and through the faults monitor"""
    from .. import common as C, gentables as G
    from ..streams import faults as F
    rec = G.LAST_RECORDED
    cases = F.witness_cases(rec)
    obs = C.run_impl("faults", cases) if cases else []
    hits = []
    for c, o in zip(cases, obs):
        for h in F.monitor(c, o):
            hits.append({"stream": "faults", "case": c, "obs": o, "key": h["key"], "what": h["what"]})
    info = {"recorded_raised": {k: {"classes": v.get("classes"), "files": v.get("tried"), "rejected_by_reference": v.get("rejected")} for k, v in sorted(rec.items())},
            "witness_cases": len(cases)}
    return {"info": info, "hits": hits, "evaluations": len(cases),
            "samples": [{"stream": "faults", "case": c, "obs": o} for c, o in list(zip(cases, obs))[:2]]}


register("C20", lean_modules=["GtModel.Props.C20"], extra=_c20_extra, gen=lambda: __import__("harness.gentables", fromlist=["x"]).gen_cli_tables(),
         streams=["faults"],
         theorems=["GtModel.C20.handlers_cover", "GtModel.C20.invalid_yields_message", "GtModel.C20.error_path_first", "GtModel.C20.error_path_second"],
         partial="Only handlers_cover carries content: a decide over regenerated tables (except clauses of /repo, exception MROs, and the hand list of "
                 "raisable classes UNITED with the classes a seeded per-run fuzz of the parser entry points really raised). The other three registered "
                 "theorems (invalid_yields_message, error_path_first, error_path_second) restate a literal table: loadOfInvalid is DEFINED from handlersCover "
                 "and outcome .message is the literal <1,true,true,false> transcribed from main()'s error branch, so the errorpath correspondence compares a "
                 "per-type constant with the monitor's verdict. Everything else is decided on the real command line by the faults stream: seeded "
                 "corruptions (truncation, delimiters, nesting, byte flips, and value-level ones: encoding names, <date>/<integer>/<real>/<data> text, "
                 "entities, YAML timestamps/tags/aliases/merge keys, 5000-digit numbers, binary-plist header/object/offset/trailer bytes) of rich seed documents; "
                 "quick tier samples them (about 900 files, 14 truncation points per document; every byte only in thorough). 'Invalid' = rejected by a reference parser "
                 "with ANY exception; the reference is a second entry point where the standard library has one (pyexpat driven directly vs ElementTree, PyYAML's "
                 "pure-Python SafeLoader vs the C loader) but the same library for plist (plistlib) and JSON5 (json5), so a parser that wrongly accepts a file "
                 "filters it out. Message formatting is not modelled. --html is not exercised (it prints its page skeleton before the error).",
         assumptions=["the parsers raise no exception class outside the generated raisable table = hand list in harness/gentables.py + classes recorded by this run's "
                      "fuzz (bounded: 2.5k-12k corrupted files per type in quick, seeded by VERIF_SEED); a class outside it escaping a loader shows up in the faults stream as uncaught:<type>:<class>"],
         trusted=["except-clause table (try scope and re-raise aware ast walk) and exception MROs regenerated from /repo by harness/gentables.py",
                  "harness.streams.faults.record_raised (what the parser entry points raise), run on every Gen step"])

from .. import gentables as _gt

register("C14", lean_modules=["GtModel.Props.C14"], gen=_gt.gen_cli_tables, streams=["cli"],
         theorems=["GtModel.C14.alias_from_type", "GtModel.C14.explicit_mime_wins", "GtModel.C14.explicit_type_wins",
                   "GtModel.C14.second_file_ignores_first_file_options", "GtModel.C14.first_file_ignores_second_file_options",
                   "GtModel.C14.alias_k", "GtModel.C14.alias_j", "GtModel.C14.join_flags_independent",
                   "GtModel.C14.default_is_auto", "GtModel.C14.by_mime_of_default"],
         partial="the theorems are rfl/simp/decide facts about a small model of main()'s selection and option logic; argparse's parsing of argv and the "
                 "byte-level agreement with the library are checked by the cli stream on the real code, not proved: all 8 types incl. pickle (binary filesets, "
                 ".pkl/.pickle names), every ordered pair of different types in the four spellings (type/type, type/mime, mime/type, mime/mime) on neutral, "
                 "misleading and compression-like names (old.json.gz), each join flag alone, and command-vs-library text and exit status in full-diff, -e and -d "
                 "mode with and without -f (in-process, stdout replaced), plus 8 documents as a real process writing to a pipe with and without --no-status "
                 "(line-separator characters in YAML/XML strings). Not exercised: --html, --color, stdin ('-'), a TTY. Cross-type pairs whose diff raises in the "
                 "library (xml vs non-xml, plist vs json: same exception from the command) contribute the parser selection only.",
         assumptions=["mimetypes.guess_type is an oracle (its answer for each file name is recorded and shipped to the model)"],
         trusted=["file-type tables regenerated from /repo by harness/gentables.py",
                  "harness/streams/cli.py:_lib_run — an independent transcription of the documented library call sequence for the three output modes"])

register("C13", lean_modules=["GtModel.Props.C13"], gen=_gt.gen_formatter_tables, streams=["dispatch", "matrix"],
         theorems=["GtModel.C13.dispatch_total", "GtModel.C13.dispatch_total_from_subformatters", "GtModel.C13.string_edit_dispatch_total", "GtModel.C13.edit_dispatch_exact", "GtModel.C13.fuel_sufficient"],
         partial="edit_dispatch_total (true by its always-true right disjunct) is no longer registered: for edits the protocol falls back to the from-node's handler (dispatch_total), and string_edit_dispatch_total / edit_dispatch_exact state which edit classes resolve to a formatter method; only the formatter DISPATCH is modelled and proved total; the handler bodies are not modelled: that part is decided on the real code by exhaustive enumeration of the configuration space (stream matrix). Findings D11/D18 (handler bodies) are recorded.",
         assumptions=["Edited<cls> classes created by make_edited have the MRO (Edited<cls>, EditedTreeNode, cls, ...) (validated: the dispatch stream resolves them on the real classes)"],
         trusted=["formatter registry / class MRO tables regenerated from /repo by harness/gentables.py"])

register("C09", lean_modules=["GtModel.Props.C09"], streams=["formats"],
         theorems=["GtModel.C09.same_data_zero", "GtModel.C09.same_data_zero_all", "GtModel.C09.third_doc_independent",
                   "GtModel.C09.plist_from_side", "GtModel.C09.plist_to_side_replace_witness", "GtModel.C02.eq_zero_cost"],
         partial="the full property is false of the current code for (non-plist -> plist) pairs (finding D10, proved as a witness theorem); the four external parsers are parameters",
         assumptions=["the JSON, JSON5, YAML and plist parsers return equal Python objects for the same datum (each generated datum is loaded through all four real loaders and compared on every run)"],
         trusted=[])

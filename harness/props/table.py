from . import register

register("T00",  # infrastructure self-test, not a property of properties.jsonl
         lean_modules=["GtModel.Model.Range"], theorems=[], streams=["range"])

from . import register

register("T00",  # infrastructure self-test, not a property of properties.jsonl
         lean_modules=["GtModel.Model.Range"], theorems=[], streams=["range"])

# C01, C02, C03, C08, C10: see c01.py ... c10.py

register("C20", lean_modules=["GtModel.Props.C20"], gen=lambda: __import__("harness.gentables", fromlist=["x"]).gen_cli_tables(),
         streams=["faults"],
         theorems=["GtModel.C20.handlers_cover", "GtModel.C20.invalid_yields_message", "GtModel.C20.error_path_first", "GtModel.C20.error_path_second"],
         partial="the set of exception classes each external parser raises on invalid syntax is an assumption validated by fault enumeration; message formatting is not modelled",
         assumptions=["RAISABLE table in harness/gentables.py (validated by the faults stream on every run)"],
         trusted=["except-clause table and exception MROs regenerated from /repo by harness/gentables.py"])

from .. import gentables as _gt

register("C14", lean_modules=["GtModel.Props.C14"], gen=_gt.gen_cli_tables, streams=["cli"],
         theorems=["GtModel.C14.alias_from_type", "GtModel.C14.explicit_mime_wins", "GtModel.C14.explicit_type_wins",
                   "GtModel.C14.second_file_ignores_first_file_options", "GtModel.C14.alias_k", "GtModel.C14.alias_j",
                   "GtModel.C14.default_is_auto", "GtModel.C14.by_mime_of_default"],
         partial="argparse's parsing of argv and the byte-level agreement with the library are checked by the cli stream on the real code, not proved",
         assumptions=["mimetypes.guess_type is an oracle (its answer for each file name is recorded and shipped to the model)"],
         trusted=["file-type tables regenerated from /repo by harness/gentables.py"])

register("C13", lean_modules=["GtModel.Props.C13"], gen=_gt.gen_formatter_tables, streams=["dispatch", "matrix"],
         theorems=["GtModel.C13.dispatch_total", "GtModel.C13.dispatch_total_from_subformatters", "GtModel.C13.string_edit_dispatch_total", "GtModel.C13.edit_dispatch_exact", "GtModel.C13.fuel_sufficient"],
         partial="edit_dispatch_total (true by its always-true right disjunct) is no longer registered: for edits the protocol falls back to the from-node's handler (dispatch_total), and string_edit_dispatch_total / edit_dispatch_exact state which edit classes resolve to a formatter method; only the formatter DISPATCH is modelled and proved total; the handler bodies are not modelled: that part is decided on the real code by exhaustive enumeration of the configuration space (stream matrix). Findings D11/D18 (handler bodies) are recorded.",
         assumptions=["Edited<cls> classes created by make_edited have the MRO (Edited<cls>, EditedTreeNode, cls, ...) (validated: the dispatch stream resolves them on the real classes)"],
         trusted=["formatter registry / class MRO tables regenerated from /repo by harness/gentables.py"])

register("C09", lean_modules=["GtModel.Props.C09"], streams=["formats"],
         theorems=["GtModel.C09.same_data_zero", "GtModel.C09.same_data_zero_all", "GtModel.C09.third_doc_independent",
                   "GtModel.C09.plist_from_side", "GtModel.C09.plist_to_side_replace_witness", "GtModel.C02.eq_zero_cost"],
         partial="the full property is false of the current code for (non-plist -> plist) pairs (finding D10, proved as a witness theorem); the four external parsers are parameters",
         assumptions=["the JSON, JSON5, YAML and plist parsers return equal Python objects for the same datum (each generated datum is loaded through all four real loaders and compared on every run)"],
         trusted=[])

from . import register

register("T00",  # infrastructure self-test, not a property of properties.jsonl
         lean_modules=["GtModel.Model.Range"], theorems=[], streams=["range"])

for _p in ("C01", "C02", "C03", "C08", "C10"):
    register(_p, lean_modules=[], theorems=[], streams=["script"])

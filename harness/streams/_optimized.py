"""Replica streams: the cases of a base stream run in worker processes started with PYTHONOPTIMIZE=1 (`python -O`:
assert statements — and any side effect hidden inside one — are compiled away).  Same generator (a prefix of it),
same model lines, same monitors; `install(globals(), base)` is all a replica module contains."""


def install(g, base, keep=0.4, cap=400):
    for k, v in vars(base).items():
        if not k.startswith("__"):
            g[k] = v
    g["NAME"] = base.NAME + "_O"
    env = dict(getattr(base, "ENV", None) or {})
    env["PYTHONOPTIMIZE"] = "1"
    g["ENV"] = env

    def gen(rng, tier):
        cases = base.gen(rng, tier)
        return cases[:max(20, min(cap if tier == "quick" else 4 * cap, int(len(cases) * keep)))]
    g["gen"] = gen

    def classify(case, obs):
        try:
            return "-O:" + str(base.classify(case, obs))
        except Exception:
            return "-O"
    g["classify"] = classify

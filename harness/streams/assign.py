"""Stream `assign`: graphtage.matching.min_weight_bipartite_matching / get_dtype (model layer L5, property C15).

Case (op "match"):
    {"op": "match", "n": n, "m": m, "unit": u, "cells": [[cell]*m]*n, "tag": str}
    cell = null (no edge) | ["i", v] (int v) | ["b", 0|1] (bool) | ["f", k] (the double k/u, u a power of two)
  `unit` is 1 unless the table contains floats.  All floats the generator emits are dyadic rationals whose
  column sums are exact in float64, so the integer model (weights scaled by `unit`) is exact.
Case (op "dtype"): {"op": "dtype", "lo": int, "hi": int}  ->  str(get_dtype(lo, hi)).

Observation: {"result": sorted [[from, to, type name, weight*unit]]} or {"raised": exception name}, plus the recorded
call of scipy's linear_sum_assignment: the matrix it was shown (dtype, entries*unit) and its answer (rows, cols) --
the answer is the ORACLE part shipped to the model, which validates it against the solver contract.
"""
import itertools
from fractions import Fraction

NAME = "assign"
TWO53 = 2 ** 53
PROP = "C15"

# ------------------------------------------------------------------------------------------------
# decoding


def _value(cell, unit):
    """Python object for a cell."""
    if cell is None:
        return None
    t, v = cell
    if t == "i":
        return int(v)
    if t == "b":
        return bool(v)
    if t == "f":
        fr = Fraction(int(v), int(unit))
        x = float(fr)
        if Fraction(x) != fr:
            raise ValueError("case contains a float that is not exactly representable")
        return x
    raise ValueError("bad cell type " + repr(t))


def _scaled(x, unit):
    """Exact integer x*unit, or a string that can never match the model if x*unit is not integral."""
    if isinstance(x, bool):
        return int(x) * unit
    fr = Fraction(x) * unit
    if fr.denominator != 1:
        return "inexact:" + str(fr)
    return int(fr.numerator)


def _tyname(x):
    return type(x).__name__


# ------------------------------------------------------------------------------------------------
# the implementation under test

_ORIG = None


def worker_init():
    global _ORIG
    import graphtage.matching as M
    _ORIG = M.linear_sum_assignment


def impl(case):
    import graphtage.matching as M
    if case["op"] == "dtype":
        return {"dtype": str(M.get_dtype(int(case["lo"]), int(case["hi"])))}
    global _ORIG
    if _ORIG is None:
        worker_init()
    n, m, unit = case["n"], case["m"], case["unit"]
    table = [[_value(c, unit) for c in row] for row in case["cells"]]
    assert len(table) == n and all(len(r) == m for r in table)
    rec = {"calls": 0}

    def spy(matrix, maximize=False):
        res = _ORIG(matrix, maximize=maximize)
        rec["calls"] += 1
        rec["dtype"] = str(matrix.dtype)
        rec["shown"] = [[_scaled(v, unit) for v in row] for row in matrix.tolist()]
        rec["rows"] = [int(x) for x in res[0]]
        rec["cols"] = [int(x) for x in res[1]]
        rec["maximize"] = bool(maximize)
        return res

    M.linear_sum_assignment = spy
    try:
        try:
            out = M.min_weight_bipartite_matching(range(n), range(m), lambda a, b: table[a][b])
        finally:
            M.linear_sum_assignment = _ORIG
    except (ValueError, AssertionError, OverflowError) as e:
        obs = {"raised": type(e).__name__, "msg": str(e)[:160]}
    else:
        obs = {"result": sorted([int(f), int(t), _tyname(w), _scaled(w, unit)] for f, (t, w) in out.items()),
               "len": len(out)}
    if rec["calls"] > 1 or rec.get("maximize"):
        obs["solver_misuse"] = True
    if rec["calls"]:
        obs["dtype"] = rec["dtype"]
        obs["shown"] = rec["shown"]
        obs["solver"] = {"rows": rec["rows"], "cols": rec["cols"]}
    else:
        obs["dtype"] = None
        obs["shown"] = None
        obs["solver"] = None
    return obs


# ------------------------------------------------------------------------------------------------
# model side


def _float_sums_exact(case):
    """True iff Python's left-to-right float column sums (and the +1) are exact for this table."""
    unit = case["unit"]
    cells = case["cells"]
    if not any(c is not None and c[0] == "f" for row in cells for c in row):
        return True
    if all(c is not None for row in cells for c in row):
        return True                 # complete table: no column sums are computed
    best = None
    for col in range(case["m"]):
        s = 0
        ex = Fraction(0)
        for row in range(case["n"]):
            c = cells[row][col]
            if c is not None:
                if c[0] != "f":
                    return True     # mixed table: ValueError before any arithmetic
                s = s + _value(c, unit)
                ex += Fraction(int(c[1]), unit)
                if Fraction(s) != ex:
                    return False
        if best is None or ex > best:
            best = ex
    if best is None:
        return True
    return Fraction(float(best) + 1) == best + 1


def to_model(case, obs):
    if isinstance(obs, dict) and obs.get("error"):
        return None                 # crash / hang: reported by the monitor
    if case["op"] == "dtype":
        return {"s": NAME, "op": "dtype", "lo": case["lo"], "hi": case["hi"]}
    if not _float_sums_exact(case):
        return None
    return {"s": NAME, "op": "match", "n": case["n"], "m": case["m"], "unit": case["unit"], "cells": case["cells"],
            "solver": obs.get("solver")}


def _abs_sum(shown):
    return sum(abs(v) for row in shown for v in row)


def expect(case, obs):
    if case["op"] == "dtype":
        lo, hi = case["lo"], case["hi"]
        return {"dtype": obs["dtype"], "fallback": _fallback(lo, hi)}
    if obs.get("solver_misuse"):
        return {"expect_error": "solver called more than once or with maximize=True"}
    if obs.get("shown") is None:
        contract = "n/a"
    elif case["n"] <= 6 and case["m"] <= 6 and all(isinstance(v, int) for r in obs["shown"] for v in r) \
            and _abs_sum(obs["shown"]) < TWO53 * case["unit"]:
        contract = "opt"
    else:
        contract = "struct"
    out = {"dtype": obs.get("dtype"), "shown": obs.get("shown"), "contract": contract}
    if "raised" in obs:
        out["raised"] = obs["raised"]
    else:
        out["result"] = obs["result"]
    return out


_TABLE = None


def _fallback(lo, hi):
    """Does get_dtype(lo, hi) fall through the interval table?  (read from the source table, not from the model)"""
    global _TABLE
    if _TABLE is None:
        import graphtage.matching as M
        _TABLE = [(int(a), int(b)) for a, b, _ in M.INTEGER_DTYPE_INTERVALS]
    return not any(a <= lo and b > hi for a, b in _TABLE)


# ------------------------------------------------------------------------------------------------
# monitor: the statement of C15 evaluated on the implementation's result, with an independent brute force


def _hit(key, what):
    return {"prop": PROP, "key": key, "what": what}


def _facts(case):
    """Domain facts computed from the case alone (exact arithmetic on the scaled integers)."""
    n, m, unit = case["n"], case["m"], case["unit"]
    cells = case["cells"]
    types = set()
    vals = []
    missing = 0
    for row in cells:
        for c in row:
            if c is None:
                missing += 1
            else:
                types.add(c[0])
                vals.append(int(c[1]) * (1 if c[0] == "f" else unit))
    sentinel = None
    if missing and vals:
        sums = []
        for col in range(m):
            sums.append(sum(int(cells[r][col][1]) * (1 if cells[r][col][0] == "f" else unit)
                            for r in range(n) if cells[r][col] is not None))
        sentinel = max(sums) + unit
    return {"types": types, "vals": vals, "missing": missing, "sentinel": sentinel,
            "nonneg": all(v >= 0 for v in vals)}


def _w(case, i, j):
    """Scaled exact weight of an existing pair."""
    c = case["cells"][i][j]
    return int(c[1]) * (1 if c[0] == "f" else case["unit"])


def brute_min(case):
    """Minimum total (scaled) over all one-to-one assignments of min(n,m) pairs of a COMPLETE table."""
    n, m = case["n"], case["m"]
    best = None
    if n <= m:
        for cols in itertools.permutations(range(m), n):
            t = sum(_w(case, i, cols[i]) for i in range(n))
            if best is None or t < best:
                best = t
    else:
        for rows in itertools.permutations(range(n), m):
            t = sum(_w(case, rows[j], j) for j in range(m))
            if best is None or t < best:
                best = t
    return best


def _nperm(n, m):
    k, big = min(n, m), max(n, m)
    p = 1
    for i in range(k):
        p *= big - i
    return p


_TYCODE = {"int": "i", "bool": "b", "float": "f"}


def monitor(case, obs):
    if case["op"] != "match":
        return []
    hits = []
    fx = _facts(case)
    n, m, unit = case["n"], case["m"], case["unit"]
    if len(fx["types"]) > 1:
        return []                       # mixed edge types: outside the property (documented ValueError)
    in_domain = fx["nonneg"] or fx["missing"] == 0
    lim63 = (2 ** 63) * unit
    safe = in_domain and all(-lim63 <= v < lim63 for v in fx["vals"]) and (fx["sentinel"] is None or fx["sentinel"] < lim63)
    if isinstance(obs, dict) and obs.get("error"):
        if safe:
            hits.append(_hit("exception:" + str(obs.get("exc", obs.get("error"))),
                             f"min_weight_bipartite_matching crashed on a {n}x{m} table: {obs.get('exc')} {obs.get('msg', '')[:120]}"))
        return hits
    if "raised" in obs:
        if safe:
            hits.append(_hit("exception:" + obs["raised"],
                             f"min_weight_bipartite_matching raised {obs['raised']} on a well-typed {n}x{m} table"))
        return hits
    res = obs["result"]
    # --- a one-to-one pairing ...
    froms = [r[0] for r in res]
    tos = [r[1] for r in res]
    if len(set(froms)) != len(froms) or obs.get("len") != len(res):
        hits.append(_hit("not-injective-from", "a from-index is paired twice"))
    if len(set(tos)) != len(tos):
        hits.append(_hit("not-injective-to", f"a to-index is paired twice: {sorted(tos)}"))
    # --- ... that uses only existing pairs and reports their true weights
    total = 0
    ok_pairs = True
    for f, t, ty, w in res:
        if not (0 <= f < n and 0 <= t < m):
            hits.append(_hit("out-of-range", f"pair ({f},{t}) outside the {n}x{m} table"))
            ok_pairs = False
            continue
        c = case["cells"][f][t]
        if c is None:
            hits.append(_hit("missing-pair-used", f"pair ({f},{t}) does not exist but was reported with weight {w}"))
            ok_pairs = False
            continue
        if _TYCODE.get(ty) != c[0] or w != _w(case, f, t):
            hits.append(_hit("wrong-weight", f"pair ({f},{t}) reported as {ty} {w}/{unit}, table has {c[0]} {_w(case, f, t)}/{unit}"))
            ok_pairs = False
            continue
        total += w
    # --- complete table: as many pairs as possible, smallest total
    if fx["missing"] == 0 and ok_pairs and not hits:
        if len(res) != min(n, m):
            hits.append(_hit("not-max-cardinality", f"{len(res)} pairs on a complete {n}x{m} table"))
        elif sum(abs(v) for v in fx["vals"]) < TWO53 and _nperm(n, m) <= 50000:
            best = brute_min(case)
            if best is None:
                best = 0
            if total != best:
                hits.append(_hit("not-minimal", f"total {total}/{unit} but an assignment of total {best}/{unit} exists ({n}x{m})"))
    return hits


# ------------------------------------------------------------------------------------------------
# generation

BOUNDARY_INTS = [0, 1, 2, 127, 128, 254, 255, 256, 257, 2 ** 15 - 1, 2 ** 15, 2 ** 16 - 1, 2 ** 16, 2 ** 16 + 1,
                 2 ** 31 - 1, 2 ** 31, 2 ** 32 - 1, 2 ** 32, 2 ** 32 + 1, 2 ** 53 - 1]
HUGE_INTS = [2 ** 53, 2 ** 53 + 1, 2 ** 63 - 1, 2 ** 63, 2 ** 64 - 1, 2 ** 64, 2 ** 64 + 1, 2 ** 70]
NEG_INTS = [-1, -2, -127, -128, -129, -2 ** 15, -2 ** 15 - 1, -2 ** 31, -2 ** 31 - 1, -2 ** 53 + 1, -2 ** 63, -2 ** 63 - 1]


def _case(cells, unit, tag):
    n = len(cells)
    m = len(cells[0]) if n else 0
    return {"op": "match", "n": n, "m": m, "unit": unit, "cells": cells, "tag": tag}


def _shape(rng, lo=0, hi=6):
    r = rng.random()
    if r < 0.06:
        return (0, rng.randint(0, hi)) if rng.random() < 0.5 else (rng.randint(0, hi), 0)
    if r < 0.30:
        k = rng.randint(max(1, lo), hi)
        return (k, k)
    return (rng.randint(max(1, lo), hi), rng.randint(max(1, lo), hi))


def _int_dist(rng):
    """A sampler of non-negative ints; the distribution is chosen per table."""
    r = rng.random()
    if r < 0.20:
        return "tiny", lambda: rng.randint(0, 2)               # many ties
    if r < 0.35:
        return "zeros", lambda: 0 if rng.random() < 0.7 else rng.randint(1, 9)
    if r < 0.50:
        c = rng.randint(0, 300)
        return "const", lambda: c                              # all equal
    if r < 0.70:
        return "small", lambda: rng.randint(0, 20)
    if r < 0.85:
        return "byte-edge", lambda: rng.choice([0, 1, 127, 128, 200, 254, 255, 256, 257, 300])
    return "wide", lambda: rng.randint(0, 10 ** rng.randint(3, 12))


def _float_dist(rng):
    """(unit, sampler of numerators): doubles k/unit, small enough that every sum is exact."""
    j = rng.choice([0, 1, 2, 3, 4, 10])
    unit = 2 ** j
    r = rng.random()
    if r < 0.25:
        return unit, "tiny", lambda: rng.randint(0, 2) * rng.choice([1, unit])
    if r < 0.40:
        return unit, "zeros", lambda: 0 if rng.random() < 0.7 else rng.randint(1, 9)
    if r < 0.55:
        c = rng.randint(0, 300)
        return unit, "const", lambda: c
    if r < 0.75:
        return unit, "small", lambda: rng.randint(0, 64)
    if r < 0.88:
        # weights that differ only far below single precision (exact in float64): a solver fed a narrower float
        # type sees ties and returns a non-minimal assignment
        base = 2 ** rng.choice([26, 30, 34])
        return unit, "near-equal", lambda: base + rng.randint(0, 3)
    return unit, "wide", lambda: rng.randint(0, 2 ** 40)


def _gen_table(rng, ty, n, m, density):
    """density = probability that a pair exists."""
    if ty == "i":
        name, f = _int_dist(rng)
        unit = 1
    elif ty == "b":
        p = rng.choice([0.1, 0.5, 0.5, 0.9, 0.0, 1.0])
        name, f, unit = f"p{p}", (lambda: 1 if rng.random() < p else 0), 1
    else:
        unit, name, f = _float_dist(rng)
        if density >= 1 and rng.random() < 0.3:
            # COMPLETE float tables far beyond 2^53 (no sentinel arithmetic is involved there): k * 2^e keeps every sum
            # the solver forms exact
            e = rng.choice([53, 54, 60, 62, 63, 64, 100, 1000])
            unit, name, f = 1, f"huge-2^{e}", (lambda: rng.randint(0, 64) * 2 ** e)
    cells = [[([ty, f()] if rng.random() < density else None) for _ in range(m)] for _ in range(n)]
    return cells, unit, name


def _rand_case(rng, big=False):
    ty = rng.choice(["i", "i", "i", "b", "f", "f"])
    n, m = _shape(rng, 7, 10) if big else _shape(rng)
    r = rng.random()
    if r < 0.5:
        density, dn = 1.0, "complete"
    elif r < 0.9:
        density, dn = rng.choice([0.9, 0.75, 0.5, 0.25]), "sparse"
    elif r < 0.92:
        density, dn = 0.0, "empty"
    else:
        density, dn = rng.choice([0.05, 0.1]), "verysparse"
    cells, unit, name = _gen_table(rng, ty, n, m, density)
    if dn == "verysparse" and n and m:
        # keep at least one existing pair so the case is not just another all-None table
        i, j = rng.randrange(n), rng.randrange(m)
        if cells[i][j] is None:
            cells[i][j] = [ty, 1]
    if dn == "sparse" and n and m and rng.random() < 0.3:
        # knock out a whole row or column
        if rng.random() < 0.5:
            i = rng.randrange(n)
            cells[i] = [None] * m
        else:
            j = rng.randrange(m)
            for row in cells:
                row[j] = None
    return _case(cells, unit, f"rand:{ty}:{dn}:{name}")


def _mixed_case(rng):
    n, m = rng.randint(1, 4), rng.randint(1, 4)
    if n * m == 1:
        m = 2
    unit = rng.choice([1, 2, 4])
    tys = rng.sample(["i", "b", "f"], 2)
    cells = []
    for _ in range(n):
        row = []
        for _ in range(m):
            if rng.random() < 0.2:
                row.append(None)
            else:
                t = tys[0] if rng.random() < 0.6 else tys[1]
                row.append([t, rng.randint(0, 1) if t == "b" else rng.randint(0, 5)])
        cells.append(row)
    # make sure it really is mixed
    flat = [c for row in cells for c in row if c is not None]
    if len({c[0] for c in flat}) < 2:
        cells[0][0] = [tys[0], 1]
        cells[-1][-1] = [tys[1], 1]
    return _case(cells, unit, "mixed")


def _boundary_cases(rng):
    out = []
    # single boundary weight, alone / with zeros / with a missing pair (sentinel = w + 1 crosses the dtype edge)
    for w in BOUNDARY_INTS + HUGE_INTS:
        out.append(_case([[["i", w]]], 1, "bnd:1x1"))
        out.append(_case([[["i", w], None]], 1, "bnd:1x2-null"))
        out.append(_case([[["i", w], ["i", 0]], [["i", 0], ["i", w]]], 1, "bnd:2x2"))
        out.append(_case([[["i", w], ["i", max(0, w - 1)]], [None, ["i", 1]]], 1, "bnd:2x2-null"))
    # negative weights on COMPLETE tables (signed rows of the dtype table); never with missing pairs
    for w in NEG_INTS:
        out.append(_case([[["i", w]]], 1, "neg:1x1"))
        out.append(_case([[["i", w], ["i", 0]], [["i", 5], ["i", -w if w > -2 ** 62 else 7]]], 1, "neg:2x2"))
    out.append(_case([[["i", -1], ["i", 2 ** 63]]], 1, "neg:overflow"))
    out.append(_case([[["i", -1], ["i", 2 ** 63 - 1]]], 1, "neg:int64-edge"))
    # column sums that push the sentinel over an edge although every weight is below it
    for tot in (256, 2 ** 16, 2 ** 32):
        a = tot // 2
        out.append(_case([[["i", a], None], [["i", tot - 1 - a], ["i", 0]]], 1, "bnd:sentinel-edge"))
        out.append(_case([[["i", a], None], [["i", tot - 2 - a], ["i", 0]]], 1, "bnd:sentinel-below"))
    # floats
    for k, u in [(0, 1), (1, 1), (1, 2), (3, 4), (2 ** 53 - 1, 1), (2 ** 52, 1), (2 ** 53 - 1, 1024), (1, 1024)]:
        out.append(_case([[["f", k]]], u, "fbnd:1x1"))
        out.append(_case([[["f", k], None]], u, "fbnd:1x2-null"))
        out.append(_case([[["f", k], ["f", 0]], [["f", 0], ["f", k]]], u, "fbnd:2x2"))
    # bool corner cases
    out.append(_case([[None, ["b", 1]]], 1, "bool:null-true"))
    out.append(_case([[None, ["b", 0]]], 1, "bool:null-false"))
    out.append(_case([[["b", 1], None], [None, ["b", 1]]], 1, "bool:diag"))
    out.append(_case([[["b", 1], ["b", 0]], [["b", 0], ["b", 1]]], 1, "bool:complete"))
    # degenerate shapes and fully empty tables
    for n in range(0, 4):
        for m in range(0, 4):
            if n == 0 or m == 0:
                out.append(_case([[] for _ in range(n)], 1, "shape:empty") | {"m": m})
            out.append(_case([[None] * m for _ in range(n)], 1, "allnull") | {"m": m})
    return out


def _dtype_cases(rng, extra):
    pts = sorted({0, 1, -1} | {s * (2 ** k) + d for k in (7, 8, 15, 16, 31, 32, 63, 64) for s in (1, -1) for d in (-1, 0, 1)})
    out = []
    for lo in pts:
        for hi in pts:
            if lo <= hi:
                out.append({"op": "dtype", "lo": lo, "hi": hi})
    rng.shuffle(out)
    out = out[:extra]
    for _ in range(extra // 4):
        lo = rng.randint(-2 ** rng.randint(1, 66), 2 ** rng.randint(1, 66))
        hi = lo + rng.randint(0, 2 ** rng.randint(1, 66))
        out.append({"op": "dtype", "lo": lo, "hi": hi})
    return out


def _exhaustive():
    out = []
    # all complete tables of shape <= 3x3 with weights in {0,1,2}  (int);  {0,1} (bool);  {0, 1/2, 2} (float)
    for n in range(1, 4):
        for m in range(1, 4):
            for vals in itertools.product((0, 1, 2), repeat=n * m):
                out.append(_case([[["i", vals[i * m + j]] for j in range(m)] for i in range(n)], 1, "exh:int-complete"))
            for vals in itertools.product((0, 1), repeat=n * m):
                out.append(_case([[["b", vals[i * m + j]] for j in range(m)] for i in range(n)], 1, "exh:bool-complete"))
    # all sparse patterns of shape <= 2x3 / 3x2 with weights in {0,1,5} (int), {F,T} (bool), {0,1/2,5/2} (float)
    for n, m in [(1, 1), (1, 2), (2, 1), (1, 3), (3, 1), (2, 2), (2, 3), (3, 2)]:
        for vals in itertools.product((None, 0, 1, 5), repeat=n * m):
            if all(v is not None for v in vals):
                continue
            out.append(_case([[(None if vals[i * m + j] is None else ["i", vals[i * m + j]]) for j in range(m)]
                              for i in range(n)], 1, "exh:int-sparse"))
            out.append(_case([[(None if vals[i * m + j] is None else ["f", vals[i * m + j]]) for j in range(m)]
                              for i in range(n)], 2, "exh:float-sparse"))
        for vals in itertools.product((None, 0, 1), repeat=n * m):
            if all(v is not None for v in vals):
                continue
            out.append(_case([[(None if vals[i * m + j] is None else ["b", vals[i * m + j]]) for j in range(m)]
                              for i in range(n)], 1, "exh:bool-sparse"))
    for n, m in [(1, 1), (1, 2), (2, 1), (2, 2), (2, 3), (3, 2)]:
        for vals in itertools.product((0, 1, 4), repeat=n * m):
            out.append(_case([[["f", vals[i * m + j]] for j in range(m)] for i in range(n)], 2, "exh:float-complete"))
    return out


def gen(rng, tier):
    quick = tier == "quick"
    cases = []
    cases += _boundary_cases(rng)
    cases += _dtype_cases(rng, 300 if quick else 4000)
    for _ in range(1500 if quick else 30000):
        cases.append(_rand_case(rng))
    for _ in range(120 if quick else 2500):
        cases.append(_mixed_case(rng))
    for _ in range(60 if quick else 1500):
        cases.append(_rand_case(rng, big=True))
    # tall tables whose column counts / sums cross 8- and 16-bit limits (sentinel = column sum + 1)
    for nrow, ty in ((254, "b"), (255, "b"), (256, "b"), (300, "b"), (255, "i"), (256, "i"), (300, "i")) if quick else \
            ((254, "b"), (255, "b"), (256, "b"), (257, "b"), (300, "b"), (600, "b"), (255, "i"), (256, "i"), (300, "i"), (66000, "i")):
        for mcol in (2, 3):
            cells = [[[ty, 1] for _ in range(mcol)] for _ in range(nrow)]
            cases.append(_case([list(r) for r in cells], 1, f"tall:{ty}:complete"))
            cells2 = [list(r) for r in cells]
            cells2[rng.randrange(nrow)][rng.randrange(mcol)] = None
            cases.append(_case(cells2, 1, f"tall:{ty}:one-missing"))
    if not quick:
        cases += _exhaustive()
    return cases


# ------------------------------------------------------------------------------------------------
# reporting helpers


def classify(case, obs):
    if case["op"] == "dtype":
        return "dtype:" + str(obs.get("dtype") if isinstance(obs, dict) else "?")
    fx = _facts(case)
    n, m = case["n"], case["m"]
    if n == 0 or m == 0:
        shape = "0xk"
    else:
        k = min(n, m)
        shape = ("sq" if n == m else "wide" if n < m else "tall") + \
                ("1" if k == 1 else "2-3" if k <= 3 else "4-6" if max(n, m) <= 6 else "big")
    ty = "+".join(sorted(fx["types"])) or "none"
    sp = "complete" if fx["missing"] == 0 else ("allnull" if not fx["vals"] else "sparse")
    if isinstance(obs, dict) and obs.get("error"):
        out = "crash"
    elif "raised" in obs:
        out = obs["raised"]
    else:
        out = str(obs.get("dtype"))
    ties = ""
    if fx["vals"] and len(set(fx["vals"])) < len(fx["vals"]):
        ties = ":ties"
    return f"{shape}:{ty}:{sp}:{out}{ties}"


def nontrivial(case, obs):
    if case["op"] == "dtype":
        return True
    return case["n"] > 0 and case["m"] > 0 and any(c is not None for row in case["cells"] for c in row)


def shrink(case):
    if case["op"] != "match":
        return
    n, m, cells = case["n"], case["m"], case["cells"]
    for i in range(n):
        yield dict(case, n=n - 1, cells=[r for k, r in enumerate(cells) if k != i])
    for j in range(m):
        yield dict(case, m=m - 1, cells=[[c for k, c in enumerate(r) if k != j] for r in cells])
    for i in range(n):
        for j in range(m):
            c = cells[i][j]
            if c is not None and c[1] != 0:
                for v in {0, c[1] // 2, c[1] - 1 if c[1] > 0 else c[1] + 1}:
                    if v != c[1]:
                        new = [list(r) for r in cells]
                        new[i][j] = [c[0], v]
                        yield dict(case, cells=new)

"""Stream `astdata` (C18, monitor only): plain data through the two remaining routes into the Python-object builders —
`pydiff.ast_to_tree` on the parsed `repr()` of the value (what the pickle loader does with fickling's AST) and the pickle
file type itself.  The tree must stand for the same data as the one `BasicBuilder` builds from the object: `to_obj()`
equal to the value (tuples read back as lists), for every dictionary strategy.

Case: {"d": JSON-like document, "tuples": bool, "opts": {...}}"""
import json

from . import script as S

NAME = "astdata"


def gen(rng, tier):
    cases = []
    forced = [{"a": 1, "b": 2}, {"a": {"b": 1, "c": 2}, "d": [1, 2]}, [{"x": 1, "y": 2, "z": 3}], {"k": "v"}, {}, [], {"a": None, "b": True, "c": 1.5},
              {"one": 1, "two": "2", "three": [3]}]
    for d in forced:
        for o in S.OPT_SETS[:3]:
            for tup in (False, True):
                cases.append({"d": d, "tuples": tup, "opts": o})
    for _ in range(60 if tier == "quick" else 1500):
        cases.append({"d": S.gen_doc(rng), "tuples": rng.random() < 0.4, "opts": rng.choice(S.OPT_SETS[:3])})
    return cases


def _tuplify(x):
    if isinstance(x, list):
        return tuple(_tuplify(c) for c in x)
    if isinstance(x, dict):
        return {k: _tuplify(v) for k, v in x.items()}
    return x


def _plain(x):
    if isinstance(x, (list, tuple)):
        return [_plain(c) for c in x]
    if isinstance(x, dict):
        return {("k:" + repr(k)): _plain(v) for k, v in sorted(x.items(), key=lambda kv: repr(kv[0]))}
    return [type(x).__name__, repr(x)]


def impl(case):
    import ast, os, pickle, shutil, tempfile
    import graphtage
    from graphtage import pydiff
    from graphtage.builder import BasicBuilder
    from graphtage.printer import DEFAULT_PRINTER
    DEFAULT_PRINTER.quiet = True
    d = _tuplify(case["d"]) if case.get("tuples") else case["d"]
    o = graphtage.BuildOptions(**case.get("opts", {}))
    out = {"want": _plain(d)}

    def grab(name, f):
        try:
            out[name] = _plain(f())
        except Exception as e:
            out[name] = "EXC:" + type(e).__name__ + ":" + str(e)[:80]
    grab("basic", lambda: BasicBuilder(o).build_tree(d).to_obj())
    class Neg(ast.NodeTransformer):           # repr(-1) parses as UnaryOp(USub, 1); a pickle holds the constant -1
        def visit_UnaryOp(self, node):
            if isinstance(node.op, ast.USub) and isinstance(node.operand, ast.Constant):
                return ast.copy_location(ast.Constant(-node.operand.value), node)
            return node
    grab("ast", lambda: pydiff.ast_to_tree(Neg().visit(ast.parse(repr(d))).body[0].value, o).to_obj())
    tmp = tempfile.mkdtemp(prefix="gtverif_")
    try:
        p = os.path.join(tmp, "a.pkl")
        with open(p, "wb") as fh:
            fh.write(pickle.dumps(d))

        def pk():
            t = graphtage.FILETYPES_BY_TYPENAME["pickle"].build_tree(p, o).to_obj()
            return t[0]["value"]
        grab("pickle", pk)
    finally:
        shutil.rmtree(tmp, ignore_errors=True)
    return out


def monitor(case, obs):
    if not isinstance(obs, dict):
        return [{"prop": "C18", "key": "bad-observation", "what": repr(obs)[:200]}]
    if obs.get("error"):
        return [{"prop": "C18", "key": "internal-error:" + str(obs.get("exc", obs["error"])), "what": f"{obs.get('exc')}: {obs.get('msg', '')}"}]
    hits = []
    shown = json.dumps(case["d"])[:200] + (" (lists as tuples)" if case.get("tuples") else "")
    for route in ("basic", "ast", "pickle"):
        got = obs.get(route)
        if isinstance(got, str) and got.startswith("EXC:"):
            hits.append({"prop": "C18", "key": f"astdata:{route}:raises:{got.split(':')[1]}", "what": f"{shown}: building through {route} raised {got[4:]}"})
        elif got != obs["want"]:
            hits.append({"prop": "C18", "key": f"astdata:{route}:to_obj-differs", "what": f"{shown}: the tree built through {route} stands for {json.dumps(got)[:300]}"})
    return hits


def classify(case, obs):
    d = case["d"]
    return ("dict" if isinstance(d, dict) else "list" if isinstance(d, list) else "scalar") + (":tuples" if case.get("tuples") else "")


def nontrivial(case, obs):
    return isinstance(case["d"], (dict, list)) and len(case["d"]) > 1

"""Stream `bounded` (property C17): graphtage.bounds.BoundedComparator / min_bounded / make_distinct / sort and
graphtage.search.IterativeTighteningSearch on synthetic instrumented `Bounded` items.

An item is an arbitrary finite *trajectory*: a list of ranges [lo, hi] ("-inf"/"inf" allowed), each strictly inside the
previous one, ending in a point.  The item's state is a position; `bounds()` is the range at the position,
`tighten_bounds()` advances one position and returns True, or returns False at the last position.

case = {"op": ..., "items": [traj, ...], "flag": bool, "ib": [lo, hi] | None}
ops:  lt, le            two items; flag = "the comparator wrapping item 0 has the smaller id()"
      min               bounds.min_bounded
      distinct          bounds.make_distinct
      sort              bounds.sort
      search            IterativeTighteningSearch(...).search()     (ib = initial_bounds or None)
      steps             the same loop written out, observing bounds()/best_match/goal_test() after every call
      drain             the ordering loop from the docstring of remove_best
Things the model cannot predict are recorded and shipped as oracle answers (validated by the model):
      id() order of comparators; intervaltree set iteration choices in make_distinct; the comparison transcript of
      the Fibonacci heap in sort; the heap's new minimum after a pop in the search heaps.
"""
import itertools

NAME = "bounded"
PROP = "C17"
VMAX = 6
MODEL_SKIP = set()     # ops the Lean model does not cover (yet)

# ------------------------------------------------------------------------------------------------------------------
# trajectories


def _lt(a, b):
    if a == b:
        return False
    if a == "-inf" or b == "inf":
        return True
    if a == "inf" or b == "-inf":
        return False
    return a < b


def _le(a, b):
    return a == b or _lt(a, b)


def final_of(traj):
    """final cost of a converging trajectory, None if it does not end in a point"""
    lo, hi = traj[-1]
    if lo == hi and not isinstance(lo, str):
        return lo
    return None


def traj_valid(traj):
    """nested, strictly shrinking, ends in a point"""
    if not traj or final_of(traj) is None:
        return False
    for (l0, h0), (l1, h1) in zip(traj, traj[1:]):
        if not (_le(l0, l1) and _le(h1, h0) and (l0, h0) != (l1, h1)):
            return False
    return all(_le(l, h) for l, h in traj)


def gen_traj(rng, vmax=VMAX, inf_p=0.0, style=None):
    v = rng.randint(0, vmax)
    style = style or rng.choice(["fast", "slowlo", "slowhi", "rand", "rand", "point", "lo1st", "hi1st"])
    if style == "point":
        return [[v, v]]
    lo = "-inf" if rng.random() < inf_p else rng.randint(0, v)
    hi = "inf" if rng.random() < inf_p else rng.randint(v, vmax)
    traj = [[lo, hi]]
    while (lo, hi) != (v, v):
        nlo, nhi = lo, hi
        if lo == "-inf" or hi == "inf":
            # leave infinity: possibly one end at a time
            r = rng.random()
            if lo == "-inf" and (hi != "inf" or r < 0.6):
                nlo = rng.randint(0, v)
            if hi == "inf" and (lo != "-inf" or r > 0.3):
                nhi = rng.randint(v, vmax)
        elif style == "fast":
            nlo, nhi = v, v
        elif style in ("slowlo", "lo1st"):
            if lo < v:
                nlo = lo + 1 if style == "slowlo" else v
            else:
                nhi = hi - 1
        elif style in ("slowhi", "hi1st"):
            if hi > v:
                nhi = hi - 1 if style == "slowhi" else v
            else:
                nlo = lo + 1
        else:
            while (nlo, nhi) == (lo, hi):
                nlo, nhi = rng.randint(lo, v), rng.randint(v, hi)
        lo, hi = nlo, nhi
        traj.append([lo, hi])
    return traj


def all_trajs(vmax, maxlen=None):
    """every valid finite-bounds trajectory over 0..vmax (optionally at most maxlen ranges)"""
    res = []

    def rec(path):
        lo, hi = path[-1]
        if lo == hi:
            res.append([list(p) for p in path])
            return
        if maxlen is not None and len(path) >= maxlen:
            return
        for nlo in range(lo, hi + 1):
            for nhi in range(nlo, hi + 1):
                if (nlo, nhi) != (lo, hi):
                    rec(path + [(nlo, nhi)])

    for lo in range(vmax + 1):
        for hi in range(lo, vmax + 1):
            rec([(lo, hi)])
    return res


def _items(rng, n, inf_p=0.0, nonconv=False):
    items = []
    for _ in range(n):
        r = rng.random()
        if items and r < 0.15:
            items.append([list(x) for x in rng.choice(items)])          # identical trajectory
        elif items and r < 0.25:
            base = rng.choice(items)                                    # identical interval, different future
            t = gen_traj(rng, inf_p=0.0, style="rand")
            t2 = [list(base[0])] + [x for x in t if _le(base[0][0], x[0]) and _le(x[1], base[0][1]) and x != base[0]]
            items.append(t2 if traj_valid(t2) else t)
        else:
            items.append(gen_traj(rng, inf_p=inf_p))
    if nonconv and items:
        k = rng.randrange(len(items))
        t = items[k]
        cut = rng.randint(1, len(t))
        if cut < len(t):
            items[k] = t[:cut]
        if rng.random() < 0.5 and len(items) > 1:
            items[(k + 1) % len(items)] = [list(x) for x in items[k]]
    return items


OPS = ["lt", "le", "min", "distinct", "sort", "search", "steps", "drain"]


_SORT_N = [0]


def _case(op, items, flag=False, ib=None):
    if op == "sort":
        # every other sort case hands bounds.sort a one-shot generator instead of a list (see impl)
        _SORT_N[0] += 1
        flag = _SORT_N[0] % 2 == 0
    return {"op": op, "items": items, "flag": bool(flag), "ib": ib}


def edge_cases():
    P = lambda v: [[v, v]]
    cs = []
    for op in ["min", "distinct", "sort", "search", "steps", "drain"]:
        cs.append(_case(op, []))
        cs.append(_case(op, [P(3)]))
        cs.append(_case(op, [[[0, 6], [2, 2]]]))
        cs.append(_case(op, [P(2), P(2)]))
        cs.append(_case(op, [P(2), P(2), P(2)]))
        cs.append(_case(op, [P(4), P(1), P(3), P(1)]))
        cs.append(_case(op, [[[0, 6], [3, 3]], [[0, 6], [3, 3]]]))
        cs.append(_case(op, [[[0, 6], [3, 3]], [[0, 6], [3, 3]], [[0, 6], [3, 3]]]))
        cs.append(_case(op, [[[0, 6], [0, 5], [0, 4], [0, 3], [0, 2], [0, 1], [0, 0]], [[0, 6], [1, 6], [2, 6], [3, 6], [4, 6], [5, 6], [6, 6]]]))
        cs.append(_case(op, [[[1, 5], [1, 4], [1, 3], [2, 3], [3, 3]], [[1, 5], [2, 5], [3, 5], [3, 4], [3, 3]], [[3, 3]]]))
        cs.append(_case(op, [[[2, 6], [2, 4], [2, 2]], [[3, 5], [3, 4], [3, 3]], [[0, 3], [2, 3], [3, 3]]]))
        cs.append(_case(op, [[["-inf", "inf"], [0, 6], [1, 1]], [[2, 5], [3, 3]]]))
        cs.append(_case(op, [[["-inf", "inf"], ["-inf", 6], [0, 6], [1, 1]], [[2, "inf"], [2, 5], [3, 3]]]))
    for op in ["lt", "le"]:
        for flag in (False, True):
            cs.append(_case(op, [P(2), P(2)], flag))
            cs.append(_case(op, [P(1), P(2)], flag))
            cs.append(_case(op, [P(2), P(1)], flag))
            cs.append(_case(op, [[[0, 6], [3, 3]], [[0, 6], [3, 3]]], flag))
            cs.append(_case(op, [[[0, 3], [3, 3]], [[3, 6], [3, 3]]], flag))
            cs.append(_case(op, [[[3, 6], [3, 3]], [[0, 3], [3, 3]]], flag))
            cs.append(_case(op, [[[1, 3]], [[1, 3]]], flag))            # non-converging: the id() tie-break decides
            cs.append(_case(op, [[[1, 3]], [[2, 4], [2, 3]]], flag))
            cs.append(_case(op, [[["-inf", "inf"]], [["-inf", "inf"]]], flag))
    cs.append(_case("min", [[[1, 3]], [[1, 3]], [[1, 3]]]))
    # initial_bounds (outside C17's statement; correspondence only)
    for op in ["search", "steps", "drain"]:
        cs.append(_case(op, [[[3, 5], [3, 3]]], ib=[0, 3]))
        cs.append(_case(op, [[[3, 5], [3, 3]], [[1, 6], [4, 4]]], ib=[3, 6]))
        cs.append(_case(op, [[[1, 5], [2, 2]], [[0, 6], [1, 1]]], ib=[2, 6]))
        cs.append(_case(op, [[[1, 5], [2, 2]], [[0, 6], [1, 1]]], ib=["-inf", 4]))
        cs.append(_case(op, [[[1, 5], [1, 3], [2, 2]], [[0, 6], [1, 1]]], ib=[0, "inf"]))
    return cs


def gen(rng, tier):
    cases = list(edge_cases())
    n_rand = 2200 if tier == "quick" else 60000
    for _ in range(n_rand):
        op = rng.choice(OPS)
        r = rng.random()
        if op in ("lt", "le"):
            items = _items(rng, 2, inf_p=0.15 if r < 0.3 else 0.0, nonconv=r > 0.9)
            cases.append(_case(op, items, rng.random() < 0.5))
            continue
        n = rng.choice([1, 2, 2, 3, 3, 3, 4, 4, 5, 6])
        if op == "min":
            items = _items(rng, n, inf_p=0.15 if r < 0.3 else 0.0, nonconv=r > 0.92)
        elif op == "distinct":
            items = _items(rng, n, inf_p=0.12 if r < 0.25 else 0.0)
        else:
            items = _items(rng, n, inf_p=0.15 if r < 0.3 else 0.0)
        ib = None
        if op in ("search", "steps", "drain") and rng.random() < 0.12:
            a, b = sorted([rng.randint(0, VMAX), rng.randint(0, VMAX)])
            ib = [a if rng.random() < 0.8 else "-inf", b if rng.random() < 0.8 else "inf"]
        cases.append(_case(op, items, False, ib))
    if tier == "thorough":
        # exhaustive small scope: every pair of trajectories over 0..3, every triple over 0..2 (lengths unbounded),
        # every triple of trajectories of at most 3 ranges over 0..3
        t3 = all_trajs(3)
        for a in t3:
            for b in t3:
                for op in ("lt", "le"):
                    cases.append(_case(op, [a, b], False))
                for op in ("min", "distinct", "sort", "steps", "drain"):
                    cases.append(_case(op, [a, b]))
        t2 = all_trajs(2)
        for a, b, c in itertools.product(t2, repeat=3):
            for op in ("min", "distinct", "sort", "steps", "drain"):
                cases.append(_case(op, [a, b, c]))
        t3s = all_trajs(3, maxlen=3)
        for a, b, c in itertools.product(t3s, repeat=3):
            for op in ("distinct", "sort", "steps"):
                cases.append(_case(op, [a, b, c]))
    return cases


# ------------------------------------------------------------------------------------------------------------------
# running the real code


def _conv(x):
    from graphtage.bounds import NEGATIVE_INFINITY, POSITIVE_INFINITY
    return NEGATIVE_INFINITY if x == "-inf" else POSITIVE_INFINITY if x == "inf" else x


def _unconv(x):
    from graphtage.bounds import Infinity
    if isinstance(x, Infinity):
        return "inf" if x.positive else "-inf"
    return int(x)


def _rj(r):
    return [_unconv(r.lower_bound), _unconv(r.upper_bound)]


class _Item:
    """instrumented synthetic Bounded item (identity equality / hash)"""

    def __init__(self, idx, traj):
        from graphtage.bounds import Range
        self.idx = idx
        self.ranges = [Range(_conv(lo), _conv(hi)) for lo, hi in traj]
        self.pos = 0
        self.calls = 0

    def bounds(self):
        return self.ranges[self.pos]

    def tighten_bounds(self):
        self.calls += 1
        if self.pos + 1 < len(self.ranges):
            self.pos += 1
            return True
        return False

    def __repr__(self):
        return f"I{self.idx}@{self.pos}"


class _CountdownItem(_Item):
    """a Bounded item that also has a LENGTH = the refinement steps it has left (like graphtage's own edit
    collections, which define __len__): it is FALSY once converged.  No result may depend on an item's truth value."""

    def __len__(self):
        return len(self.ranges) - 1 - self.pos


class _FalsyItem(_Item):
    """a Bounded item whose truth value is always False (like a converged IterativeTighteningSearch)"""

    def __bool__(self):
        return False


def _mk_item(i, t, case):
    # deterministic per case: the kind of every item derives from the case content
    k = (len(case["items"]) * 7 + i * 3 + len(t) + (1 if case.get("flag") else 0)) % 4
    return (_Item, _CountdownItem, _FalsyItem, _Item)[k](i, t)


def _state(items):
    return {"pos": [it.pos for it in items], "calls": [it.calls for it in items]}


def impl(case):
    import graphtage.bounds as B
    import graphtage.search as S
    op = case["op"]
    items = [_mk_item(i, t, case) for i, t in enumerate(case["items"])]
    obs = {}
    if op in ("lt", "le"):
        c1, c2 = sorted([B.BoundedComparator(None), B.BoundedComparator(None)], key=id)
        ca, cb = (c1, c2) if case["flag"] else (c2, c1)
        ca.bounded, cb.bounded = items[0], items[1]
        obs["idlt"] = id(ca) < id(cb)
        obs["res"] = bool(ca < cb) if op == "lt" else bool(ca <= cb)
    elif op in ("min", "sort"):
        log = []
        orig = B.BoundedComparator

        class RecComparator(orig):
            def __lt__(self, other):
                res = orig.__lt__(self, other)
                log.append([self.bounded.idx, other.bounded.idx, id(self) < id(other), bool(res)])
                return res

        B.BoundedComparator = RecComparator
        try:
            if op == "min":
                r = B.min_bounded(iter(items))
                obs["res"] = None if r is None else r.idx
                obs["cmps"] = log
            else:
                out = []
                ev = []
                # `sort` takes any Iterable: half of the cases hand it a one-shot generator instead of the list
                for x in B.sort((y for y in items) if case.get("flag") else items):
                    ev.extend(["c"] + c for c in log)
                    del log[:]
                    ev.append(["p", x.idx])
                    out.append(x.idx)
                ev.extend(["c"] + c for c in log)
                obs["out"] = out
                obs["ev"] = ev
        finally:
            B.BoundedComparator = orig
    elif op == "distinct":
        ev = []
        orig = B.IntervalTree

        class RecTree(orig):
            def remove(self, interval):
                ev.append(["rm", interval.data.idx])
                return orig.remove(self, interval)

            def __getitem__(self, index):
                r = orig.__getitem__(self, index)
                ev.append(["q", len(r)])
                return r

        B.IntervalTree = RecTree
        try:
            try:
                B.make_distinct(*items)
                obs["err"] = None
            except ValueError:
                obs["err"] = "ValueError"
        finally:
            B.IntervalTree = orig
        obs["ev"] = ev
    elif op in ("search", "steps", "drain"):
        orc = []
        orig = S.FibonacciHeap
        heaps = []

        class RecHeap(orig):
            def __init__(self, *a, **k):
                orig.__init__(self, *a, **k)
                self._tag = "ut"[len(heaps)] if len(heaps) < 2 else "x"
                heaps.append(self)

            def pop(self):
                r = orig.pop(self)
                orc.append([self._tag, None if self._min is None else self._min.item.idx])
                return r

        S.FibonacciHeap = RecHeap
        try:
            ib = None
            if case.get("ib") is not None:
                ib = B.Range(_conv(case["ib"][0]), _conv(case["ib"][1]))
            s = S.IterativeTighteningSearch(iter(items), initial_bounds=ib)

            def snap(ret):
                bm = s.best_match
                return [ret, _rj(s.bounds()), None if bm is None else bm.idx, bool(s.goal_test())]

            if op == "search":
                r = s.search()
                obs["res"] = None if r is None else r.idx
                obs["bounds"] = _rj(s.bounds())
            elif op == "steps":
                steps = [snap(None)]
                while True:
                    ret = bool(s.tighten_bounds())
                    steps.append(snap(ret))
                    if not ret:
                        break
                obs["steps"] = steps
                r = s.best_match
                obs["res"] = None if r is None else r.idx
                obs["bounds"] = _rj(s.bounds())
            else:
                out = []

                def rb():
                    x = s.remove_best()
                    out.append(None if x is None else x.idx)

                while s.tighten_bounds():
                    while not s.goal_test() and s.tighten_bounds():
                        pass
                    if s.goal_test():
                        rb()
                while s.goal_test():
                    rb()
                obs["out"] = out
        finally:
            S.FibonacciHeap = orig
        obs["orc"] = orc
    else:
        raise ValueError(op)
    obs.update(_state(items))
    return obs


# ------------------------------------------------------------------------------------------------------------------
# correspondence


def _bad(obs):
    return not isinstance(obs, dict) or bool(obs.get("error"))


def to_model(case, obs):
    if _bad(obs) or case["op"] in MODEL_SKIP:
        return None
    m = {"s": NAME, "op": case["op"], "items": case["items"], "ib": case.get("ib")}
    op = case["op"]
    if op in ("lt", "le"):
        m["idlt"] = obs["idlt"]
    elif op == "min":
        m["cmps"] = obs["cmps"]
    elif op in ("sort", "distinct"):
        m["ev"] = obs["ev"]
    else:
        m["orc"] = obs["orc"]
    return m


def expect(case, obs):
    if _bad(obs):
        return obs
    op = case["op"]
    e = {"pos": obs["pos"], "calls": obs["calls"]}
    if op in ("lt", "le"):
        e["res"] = obs["res"]
    elif op == "min":
        e["res"] = obs["res"]
        e["ncmp"] = len(obs["cmps"])
    elif op == "sort":
        e["out"] = obs["out"]
        e["justified"] = True
    elif op == "distinct":
        e["err"] = obs["err"]
        e["oracle"] = "ok"
    elif op == "search":
        e["res"] = obs["res"]
        e["bounds"] = obs["bounds"]
        e["oracle"] = "ok"
    elif op == "steps":
        e["res"] = obs["res"]
        e["bounds"] = obs["bounds"]
        e["steps"] = obs["steps"]
        e["oracle"] = "ok"
    elif op == "drain":
        e["out"] = obs["out"]
        e["oracle"] = "ok"
    return e


# ------------------------------------------------------------------------------------------------------------------
# monitor: C17's statement evaluated on the observation


def _hit(key, what):
    return {"prop": PROP, "key": key, "what": what}


def _cur(case, obs, i):
    return case["items"][i][obs["pos"][i]]


def _contains(outer, inner):
    return _le(outer[0], inner[0]) and _le(inner[1], outer[1])


def monitor(case, obs):
    hits = []
    op = case["op"]
    items = case["items"]
    if isinstance(obs, dict) and obs.get("error") == "hang":
        if all(traj_valid(t) for t in items):
            hits.append(_hit(op + "-hang", f"{op} did not terminate on converging items"))
        return hits
    if _bad(obs):
        if all(traj_valid(t) for t in items):
            hits.append(_hit(op + "-crash", f"{op} raised {obs.get('exc') if isinstance(obs, dict) else obs}"))
        return hits
    if not all(traj_valid(t) for t in items):
        return hits                      # outside the property's domain (non-converging items): correspondence only
    fin = [final_of(t) for t in items]
    n = len(items)
    # states only advance along the trajectories
    for i in range(n):
        if not (0 <= obs["pos"][i] < len(items[i])):
            hits.append(_hit(op + "-state", f"item {i} left its trajectory"))
            return hits
    if op == "lt":
        if obs["res"] and not fin[0] <= fin[1]:
            hits.append(_hit("lt-true", f"a<b answered True but final {fin[0]} > {fin[1]}"))
        if not obs["res"] and not fin[1] <= fin[0]:
            hits.append(_hit("lt-false", f"a<b answered False but final {fin[0]} < {fin[1]}"))
    elif op == "le":
        if obs["res"] != (fin[0] <= fin[1]):
            hits.append(_hit("le", f"a<=b answered {obs['res']} with finals {fin[0]}, {fin[1]}"))
    elif op == "min":
        if n == 0:
            if obs["res"] is not None:
                hits.append(_hit("min-empty", "min_bounded of nothing returned an item"))
        elif obs["res"] is None or fin[obs["res"]] != min(fin):
            hits.append(_hit("min-notmin", f"min_bounded returned item {obs['res']} finals {fin}"))
    elif op == "sort":
        out = obs["out"]
        if sorted(out) != list(range(n)):
            hits.append(_hit("sort-perm", f"sort output {out} is not a permutation of the {n} inputs"))
        elif any(fin[a] > fin[b] for a, b in zip(out, out[1:])):
            hits.append(_hit("sort-order", f"sort output finals {[fin[i] for i in out]} not non-decreasing"))
    elif op == "distinct":
        if obs["err"] is not None:
            # ValueError is the documented outcome when one tightening does not make an item finite
            return hits
        for i in range(n):
            for j in range(i + 1, n):
                a, b = _cur(case, obs, i), _cur(case, obs, j)
                adef = a[0] == a[1] and not isinstance(a[0], str)
                bdef = b[0] == b[1] and not isinstance(b[0], str)
                if not ((adef and bdef) or _lt(a[1], b[0]) or _lt(b[1], a[0])):
                    hits.append(_hit("distinct-post", f"items {i},{j} left at {a},{b}: overlapping and not both definitive"))
                    return hits
    elif op in ("search", "steps"):
        if case.get("ib") is not None:
            return hits                  # initial_bounds is outside C17's statement
        if n == 0:
            if obs["res"] is not None:
                hits.append(_hit("search-empty", "search over nothing returned an item"))
            return hits
        m = min(fin)
        if obs["res"] is None or fin[obs["res"]] != m:
            hits.append(_hit("search-notmin", f"search returned item {obs['res']}, finals {fin}"))
        if obs["bounds"] != [m, m]:
            hits.append(_hit("search-bounds", f"final bounds {obs['bounds']} != [{m},{m}]"))
        if op == "steps":
            prev = None
            for st in obs["steps"]:
                b = st[1]
                if not _contains(b, [m, m]):
                    hits.append(_hit("search-unsound", f"bounds {b} exclude the optimum {m}"))
                    break
                if prev is not None and not _contains(prev, b):
                    hits.append(_hit("search-widen", f"bounds widened from {prev} to {b}"))
                    break
                # C04 for the search as a bounded object (default initial bounds, convergent items): a step that reports
                # progress has strictly shrunk the interval; it reports none only on a single value
                if case.get("ib") is None and prev is not None and all(traj_valid(t) for t in case["items"]):
                    if st[0] is True and b == prev:
                        hits.append({"prop": "C04", "key": "search:progress-without-shrinking", "what": f"IterativeTighteningSearch over {case['items']}: a step reported progress but the interval stayed {b}"})
                        break
                    if st[0] is False and b[0] != b[1]:
                        hits.append({"prop": "C04", "key": "search:no-progress-on-interval", "what": f"IterativeTighteningSearch over {case['items']}: a step reported no progress while the interval is {b}"})
                        break
                prev = b
    elif op == "drain":
        if case.get("ib") is not None:
            return hits
        out = obs["out"]
        if None in out:
            hits.append(_hit("drain-none", f"remove_best returned None during the documented loop: {out}"))
    return hits


# ------------------------------------------------------------------------------------------------------------------
# reporting helpers


def classify(case, obs):
    items = case["items"]
    n = len(items)
    tags = [case["op"], f"n{n}"]
    if any(isinstance(x, str) for t in items for r in t for x in r):
        tags.append("inf")
    if not all(traj_valid(t) for t in items):
        tags.append("nonconv")
    else:
        fin = [final_of(t) for t in items]
        if len(set(fin)) < len(fin):
            tags.append("ties")
    if len(set(map(lambda t: tuple(t[0]), items))) < n:
        tags.append("sameiv")
    if case.get("ib") is not None:
        tags.append("ib")
    if isinstance(obs, dict) and obs.get("err"):
        tags.append("ValueError")
    return ",".join(tags)


def nontrivial(case, obs):
    return len(case["items"]) >= 2 and any(len(t) > 1 for t in case["items"])


def shrink(case):
    items = case["items"]
    for i in range(len(items)):
        if case["op"] in ("lt", "le"):
            break
        yield dict(case, items=items[:i] + items[i + 1:])
    for i, t in enumerate(items):
        for k in range(len(t) - 1):
            t2 = t[:k] + t[k + 1:]
            if t2:
                yield dict(case, items=items[:i] + [t2] + items[i + 1:])
    if case.get("ib") is not None:
        yield dict(case, ib=None)

"""Stream `build`: Python object graphs -> graphtage trees (model layer L6, property C18).

A case is an object graph given as a STORE (cell id -> payload; ids preserve sharing and cycles) plus a list
of runs (entry point x build options).  `impl` materialises the store as real Python objects, pushes the root
through `BasicBuilder().build_tree`, `graphtage.pydiff.build_tree` and `graphtage.json.build_tree`, and
records error class, a structural dump of the tree, `to_obj()`, `copy()`.

Oracle answers shipped to the model (things decided by CPython, not by graphtage):
  * iteration order of every set/frozenset in the worker process (`set_orders`),
  * per scalar: `eqc` (class of Python `==`), `str` (`str(obj)`), `num` (exact rational for int/float/bool),
    `dec` (utf-8 decoding of bytes or null) -- computed by `_scalar_cell` below.
"""
import dataclasses
import itertools
from fractions import Fraction

NAME = "build"

OPT_KEYS = ("ake", "amk", "ale", "alesl", "chk", "ign")


# --------------------------------------------------------------------------------------------------
# classes used for materialisation

class MyList(list):
    pass


class MyDict(dict):
    pass


class MyTuple(tuple):
    pass


class MyInt(int):
    pass


class MyStr(str):
    pass


class A:
    pass


class B:
    pass


@dataclasses.dataclass(eq=False)
class DC:
    x: object = None
    y: object = None


CUSTOM = {"A": A, "B": B, "DC": DC}
SUBS = {"list": MyList, "dict": MyDict, "tuple": MyTuple, "int": MyInt, "str": MyStr}
SCALARS = ("int", "bool", "float", "str", "bytes", "none")


def _tname(c):
    return c.__name__ if c.__module__ == "builtins" else "verif." + c.__qualname__


def _mro(obj):
    return [_tname(c) for c in type(obj).__mro__]


# --------------------------------------------------------------------------------------------------
# scalars

def _scalar_decode(t, v, sub=False):
    if t == "int":
        return MyInt(int(v)) if sub else int(v)
    if t == "bool":
        return v == "True"
    if t == "float":
        return float.fromhex(v)
    if t == "str":
        return MyStr(v) if sub else v
    if t == "bytes":
        return bytes.fromhex(v)
    if t == "none":
        return None
    raise ValueError(t)


def _scalar_kind(obj):
    if obj is None:
        return "none"
    if isinstance(obj, bool):
        return "bool"
    if isinstance(obj, int):
        return "int"
    if isinstance(obj, float):
        return "float"
    if isinstance(obj, str):
        return "str"
    if isinstance(obj, bytes):
        return "bytes"
    return None


def _scalar_text(obj):
    k = _scalar_kind(obj)
    if k == "int":
        return str(int(obj))
    if k == "bool":
        return "True" if obj else "False"
    if k == "float":
        return float(obj).hex()
    if k == "str":
        return str.__str__(obj)
    if k == "bytes":
        return bytes(obj).hex()
    return ""


def _scalar_cell(obj):
    k = _scalar_kind(obj)
    cell = {"t": k, "v": _scalar_text(obj), "mro": _mro(obj), "str": str(obj), "num": None, "dec": None,
            "sub": type(obj) in (MyInt, MyStr)}
    if k in ("int", "bool", "float"):
        fr = Fraction(obj)
        cell["num"] = [fr.numerator, fr.denominator]
        cell["eqc"] = "n:%d/%d" % (fr.numerator, fr.denominator)
    elif k == "str":
        cell["eqc"] = "s:" + cell["v"]
    elif k == "bytes":
        cell["eqc"] = "b:" + cell["v"]
        try:
            cell["dec"] = bytes(obj).decode("utf-8")
        except UnicodeDecodeError:
            cell["dec"] = None
    else:
        cell["eqc"] = "none"
    return cell


# --------------------------------------------------------------------------------------------------
# store <-> objects

def _custom_attrs(obj):
    return [a for a in dir(obj) if not (a.startswith("__") and a.endswith("__"))]


def extract(root):
    """Real object graph -> store.  Containers/custom objects are identified by id(); every scalar slot is
    a fresh cell (identity of scalars is never consulted by the builders)."""
    store = []
    ids = {}
    keep = []

    def visit(obj):
        k = _scalar_kind(obj)
        if k is not None:
            store.append(_scalar_cell(obj))
            return len(store) - 1
        if id(obj) in ids:
            return ids[id(obj)]
        keep.append(obj)
        me = len(store)
        ids[id(obj)] = me
        cell = {"mro": _mro(obj)}
        store.append(cell)
        if isinstance(obj, dict):
            cell["t"] = "dict"
            cell["sub"] = type(obj) is not dict
            items = list(obj.items())
            ks = [visit(k_) for k_, _ in items]
            vs = [visit(v_) for _, v_ in items]
            cell["v"] = [[a, b] for a, b in zip(ks, vs)]
        elif isinstance(obj, (list, tuple, set, frozenset)):
            cell["t"] = ("list" if isinstance(obj, list) else "tuple" if isinstance(obj, tuple)
                         else "set" if isinstance(obj, set) else "frozenset")
            cell["sub"] = type(obj) not in (list, tuple, set, frozenset)
            members = list(obj)
            if isinstance(obj, (set, frozenset)):
                # canonical cell numbering for sets (the real iteration order is an oracle answer, see impl)
                sc = sorted((x for x in members if _scalar_kind(x) is not None),
                            key=lambda x: (_scalar_kind(x), _scalar_text(x)))
                members = sc + [x for x in members if _scalar_kind(x) is None]
            cell["v"] = [visit(x) for x in members]
        else:
            cell["t"] = "custom"
            cell["cls"] = type(obj).__name__
            cell["sub"] = False
            names = _custom_attrs(obj)
            cell["v"] = [[n, visit(getattr(obj, n))] for n in names]
        return me

    r = visit(root)
    assert r == 0
    return store


def materialise(store, root=0):
    """Store -> real Python objects.  Returns (root object, {cell id: object})."""
    objs = {}

    def mutable(c):
        return c["t"] in ("list", "dict", "set", "custom")

    for i, c in enumerate(store):
        t = c["t"]
        if t == "list":
            objs[i] = MyList() if c.get("sub") else []
        elif t == "dict":
            objs[i] = MyDict() if c.get("sub") else {}
        elif t == "set":
            objs[i] = set()
        elif t == "custom":
            objs[i] = CUSTOM[c["cls"]]()
        elif t in SCALARS:
            objs[i] = _scalar_decode(t, c["v"], c.get("sub", False))
    busy = set()

    def imm(i):
        if i in objs:
            return objs[i]
        if i in busy:
            raise ValueError("cycle through immutable objects only")
        busy.add(i)
        c = store[i]
        members = [imm(j) for j in c["v"]]
        if c["t"] == "tuple":
            objs[i] = MyTuple(members) if c.get("sub") else tuple(members)
        elif c["t"] == "frozenset":
            objs[i] = frozenset(members)
        else:
            raise ValueError(c["t"])
        busy.discard(i)
        return objs[i]

    for i in range(len(store)):
        imm(i)
    for i, c in enumerate(store):
        t = c["t"]
        if t == "list":
            objs[i].extend(objs[j] for j in c["v"])
        elif t == "dict":
            for k, v in c["v"]:
                objs[i][objs[k]] = objs[v]
        elif t == "set":
            for j in c["v"]:
                objs[i].add(objs[j])
        elif t == "custom":
            for n, j in c["v"]:
                setattr(objs[i], n, objs[j])
    return objs[root], objs


def _strip(store):
    """The part of the store that must survive a materialise/extract round trip (set order excluded)."""
    out = []
    for c in store:
        d = dict(c)
        if d["t"] in ("set", "frozenset"):
            d["v"] = "set"
        out.append(d)
    return out


def normalise_store(store):
    """Materialise and re-extract: the result is the store of the object graph Python really builds
    (equal keys collapsed, unreachable cells dropped, forced sharing of () applied).  None if impossible."""
    try:
        root, _ = materialise(store)
        return extract(root)
    except Exception:
        return None


# --------------------------------------------------------------------------------------------------
# store analysis (harness side, independent of graphtage and of the Lean model)

def children_of(store, i):
    c = store[i]
    t = c["t"]
    if t in SCALARS:
        return []
    if t == "dict":
        return [k for k, _ in c["v"]] + [v for _, v in c["v"]]
    if t == "custom":
        # attributes whose name starts with "__" are not part of the value pydiff looks at
        return [j for n, j in c["v"] if not n.startswith("__")]
    return list(c["v"])


def has_cycle(store, root=0):
    """Is a cycle reachable from root (iterative three-colour DFS)."""
    colour = {}
    stack = [(root, iter(children_of(store, root)))]
    colour[root] = 1
    while stack:
        node, it = stack[-1]
        for ch in it:
            if colour.get(ch, 0) == 1:
                return True
            if colour.get(ch, 0) == 0:
                colour[ch] = 1
                stack.append((ch, iter(children_of(store, ch))))
                break
        else:
            colour[node] = 2
            stack.pop()
    return False


def store_features(store):
    ts = [c["t"] for c in store]
    f = set()
    if "custom" in ts:
        f.add("custom")
    if "set" in ts or "frozenset" in ts:
        f.add("set")
    if "bytes" in ts:
        f.add("bytes")
    refs = {}
    for i, c in enumerate(store):
        for j in children_of(store, i):
            if store[j]["t"] not in SCALARS:
                refs[j] = refs.get(j, 0) + 1
    if any(n > 1 for n in refs.values()):
        f.add("shared")
    for c in store:
        if c["t"] == "dict":
            for k, _ in c["v"]:
                kt = store[k]["t"]
                if kt not in SCALARS:
                    f.add("ckey")
                if kt != "str":
                    f.add("nonstrkey")
        if c["t"] in ("set", "frozenset"):
            for j in c["v"]:
                if store[j]["t"] not in SCALARS:
                    f.add("cmember")
        if c.get("sub"):
            f.add("subclass")
    return f


def norm_value(store, i, json_mode=False):
    """Independent normalisation of the ORIGINAL object graph (acyclic only): the value `to_obj()` must have.
    tuples -> lists, sets -> multisets, custom -> {class: {attr: value}}.  Returned as an order-free key."""
    c = store[i]
    t = c["t"]
    if t in SCALARS:
        return ("s", t, c["v"])
    if t in ("list", "tuple"):
        return ("l", tuple(norm_value(store, j, json_mode) for j in c["v"]))
    if t in ("set", "frozenset"):
        return ("m", tuple(sorted((norm_value(store, j, json_mode) for j in c["v"]), key=repr)))
    if t == "dict":
        return ("d", tuple(sorted(((norm_value(store, k, json_mode), norm_value(store, v, json_mode))
                                   for k, v in c["v"]), key=repr)))
    if t == "custom":
        attrs = tuple(sorted(((("s", "str", n), norm_value(store, j, json_mode))
                              for n, j in c["v"] if not n.startswith("__")), key=repr))
        return ("d", ((("s", "str", c["cls"]), ("d", attrs)),))
    raise ValueError(t)


def obj_key(d):
    """Order-free key of a `to_obj()` dump (see _dump_obj)."""
    tag = d[0]
    if tag == "s":
        return ("s", d[1], d[2])
    if tag == "l":
        return ("l", tuple(obj_key(x) for x in d[1]))
    if tag == "m":
        return ("m", tuple(sorted((obj_key(x) for x in d[1]), key=repr)))
    if tag == "d":
        return ("d", tuple(sorted(((obj_key(k), obj_key(v)) for k, v in d[1]), key=repr)))
    return tuple(d) if isinstance(d, list) else d


# --------------------------------------------------------------------------------------------------
# generation

_INTS = [0, 1, 2, 3, -1, 7, 10 ** 20]
_FLOATS = [0.5, -2.5, 1.0, 0.0, 1e300, 2.0]
_STRS = ["", "a", "b", "ab", "1", "True", "None", "x y"]
_BYTES = [b"", b"a", b"ab", b"\xff"]


def _rand_scalar(rng, nobytes=False, stronly=False):
    if stronly:
        return rng.choice(_STRS + ["k", "key2", "z"])
    r = rng.random()
    if nobytes and 0.85 <= r < 0.92:
        r = 0.5
    if r < 0.35:
        return rng.choice(_INTS)
    if r < 0.45:
        return rng.choice([True, False])
    if r < 0.55:
        return rng.choice(_FLOATS)
    if r < 0.85:
        return rng.choice(_STRS)
    if r < 0.92:
        return rng.choice(_BYTES)
    if r < 0.94:
        return rng.choice([MyInt(5), MyStr("sub")])
    return None


def _gen_store(rng, n_containers, profile):
    """Cells are generated children-first (high id = deep), so hashability is known when a parent picks
    keys / set members; back edges (cycles) are added afterwards from mutable slots only."""
    p_custom = profile.get("custom", 0.0)
    p_set = profile.get("set", 0.1)
    p_ckey = profile.get("ckey", 0.05)
    p_share = profile.get("share", 0.3)
    max_slots = profile.get("slots", 3)
    strkeys = profile.get("strkeys", False)
    nobytes = profile.get("nobytes", False)
    kinds = []
    cells = [None] * n_containers
    hashable = [False] * n_containers
    # a cell's children are either ("s", scalar object) or ("c", index of a deeper container)
    for i in reversed(range(n_containers)):
        deeper = list(range(i + 1, n_containers))
        r = rng.random()
        if r < p_custom:
            t = "custom"
        elif r < p_custom + p_set:
            t = rng.choice(["set", "frozenset"])
        else:
            t = rng.choice(["list", "list", "dict", "dict", "tuple"])
        nslots = rng.randint(0, max_slots) if rng.random() < 0.9 else rng.randint(0, max_slots + 3)

        def pick(need_hashable=False):
            cands = [j for j in deeper if (hashable[j] or not need_hashable)]
            if cands and rng.random() < (0.55 if not need_hashable else p_ckey):
                # prefer the next cell (forms chains -> depth) or a random deeper one (forms sharing)
                if not need_hashable and i + 1 in cands and rng.random() > p_share:
                    return ("c", i + 1)
                return ("c", rng.choice(cands))
            return ("s", _rand_scalar(rng, nobytes, strkeys and need_hashable == "key"))

        if t in ("list", "tuple"):
            v = [pick() for _ in range(nslots)]
            if t == "list" and v and rng.random() < p_share:
                v.append(rng.choice(v))         # the very same child object twice
        elif t in ("set", "frozenset"):
            v = [pick(True) for _ in range(nslots)]
        elif t == "dict":
            v = [(pick("key"), pick()) for _ in range(nslots)]
        else:
            names = rng.sample(["x", "y", "z", "_p", "__q"], min(nslots, 5))
            v = [(n, pick()) for n in names]
        sub = rng.random() < 0.06 and t in ("list", "dict", "tuple")
        cls = rng.choice(["A", "B", "DC"]) if t == "custom" else None
        cells[i] = {"t": t, "v": v, "sub": sub, "cls": cls}
        if t == "tuple":
            hashable[i] = all((k == "s") or hashable[x] for k, x in v)
        elif t == "frozenset":
            hashable[i] = True
        elif t == "custom":
            hashable[i] = cls != "DC" or True   # eq=False dataclass keeps identity hash
        else:
            hashable[i] = False
    return cells


def _connect(rng, cells):
    """Give every container except the root a parent among the shallower mutable containers."""
    n = len(cells)
    referenced = set()
    for c in cells:
        for slot in c["v"]:
            for kind, x in ([slot] if isinstance(slot[0], str) and slot[0] in ("c", "s") and len(slot) == 2 and not isinstance(slot[1], tuple) else
                            [s_ for s_ in slot if isinstance(s_, tuple)]):
                if kind == "c":
                    referenced.add(x)
    for j in range(1, n):
        if j in referenced:
            continue
        parents = [i for i in range(j) if cells[i]["t"] in ("list", "dict", "custom")]
        if not parents:
            continue
        i = parents[-1] if rng.random() < 0.6 else rng.choice(parents)
        c = cells[i]
        if c["t"] == "list":
            c["v"].append(("c", j))
        elif c["t"] == "dict":
            c["v"].append((("s", "p%d" % j), ("c", j)))
        else:
            c["v"].append(("w%d" % j, ("c", j)))


def _add_back_edges(rng, cells, n_back):
    n = len(cells)
    muts = [i for i, c in enumerate(cells) if c["t"] in ("list", "dict", "custom")]
    for _ in range(n_back):
        if not muts:
            return
        src = rng.choice(muts)
        dst = rng.randint(0, src)           # an ancestor-or-self candidate (ids grow with depth)
        c = cells[src]
        if c["t"] == "list":
            c["v"].insert(rng.randint(0, len(c["v"])), ("c", dst))
        elif c["t"] == "dict":
            key = ("s", rng.choice(["k", "cyc", 9]))
            c["v"].append((key, ("c", dst)))
        else:
            c["v"].append((rng.choice(["back", "z2"]), ("c", dst)))


def _cells_to_store(cells):
    """Recipe cells -> a raw store (scalar slots become fresh cells), then normalised through Python."""
    store = []
    n = len(cells)
    # container i gets id i; scalars appended after
    for c in cells:
        store.append({"t": c["t"], "sub": c["sub"], "cls": c["cls"], "v": None})

    def ref(slot):
        kind, x = slot
        if kind == "c":
            return x
        store.append(_scalar_cell(x))
        return len(store) - 1

    for i, c in enumerate(cells):
        t = c["t"]
        if t in ("list", "tuple", "set", "frozenset"):
            store[i]["v"] = [ref(s) for s in c["v"]]
        elif t == "dict":
            store[i]["v"] = [[ref(k), ref(v)] for k, v in c["v"]]
        else:
            store[i]["v"] = [[nm, ref(v)] for nm, v in c["v"]]
    return normalise_store(store)


def _all_opts():
    return [dict(zip(OPT_KEYS, bits)) for bits in itertools.product([True, False], repeat=6)]


def _runs_for(rng, store, n_opts, exhaustive=False, opts_list=None, diff_same=True):
    cyc = has_cycle(store)
    ncont = sum(1 for c in store if c["t"] not in SCALARS)
    feats = store_features(store)
    runs = []
    if opts_list is not None:
        opts_list = [dict(o) for o in opts_list]
    elif exhaustive:
        opts_list = _all_opts()
    else:
        opts_list = [dict((k, rng.random() < (0.7 if k in ("chk",) else 0.5)) for k in OPT_KEYS) for _ in range(n_opts)]
        opts_list[0] = dict(ake=True, amk=True, ale=True, alesl=True, chk=True, ign=False)   # the defaults
    seen = set()
    for o in opts_list:
        if cyc:
            o = dict(o, chk=True)      # check_for_cycles=False on a cyclic input is the documented opt-out
        key = tuple(o[k] for k in OPT_KEYS)
        if key in seen:
            continue
        seen.add(key)
        runs.append({"entry": "basic", "opts": o})
        runs.append({"entry": "pydiff", "opts": o})
        if not cyc and not (feats & JSON_OUT):
            runs.append({"entry": "json", "opts": o})
        # pydiff.diff(from, to, options) is an entry point too: it builds BOTH objects (monitor only, not modelled)
        if ncont <= 8 and not (feats & {"ckey", "cmember"}):
            runs.append({"entry": "diff", "side": "to", "opts": o})      # diff(plain, obj)
            runs.append({"entry": "diff", "side": "from", "opts": o})    # diff(obj, plain)
            if diff_same and not exhaustive:
                runs.append({"entry": "diff", "side": "both", "opts": o})    # diff(obj, obj)
    return runs


JSON_OUT = {"custom", "set", "ckey", "cmember", "nonstrkey", "bytes"}

PROFILES = [
    ("tree", dict(custom=0.0, set=0.0, ckey=0.0, share=0.0, slots=3, strkeys=True, nobytes=True), 0),
    ("dag", dict(custom=0.0, set=0.08, ckey=0.0, share=0.6, slots=3), 0),
    ("sets", dict(custom=0.0, set=0.4, ckey=0.0, share=0.3, slots=3), 0),
    ("strkeys", dict(custom=0.0, set=0.0, ckey=0.0, share=0.4, slots=3, strkeys=True, nobytes=True), 0),
    ("custom", dict(custom=0.35, set=0.05, ckey=0.0, share=0.3, slots=3), 0),
    ("cyclic", dict(custom=0.0, set=0.05, ckey=0.0, share=0.3, slots=2), 1),
    ("cyclic2", dict(custom=0.15, set=0.05, ckey=0.0, share=0.4, slots=3), 2),
    ("cyccustom", dict(custom=0.85, set=0.0, ckey=0.0, share=0.3, slots=2), 2),
]


def _edge_cases():
    """Hand-written shapes: empty containers, singletons, the documented cycle shapes."""
    objs = []
    objs += [[], {}, (), set(), frozenset(), 0, "", None, True, 1.5, b"a", [[]], [()], {"a": {}}, [None], [""]]
    objs += [[1, 1], [[1], [1]], {"a": 1, "b": 1}, {1: "x", "1": "y"}, {"k": None}, {None: 1}, [True, 1, 1.0]]
    objs += [{b"a": 1, "a": 2}, [b"\xff"], [MyInt(3), MyStr("q"), MyList([1]), MyDict(a=1), MyTuple((1,))]]
    s = [1]
    objs.append([s, s])                         # shared list
    d = {"x": 1}
    objs.append({"a": d, "b": d})               # shared dict value
    objs.append([s, [s, [s]]])                  # sharing at several depths
    e = []
    objs.append([e, e, [e]])                    # shared empty list
    a = []
    a.append(a)
    objs.append(a)                              # self cycle
    b = [1]
    b.append([b])
    objs.append(b)
    c1, c2 = [], []
    c1.append(c2)
    c2.append(c1)
    objs.append(c1)                             # mutual cycle
    dd = {}
    dd["self"] = dd
    objs.append(dd)                             # cycle under a dict value
    l = []
    tp = (l,)
    l.append(tp)
    objs += [l, tp, [tp], {"k": l}]             # cycle through a tuple
    deep = []
    cur = deep
    for _ in range(4):
        nxt = []
        cur.append(nxt)
        cur = nxt
    cur.append(deep)
    objs.append(deep)                           # cycle at depth 4
    x = [[]]
    x[0].append(x[0])
    objs.append(x)                              # cycle not through the root
    oa = A()
    oa.x = 1
    oa.y = [1, 2]
    objs.append(oa)
    ob = B()
    ob.me = ob
    objs.append(ob)                             # custom self cycle
    ma, mb = A(), B()
    ma.mentor = mb
    mb.mentor = ma
    objs += [ma, [ma], {"k": mb}]               # mutual cycle running ONLY through custom objects
    c0, c1, c2, c3 = A(), A(), B(), DC()
    c0.next, c1.next, c2.next, c3.x = c1, c2, c3, c0
    c0.tag = 1
    objs += [c0, [1, c2]]                       # a chain of objects looping back
    cx = A()
    cx.a = cx
    cx.b = cx
    objs.append(cx)                             # two self references
    cy = A()
    cy.inner = B()
    cy.inner.outer = cy
    cy.inner.val = [1, 2]
    objs.append(cy)
    oc = A()
    oc.items = [oc]
    objs.append([oc])
    objs.append(DC(x=1, y=[DC()]))
    og = A()
    setattr(og, "__hidden", 1)
    og._p = 2
    objs.append(og)
    return objs


def _outside_domain_cases():
    """Container-valued dict keys / containers inside sets: OUTSIDE C18's domain (a tuple key cannot read back
    as a list).  Still pushed through the correspondence check (the model mirrors them); the monitor is silent."""
    objs = [{(1, 2): 1}, {3: 4, (1, 2): 1}, {(1, 2): 1, 3: 4}, {(1, 2)}, {frozenset([1])}, {frozenset(): 1, 2: 3},
            {(): 1, "": 2}, {(1, 2): 1, (0,): 2, "a": 3}, {A(): 1}, {A(), 1}]
    od = A()
    fs = frozenset([od])
    od.back = fs
    objs.append(fs)                             # cycle through a frozenset and a custom object
    return objs


def gen(rng, tier):
    thorough = tier == "thorough"
    cases = []
    dflt = dict(ake=True, amk=True, ale=True, alesl=True, chk=True, ign=False)
    for o in _edge_cases() + _outside_domain_cases():
        st = extract(o)
        cases.append({"store": st, "root": 0, "runs": _runs_for(rng, st, 3)})
    n_random = 420 if not thorough else 9000
    for k in range(n_random):
        name, prof, back = PROFILES[k % len(PROFILES)]
        nc = rng.choice([1, 2, 2, 3, 3, 4, 5, 6, 8])
        cells = _gen_store(rng, nc, prof)
        _connect(rng, cells)
        if back:
            _add_back_edges(rng, cells, rng.randint(1, back))
        st = _cells_to_store(cells)
        if st is None:
            continue
        cases.append({"store": st, "root": 0, "runs": _runs_for(rng, st, 3 if not thorough else 4)})
    if thorough:
        cases += _exhaustive(rng, 4, 2, all_opts_every=997)
    else:
        cases += _exhaustive(rng, 2, 2, all_opts_every=7)
    return cases


def _shapes(n, max_slots):
    """All slot assignments for n containers (each slot: a container id or "s"), every container reachable
    from 0, containers numbered in BFS discovery order (symmetry cut)."""
    per = []
    for ns in range(0, max_slots + 1):
        per += list(itertools.product(list(range(n)) + ["s"], repeat=ns))
    for combo in itertools.product(per, repeat=n):
        order = []
        todo = [0]
        seen_o = {0}
        while todo:
            u = todo.pop(0)
            order.append(u)
            for x in combo[u]:
                if x != "s" and x not in seen_o:
                    seen_o.add(x)
                    todo.append(x)
        if len(order) != n or order != sorted(order):
            continue
        yield combo


_EXH_OPTS = [dict(ake=True, amk=True, ale=True, alesl=True, chk=True, ign=False),
             dict(ake=False, amk=False, ale=False, alesl=True, chk=True, ign=True)]


def _exhaustive(rng, max_containers, max_slots, all_opts_every, full_kinds_upto=3):
    """All stores with <= max_containers container objects over {list, dict, tuple} with <= max_slots slots
    each; a slot holds a reference to any container (including itself / ancestors: cycles) or the scalar 1.
    Dict slots are value slots (keys are the slot index as a string).  Stores Python cannot build (cycles
    through tuples only) are skipped; duplicates after normalisation are merged.  Up to `full_kinds_upto`
    containers every kind assignment is enumerated; above, every SHAPE is enumerated with the all-list
    assignment plus one other assignment (cycling through all 3^n of them)."""
    seen = set()
    out = []
    count = 0
    for n in range(1, max_containers + 1):
        all_kinds = list(itertools.product(["list", "dict", "tuple"], repeat=n))
        for si, combo in enumerate(_shapes(n, max_slots)):
            if n <= full_kinds_upto:
                kinds_list = all_kinds
            else:
                kinds_list = [all_kinds[0], all_kinds[1 + (si * 37) % (len(all_kinds) - 1)]]
            for kinds in kinds_list:
                store = [{"t": kinds[i], "sub": False, "cls": None, "v": None} for i in range(n)]

                def ref(x):
                    if x == "s":
                        store.append(_scalar_cell(1))
                        return len(store) - 1
                    return x

                for i in range(n):
                    if kinds[i] == "dict":
                        v = []
                        for k_i, x in enumerate(combo[i]):
                            store.append(_scalar_cell(str(k_i)))
                            kid = len(store) - 1
                            v.append([kid, ref(x)])
                        store[i]["v"] = v
                    else:
                        store[i]["v"] = [ref(x) for x in combo[i]]
                st = normalise_store(store)
                if st is None:
                    continue
                key = repr(_strip(st))
                if key in seen:
                    continue
                seen.add(key)
                count += 1
                if count % all_opts_every == 0:
                    runs = _runs_for(rng, st, 2, exhaustive=True)
                else:
                    runs = _runs_for(rng, st, 2, opts_list=_EXH_OPTS, diff_same=False)
                out.append({"store": st, "root": 0, "runs": runs})
    return out


# --------------------------------------------------------------------------------------------------
# implementation side

def _mk_options(o):
    from graphtage import BuildOptions
    # note the misspelt keyword of BuildOptions.__init__
    return BuildOptions(allow_key_edits=o["ake"], auto_match_keys=o["amk"], allow_list_edits=o["ale"],
                        allow_list_edits_when_same_length=o["alesl"], check_for_cyces=o["chk"],
                        ignore_cycles=o["ign"])


def _dump_tree(node, cellof):
    from graphtage import (LeafNode, ListNode, MultiSetNode, DictNode, FixedKeyDictNode, KeyValuePairNode,
                           StringNode)
    from graphtage.builder import CyclicReference
    from graphtage.object_set import IdentityHash
    from graphtage.pydiff import PyObj
    cn = type(node).__name__
    if cn.startswith("Edited"):
        cn = cn[len("Edited"):]           # pydiff.diff returns the edited copy of the FROM tree
    if isinstance(node, CyclicReference):
        o = node.object
        depth = 0
        while isinstance(o, IdentityHash):
            o = o.obj
            depth += 1
        return ["cyc", cn, cellof.get(id(o), -1), depth]
    if isinstance(node, LeafNode):
        k = _scalar_kind(node.object)
        if k is None:
            return ["leaf?", cn, type(node.object).__name__]
        q = bool(node.quoted) if isinstance(node, StringNode) else True
        return ["leaf", cn, k, _scalar_text(node.object), q]
    if isinstance(node, KeyValuePairNode):
        return ["kvp", cn, bool(node.allow_key_edits), _dump_tree(node.key, cellof), _dump_tree(node.value, cellof)]
    if isinstance(node, PyObj):
        return ["pyobj", cn, _dump_tree(node.class_name, cellof), _dump_tree(node.attrs, cellof)]
    if isinstance(node, FixedKeyDictNode):
        for k, kvp in node._children.items():
            assert kvp.key is k
        return ["fdict", cn, [_dump_tree(c, cellof) for c in node._children.values()]]
    if isinstance(node, DictNode):
        return ["dict", cn, bool(node.auto_match_keys), [_dump_tree(c, cellof) for c in node._children.elements()]]
    if isinstance(node, MultiSetNode):
        return ["mset", cn, bool(node.auto_match_keys), [_dump_tree(c, cellof) for c in node._children.elements()]]
    if isinstance(node, ListNode):
        return ["list", cn, bool(node.allow_list_edits), bool(node.allow_list_edits_when_same_length),
                [_dump_tree(c, cellof) for c in node._children]]
    return ["?", cn]


def _shape(d):
    """A tree dump without the option flags (booleans) that copy() is known, and modelled, to reset."""
    if isinstance(d, list):
        if d and d[0] == "cyc":
            return d[:3]          # the copy wraps the referenced object in one more IdentityHash (modelled)
        return [_shape(x) for x in d if not isinstance(x, bool)]
    return d


def _dump_obj(o, cellof):
    from graphtage.object_set import IdentityHash
    from graphtage.utils import HashableCounter
    from graphtage import LeafNode, TreeNode
    import collections
    if isinstance(o, IdentityHash):
        depth = 0
        while isinstance(o, IdentityHash):
            o = o.obj
            depth += 1
        return ["id", cellof.get(id(o), -1), depth]
    if isinstance(o, LeafNode):
        # PyObj.to_obj() uses the class-name *node* as the dictionary key
        return ["s", _scalar_kind(o.object), _scalar_text(o.object)]
    if isinstance(o, TreeNode):
        return ["node", type(o).__name__]
    k = _scalar_kind(o)
    if k is not None:
        return ["s", k, _scalar_text(o)]
    if isinstance(o, collections.Counter):
        return ["m", [_dump_obj(x, cellof) for x in o.elements()]]
    if isinstance(o, dict):
        return ["d", [[_dump_obj(k_, cellof), _dump_obj(v_, cellof)] for k_, v_ in o.items()]]
    if isinstance(o, list):
        return ["l", [_dump_obj(x, cellof) for x in o]]
    if isinstance(o, tuple):
        return ["t", [_dump_obj(x, cellof) for x in o]]
    return ["?", type(o).__name__]


def _exc_name(e):
    if isinstance(e, ValueError) and str(e).startswith("Detected a cycle"):
        return "cycle"
    return type(e).__name__


def _guard(f):
    from harness.worker import Hang
    try:
        return True, f()
    except Hang:
        raise
    except RecursionError:
        return False, "RecursionError"
    except Exception as e:
        return False, _exc_name(e)


_PLAIN = [1, 2]


def _impl_diff(run, root, o, cellof):
    """`pydiff.diff(from, to, options)`: the object goes on the FROM side, the TO side, or both; the other side is
    the plain list [1, 2].  Reference = `pydiff.build_tree(side, options)` of each side under the same options."""
    from graphtage import pydiff
    side = run["side"]
    plain = list(_PLAIN)
    frm = plain if side == "to" else root
    to = plain if side == "from" else root
    r = {}
    ok, ref_f = _guard(lambda: pydiff.build_tree(frm, _mk_options(run["opts"])))
    r["ref_from"] = _dump_tree(ref_f, cellof) if ok else {"err": ref_f}
    ok, ref_t = _guard(lambda: pydiff.build_tree(to, _mk_options(run["opts"])))
    r["ref_to"] = _dump_tree(ref_t, cellof) if ok else {"err": ref_t}
    ok, d = _guard(lambda: pydiff.diff(frm, to, o))
    if not ok:
        r["err"] = d
        return r
    r["err"] = "ok"
    r["from_tree"] = _dump_tree(d, cellof)
    ed = getattr(d, "edit", None)
    tn = getattr(ed, "to_node", None)
    r["to_tree"] = _dump_tree(tn, cellof) if tn is not None else None
    return r


def impl(case):
    from graphtage.builder import BasicBuilder
    from graphtage import pydiff, json as gjson
    store = case["store"]
    root, objs = materialise(store, case["root"])
    back = extract(root)
    if _strip(back) != _strip(store) or case["root"] != 0:
        return {"error": "internal", "exc": "MaterialiseMismatch"}
    cellof = {}
    for i, c in enumerate(store):
        if c["t"] not in SCALARS:
            cellof[id(objs[i])] = i
    set_orders = {}
    for i, c in enumerate(store):
        if c["t"] in ("set", "frozenset"):
            members = {id(objs[j]): j for j in c["v"]}
            set_orders[str(i)] = [members[id(x)] for x in objs[i]]
    out = []
    for run in case["runs"]:
        o = _mk_options(run["opts"])
        entry = run["entry"]
        if entry == "diff":
            out.append(_impl_diff(run, root, o, cellof))
            continue
        if entry == "basic":
            f = lambda: BasicBuilder(o).build_tree(root)
        elif entry == "pydiff":
            f = lambda: pydiff.build_tree(root, o)
        else:
            f = lambda: gjson.build_tree(root, o)
        ok, tree = _guard(f)
        if not ok:
            out.append({"err": tree})
            continue
        r = {"err": "ok", "tree": _dump_tree(tree, cellof)}
        ok, v = _guard(tree.to_obj)
        r["toobj"] = _dump_obj(v, cellof) if ok else {"err": v}
        ok, cp = _guard(tree.copy)
        if not ok:
            r["copy"] = {"err": cp}
        else:
            r["copy"] = _dump_tree(cp, cellof)
            ok, eq = _guard(lambda: bool(cp == tree))
            r["copy_eq"] = eq if ok else {"err": eq}
            ok, v2 = _guard(cp.to_obj)
            r["copy_toobj"] = _dump_obj(v2, cellof) if ok else {"err": v2}
        out.append(r)
    return {"runs": out, "set_orders": set_orders}


# --------------------------------------------------------------------------------------------------
# model side

def to_model(case, obs):
    if not isinstance(obs, dict) or "runs" not in obs:
        return None
    if store_features(case["store"]) & {"ckey", "cmember"}:
        return None          # outside C18's domain and outside the model (needs str() of container nodes)
    store = []
    for i, c in enumerate(case["store"]):
        d = dict(c)
        if d["t"] in ("set", "frozenset"):
            d["v"] = obs["set_orders"][str(i)]
        store.append(d)
    return {"s": "build", "store": store, "root": case["root"],
            "runs": [r for r in case["runs"] if r["entry"] != "diff"]}


def expect(case, obs):
    return [r for run, r in zip(case["runs"], obs["runs"]) if run["entry"] != "diff"]


# --------------------------------------------------------------------------------------------------
# monitor: C18's statement evaluated directly on the observations

def _contains_cyc(d):
    if isinstance(d, list):
        if d and d[0] == "cyc":
            return True
        return any(_contains_cyc(x) for x in d)
    return False


def _contains_tag(d, tag):
    if isinstance(d, list):
        if d and d[0] == tag:
            return True
        return any(_contains_tag(x, tag) for x in d)
    return False


def _in_domain(entry, feats, store):
    """Is the object graph inside the documented input domain of the entry point?"""
    if entry == "basic":
        return "custom" not in feats
    if entry == "pydiff":
        return True
    # json.build_tree: int, float, bool, str, None, list(/tuple), dict with str keys
    return not (feats & JSON_OUT)


def _monitor_diff(run, r, hit):
    """pydiff.diff must build both sides exactly as pydiff.build_tree does under the same options."""
    side = run["side"]
    rf, rt = r["ref_from"], r["ref_to"]
    if isinstance(rf, dict):
        want = rf["err"]                  # the FROM object is built first
    elif isinstance(rt, dict):
        want = rt["err"]
    else:
        want = "ok"
    if want == "ok" and r["err"] not in ("ok", "cycle"):
        return        # raised by the DIFFING phase (e.g. str vs bytes string edit), not by building: outside C18
    if r["err"] != want:
        bad_side = "from" if isinstance(rf, dict) or (r["err"] != "ok" and side == "from") else "to"
        hit(f"pydiff-diff/{bad_side}-side-options" if "cycle" in (r["err"], want) else "pydiff-diff/error-mismatch",
            f"pydiff.diff(side={side}) outcome {r['err']} but pydiff.build_tree of the sides gives {want} under the same options")
        return
    if want != "ok":
        return
    if r["to_tree"] != rt:
        hit("pydiff-diff/to-side-options",
            f"pydiff.diff(side={side}): the TO tree differs from pydiff.build_tree(to, options): {r['to_tree']!r} vs {rt!r}")
    if r["from_tree"] != rf:
        hit("pydiff-diff/from-side-options",
            f"pydiff.diff(side={side}): the FROM tree differs from pydiff.build_tree(from, options): {r['from_tree']!r} vs {rf!r}")


def monitor(case, obs):
    hits = []

    def hit(key, what):
        hits.append({"prop": "C18", "key": key, "what": what})

    if not isinstance(obs, dict) or "runs" not in obs:
        if isinstance(obs, dict) and obs.get("error") == "hang":
            hit("hang", "building / copying did not terminate within the watchdog")
        elif isinstance(obs, dict) and obs.get("exc") == "MaterialiseMismatch":
            pass
        else:
            hit("crash/" + str(obs.get("exc") if isinstance(obs, dict) else "?"), "worker failed: %r" % (obs,))
        return hits
    store = case["store"]
    cyc = has_cycle(store)
    feats = store_features(store)
    container_key = bool(feats & {"ckey", "cmember"})
    if container_key:
        return hits                              # outside the domain of C18 (see NOTES)
    by_opts = {}
    for run, r in zip(case["runs"], obs["runs"]):
        entry, o = run["entry"], run["opts"]
        if entry == "diff":
            _monitor_diff(run, r, hit)
            continue
        tagsfx = "/container-key" if container_key else ""
        indom = _in_domain(entry, feats, store)
        err = r["err"]
        if cyc:
            if not o["chk"]:
                continue                         # documented opt-out
            if not indom and err in ("NotImplementedError",):
                continue
            if o["ign"]:
                if err != "ok":
                    hit("cycle-ignored-raises/" + err + tagsfx, f"{entry}: ignore_cycles=True but build raised {err}")
                    continue
                if not _contains_cyc(r["tree"]):
                    hit("cycle-no-placeholder", f"{entry}: cyclic input, ignore_cycles=True, but no placeholder in the tree")
            else:
                if err != "cycle":
                    hit("cycle-not-reported/" + err + tagsfx, f"{entry}: cyclic input, expected the cycle error, got {err}")
                continue
        else:
            if err == "cycle":
                hit("sharing-as-cycle", f"{entry}: acyclic input (with sharing={'shared' in feats}) reported as a cycle")
                continue
            if err != "ok":
                if indom:
                    hit("build-raises/" + err + tagsfx, f"{entry}: acyclic in-domain input raised {err}")
                continue
            if _contains_cyc(r["tree"]):
                hit("placeholder-on-acyclic", f"{entry}: acyclic input produced a cycle placeholder")
            # value round trip
            if isinstance(r["toobj"], dict):
                hit("to_obj-raises/" + r["toobj"]["err"] + tagsfx, f"{entry}: to_obj() raised {r['toobj']['err']}")
            elif indom:
                want = norm_value(store, case["root"])
                got = obj_key(r["toobj"])
                if want != got:
                    sfx = "/json-bytes" if (entry == "json" and "bytes" in feats) else ""
                    hit("to_obj-neq" + sfx, f"{entry}: to_obj() differs from the original value: {r['toobj']!r}")
            if indom:
                by_opts.setdefault(tuple(o[k] for k in OPT_KEYS), {})[entry] = r["tree"]
        # deep copy (any successfully built tree)
        if err == "ok":
            cp = r.get("copy")
            if isinstance(cp, dict):
                hit("copy-raises/" + cp["err"], f"{entry}: copy() raised {cp['err']}")
            else:
                eq = r.get("copy_eq")
                if eq is not True:
                    # the two recorded findings are about node EQUALITY of placeholder / PyObj nodes: the copy itself is
                    # node for node the tree; a copy that differs structurally is something else
                    same = (_shape(cp) == _shape(r["tree"]))
                    sfx = "/differs-structurally" if not same else \
                        "/cyclicref" if _contains_cyc(r["tree"]) else "/pyobj" if _contains_tag(r["tree"], "pyobj") else ""
                    hit("copy-neq" + sfx, f"{entry}: copy() == tree is {eq!r}" + ("" if same else "; the copy's structure differs from the tree's"))
                if r.get("copy_toobj") != r.get("toobj") and not _contains_cyc(r["tree"]):
                    hit("copy-to_obj-neq", f"{entry}: copy().to_obj() differs from to_obj()")
    # identical through every entry point (same options, every entry whose domain contains the input)
    for key, trees in by_opts.items():
        ents = sorted(trees)
        for a, b in zip(ents, ents[1:]):
            if trees[a] != trees[b]:
                sfx = "/json-bytes" if ("json" in (a, b) and "bytes" in feats) else ""
                hit("entry-disagree" + sfx, f"{a} and {b} build different trees for the same input and options")
    return hits


def classify(case, obs):
    store = case["store"]
    feats = store_features(store)
    nc = sum(1 for c in store if c["t"] not in SCALARS)
    shape = "cyclic" if has_cycle(store) else ("dag" if "shared" in feats else "tree")
    extra = "+".join(sorted(feats - {"shared"}))
    size = "c0" if nc == 0 else "c1" if nc == 1 else "c2-3" if nc <= 3 else "c4-6" if nc <= 6 else "c7+"
    return f"{shape}/{size}" + ("/" + extra if extra else "")


def nontrivial(case, obs):
    return any(c["t"] not in SCALARS for c in case["store"])


def shrink(case):
    store = case["store"]
    runs = case["runs"]
    # fewer runs
    if len(runs) > 1:
        for i in range(len(runs)):
            yield {"store": store, "root": 0, "runs": [runs[i]]}
    # drop one slot of one container
    for i, c in enumerate(store):
        if c["t"] in SCALARS:
            continue
        for k in range(len(c["v"])):
            st = [dict(x) for x in store]
            st[i] = dict(c, v=c["v"][:k] + c["v"][k + 1:])
            ns = normalise_store(st)
            if ns is not None:
                yield {"store": ns, "root": 0, "runs": runs}
    # replace a container slot by a scalar
    for i, c in enumerate(store):
        if c["t"] in ("list", "tuple"):
            for k, j in enumerate(c["v"]):
                if store[j]["t"] not in SCALARS:
                    st = [dict(x) for x in store] + [_scalar_cell(1)]
                    st[i] = dict(c, v=c["v"][:k] + [len(st) - 1] + c["v"][k + 1:])
                    ns = normalise_store(st)
                    if ns is not None:
                        yield {"store": ns, "root": 0, "runs": runs}

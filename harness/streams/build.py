"""Stream `build`: Python object graphs -> graphtage trees (model layer L6, property C18).

A case is an object graph given as a STORE (cell id -> payload; ids preserve sharing and cycles) plus a list
of runs (entry point x build options).  `impl` materialises the store as real Python objects, pushes the root
through `BasicBuilder().build_tree`, `graphtage.pydiff.build_tree` and `graphtage.json.build_tree`, and
records error class, a structural dump of the tree, `to_obj()`, `copy()`.

Oracle answers shipped to the model (things decided by CPython, not by graphtage):
  * iteration order of every set/frozenset in the worker process (`set_orders`),
  * per scalar: `eqc` (class of `LeafNode.__eq__` on the payload: Python `==` with every NaN in the one class "nan"; the
    bool / non-bool split of `LeafNode.__eq__` is modelled from the kind), `str` (`str(obj)`), `num` (exact rational for
    int/float/bool; denominator 0 for the non-finite floats: [0,0] NaN, [1,0] +inf, [-1,0] -inf),
    `dec` (utf-8 decoding of bytes or null) -- computed by `_scalar_cell` below.

Besides store cases there are PROBE cases (`{"probe": ..., "n": ...}`): inputs too deep to be dumped (lists nested 300-500 deep,
dicts nested 16 / 1100 deep).  They are monitor-only: `impl` records outcome classes, node counts and a comparison counter.
"""
import dataclasses
import itertools
from fractions import Fraction

NAME = "build"
# per-case watchdog of the worker.  A case needs milliseconds (the heaviest fixed DAG 0.3 s).  15 s, not the default 20 s: the
# engine confirms a `hang` hit by re-running the case alone with 5x this limit, and common._run_chunk kills a single-case
# worker after 85 s -- with the default the confirmation run would end as "WorkerDied" and a real hang would be dismissed.
ENV = {"VERIF_CASE_TIMEOUT": "15"}

OPT_KEYS = ("ake", "amk", "ale", "alesl", "chk", "ign")


# --------------------------------------------------------------------------------------------------
# classes used for materialisation

class MyList(list):
    pass


class _Record(dict):
    pass


class MyDict(_Record):          # two subclass levels below dict: resolution has to walk the MRO, not just the direct bases
    pass


class MyTuple(tuple):
    pass


class _Level(int):
    pass


class MyInt(_Level):            # likewise (e.g. an enum.IntEnum member is two levels below int)
    pass


class MyStr(str):
    pass


class A:
    pass


class B:
    pass


@dataclasses.dataclass(eq=False)
class DC:
    x: object = None
    y: object = None


CUSTOM = {"A": A, "B": B, "DC": DC}
SUBS = {"list": MyList, "dict": MyDict, "tuple": MyTuple, "int": MyInt, "str": MyStr}
SCALARS = ("int", "bool", "float", "str", "bytes", "none")


def _tname(c):
    return c.__name__ if c.__module__ == "builtins" else "verif." + c.__qualname__


def _mro(obj):
    return [_tname(c) for c in type(obj).__mro__]


# --------------------------------------------------------------------------------------------------
# scalars

def _scalar_decode(t, v, sub=False):
    if t == "int":
        return MyInt(int(v)) if sub else int(v)
    if t == "bool":
        return v == "True"
    if t == "float":
        return float.fromhex(v)
    if t == "str":
        return MyStr(v) if sub else v
    if t == "bytes":
        return bytes.fromhex(v)
    if t == "none":
        return None
    raise ValueError(t)


def _scalar_kind(obj):
    if obj is None:
        return "none"
    if isinstance(obj, bool):
        return "bool"
    if isinstance(obj, int):
        return "int"
    if isinstance(obj, float):
        return "float"
    if isinstance(obj, str):
        return "str"
    if isinstance(obj, bytes):
        return "bytes"
    return None


def _scalar_text(obj):
    k = _scalar_kind(obj)
    if k == "int":
        return str(int(obj))
    if k == "bool":
        return "True" if obj else "False"
    if k == "float":
        return float(obj).hex()
    if k == "str":
        return str.__str__(obj)
    if k == "bytes":
        return bytes(obj).hex()
    return ""


def _scalar_cell(obj):
    k = _scalar_kind(obj)
    cell = {"t": k, "v": _scalar_text(obj), "mro": _mro(obj), "str": str(obj), "num": None, "dec": None,
            "sub": type(obj) in (MyInt, MyStr)}
    if k == "float" and obj != obj:
        cell["num"] = [0, 0]                       # NaN: every `<` is False, all NaN leaves are one == class
        cell["eqc"] = "nan"
    elif k == "float" and obj in (float("inf"), float("-inf")):
        cell["num"] = [1 if obj > 0 else -1, 0]
        cell["eqc"] = "n:inf" if obj > 0 else "n:-inf"
    elif k in ("int", "bool", "float"):
        fr = Fraction(obj)                         # -0.0 -> 0/1 (== 0 == 0.0), 1.0 -> 1/1 (== 1 == True as Python values)
        cell["num"] = [fr.numerator, fr.denominator]
        cell["eqc"] = "n:%d/%d" % (fr.numerator, fr.denominator)
    elif k == "str":
        cell["eqc"] = "s:" + cell["v"]
    elif k == "bytes":
        cell["eqc"] = "b:" + cell["v"]
        try:
            cell["dec"] = bytes(obj).decode("utf-8")
        except UnicodeDecodeError:
            cell["dec"] = None
    else:
        cell["eqc"] = "none"
    return cell


# --------------------------------------------------------------------------------------------------
# store <-> objects

def _custom_attrs(obj):
    return [a for a in dir(obj) if not (a.startswith("__") and a.endswith("__"))]


def extract(root):
    """Real object graph -> store.  Containers/custom objects are identified by id(); every scalar slot is
    a fresh cell (identity of scalars is never consulted by the builders)."""
    store = []
    ids = {}
    keep = []

    def visit(obj):
        k = _scalar_kind(obj)
        if k is not None:
            store.append(_scalar_cell(obj))
            return len(store) - 1
        if id(obj) in ids:
            return ids[id(obj)]
        keep.append(obj)
        me = len(store)
        ids[id(obj)] = me
        cell = {"mro": _mro(obj)}
        store.append(cell)
        if isinstance(obj, dict):
            cell["t"] = "dict"
            cell["sub"] = type(obj) is not dict
            items = list(obj.items())
            ks = [visit(k_) for k_, _ in items]
            vs = [visit(v_) for _, v_ in items]
            cell["v"] = [[a, b] for a, b in zip(ks, vs)]
        elif isinstance(obj, (list, tuple, set, frozenset)):
            cell["t"] = ("list" if isinstance(obj, list) else "tuple" if isinstance(obj, tuple)
                         else "set" if isinstance(obj, set) else "frozenset")
            cell["sub"] = type(obj) not in (list, tuple, set, frozenset)
            members = list(obj)
            if isinstance(obj, (set, frozenset)):
                # canonical cell numbering for sets (the real iteration order is an oracle answer, see impl)
                sc = sorted((x for x in members if _scalar_kind(x) is not None),
                            key=lambda x: (_scalar_kind(x), _scalar_text(x)))
                members = sc + [x for x in members if _scalar_kind(x) is None]
            cell["v"] = [visit(x) for x in members]
        else:
            cell["t"] = "custom"
            cell["cls"] = type(obj).__name__
            cell["sub"] = False
            names = _custom_attrs(obj)
            cell["v"] = [[n, visit(getattr(obj, n))] for n in names]
        return me

    r = visit(root)
    assert r == 0
    return store


def materialise(store, root=0):
    """Store -> real Python objects.  Returns (root object, {cell id: object})."""
    objs = {}

    def mutable(c):
        return c["t"] in ("list", "dict", "set", "custom")

    for i, c in enumerate(store):
        t = c["t"]
        if t == "list":
            objs[i] = MyList() if c.get("sub") else []
        elif t == "dict":
            objs[i] = MyDict() if c.get("sub") else {}
        elif t == "set":
            objs[i] = set()
        elif t == "custom":
            objs[i] = CUSTOM[c["cls"]]()
        elif t in SCALARS:
            objs[i] = _scalar_decode(t, c["v"], c.get("sub", False))
    busy = set()

    def imm(i):
        if i in objs:
            return objs[i]
        if i in busy:
            raise ValueError("cycle through immutable objects only")
        busy.add(i)
        c = store[i]
        members = [imm(j) for j in c["v"]]
        if c["t"] == "tuple":
            objs[i] = MyTuple(members) if c.get("sub") else tuple(members)
        elif c["t"] == "frozenset":
            objs[i] = frozenset(members)
        else:
            raise ValueError(c["t"])
        busy.discard(i)
        return objs[i]

    for i in range(len(store)):
        imm(i)
    for i, c in enumerate(store):
        t = c["t"]
        if t == "list":
            objs[i].extend(objs[j] for j in c["v"])
        elif t == "dict":
            for k, v in c["v"]:
                objs[i][objs[k]] = objs[v]
        elif t == "set":
            for j in c["v"]:
                objs[i].add(objs[j])
        elif t == "custom":
            for n, j in c["v"]:
                setattr(objs[i], n, objs[j])
    return objs[root], objs


def _strip(store):
    """The part of the store that must survive a materialise/extract round trip (set order excluded)."""
    out = []
    for c in store:
        d = dict(c)
        if d["t"] in ("set", "frozenset"):
            d["v"] = "set"
        out.append(d)
    return out


def normalise_store(store):
    """Materialise and re-extract: the result is the store of the object graph Python really builds
    (equal keys collapsed, unreachable cells dropped, forced sharing of () applied).  None if impossible."""
    try:
        root, _ = materialise(store)
        return extract(root)
    except Exception:
        return None


# --------------------------------------------------------------------------------------------------
# store analysis (harness side, independent of graphtage and of the Lean model)

def children_of(store, i):
    c = store[i]
    t = c["t"]
    if t in SCALARS:
        return []
    if t == "dict":
        return [k for k, _ in c["v"]] + [v for _, v in c["v"]]
    if t == "custom":
        # attributes whose name starts with "__" are not part of the value pydiff looks at
        return [j for n, j in c["v"] if not n.startswith("__")]
    return list(c["v"])


def has_cycle(store, root=0):
    """Is a cycle reachable from root (iterative three-colour DFS)."""
    colour = {}
    stack = [(root, iter(children_of(store, root)))]
    colour[root] = 1
    while stack:
        node, it = stack[-1]
        for ch in it:
            if colour.get(ch, 0) == 1:
                return True
            if colour.get(ch, 0) == 0:
                colour[ch] = 1
                stack.append((ch, iter(children_of(store, ch))))
                break
        else:
            colour[node] = 2
            stack.pop()
    return False


def store_features(store):
    ts = [c["t"] for c in store]
    f = set()
    if "custom" in ts:
        f.add("custom")
    if "set" in ts or "frozenset" in ts:
        f.add("set")
    if "bytes" in ts:
        f.add("bytes")
    refs = {}
    for i, c in enumerate(store):
        for j in children_of(store, i):
            if store[j]["t"] not in SCALARS:
                refs[j] = refs.get(j, 0) + 1
    if any(n > 1 for n in refs.values()):
        f.add("shared")
    if any(c["t"] == "float" and c.get("num") and c["num"][1] == 0 for c in store):
        f.add("nonfinite")
    for c in store:
        if c["t"] == "dict":
            if sum(1 for k, _ in c["v"] if store[k].get("eqc") == "nan") >= 2:
                # two distinct NaN objects as keys of ONE dict: legal Python (NaN != NaN), but as DATA (every NaN leaf is
                # the same datum since graphtage 8b61c77) these are duplicate keys -- outside C18's domain, like the
                # theorems' hypothesis "no two keys are equal" (`Plain`)
                f.add("nankeys2")
            for k, _ in c["v"]:
                kt = store[k]["t"]
                if kt not in SCALARS:
                    f.add("ckey")
                if kt != "str":
                    f.add("nonstrkey")
        if c["t"] in ("set", "frozenset"):
            for j in c["v"]:
                if store[j]["t"] not in SCALARS:
                    f.add("cmember")
        if c.get("sub"):
            f.add("subclass")
    return f


def norm_value(store, i, json_mode=False):
    """Independent normalisation of the ORIGINAL object graph (acyclic only): the value `to_obj()` must have.
    tuples -> lists, sets -> multisets, custom -> {class: {attr: value}}.  Returned as an order-free key."""
    c = store[i]
    t = c["t"]
    if t in SCALARS:
        return ("s", t, c["v"])
    if t in ("list", "tuple"):
        return ("l", tuple(norm_value(store, j, json_mode) for j in c["v"]))
    if t in ("set", "frozenset"):
        return ("m", tuple(sorted((norm_value(store, j, json_mode) for j in c["v"]), key=repr)))
    if t == "dict":
        return ("d", tuple(sorted(((norm_value(store, k, json_mode), norm_value(store, v, json_mode))
                                   for k, v in c["v"]), key=repr)))
    if t == "custom":
        attrs = tuple(sorted(((("s", "str", n), norm_value(store, j, json_mode))
                              for n, j in c["v"] if not n.startswith("__")), key=repr))
        return ("d", ((("s", "str", c["cls"]), ("d", attrs)),))
    raise ValueError(t)


def obj_key(d):
    """Order-free key of a `to_obj()` dump (see _dump_obj)."""
    tag = d[0]
    if tag == "s":
        return ("s", d[1], d[2])
    if tag == "l":
        return ("l", tuple(obj_key(x) for x in d[1]))
    if tag == "m":
        return ("m", tuple(sorted((obj_key(x) for x in d[1]), key=repr)))
    if tag == "d":
        return ("d", tuple(sorted(((obj_key(k), obj_key(v)) for k, v in d[1]), key=repr)))
    return tuple(d) if isinstance(d, list) else d


# --------------------------------------------------------------------------------------------------
# generation

_INTS = [0, 1, 2, 3, -1, 7, 10 ** 20]
_NAN, _INF = float("nan"), float("inf")
_FLOATS = [0.5, -2.5, 1.0, 0.0, 1e300, 2.0, -0.0, 3.0, 7.0, 1e20, -1.0, 5e-324, _NAN, _NAN, _INF, -_INF]
_STRS = ["", "a", "b", "ab", "1", "True", "None", "x y"]
_BYTES = [b"", b"a", b"ab", b"\xff"]


def _rand_scalar(rng, nobytes=False, stronly=False):
    if stronly:
        return rng.choice(_STRS + ["k", "key2", "z"])
    r = rng.random()
    if nobytes and 0.85 <= r < 0.92:
        r = 0.5
    if r < 0.35:
        return rng.choice(_INTS)
    if r < 0.45:
        return rng.choice([True, False])
    if r < 0.55:
        return rng.choice(_FLOATS)
    if r < 0.85:
        return rng.choice(_STRS)
    if r < 0.92:
        return rng.choice(_BYTES)
    if r < 0.94:
        return rng.choice([MyInt(5), MyStr("sub")])
    return None


def _gen_store(rng, n_containers, profile):
    """Cells are generated children-first (high id = deep), so hashability is known when a parent picks
    keys / set members; back edges (cycles) are added afterwards from mutable slots only."""
    p_custom = profile.get("custom", 0.0)
    p_set = profile.get("set", 0.1)
    p_ckey = profile.get("ckey", 0.05)
    p_share = profile.get("share", 0.3)
    max_slots = profile.get("slots", 3)
    strkeys = profile.get("strkeys", False)
    nobytes = profile.get("nobytes", False)
    kinds = []
    cells = [None] * n_containers
    hashable = [False] * n_containers
    # a cell's children are either ("s", scalar object) or ("c", index of a deeper container)
    for i in reversed(range(n_containers)):
        deeper = list(range(i + 1, n_containers))
        r = rng.random()
        if r < p_custom:
            t = "custom"
        elif r < p_custom + p_set:
            t = rng.choice(["set", "frozenset"])
        else:
            t = rng.choice(["list", "list", "dict", "dict", "tuple"])
        nslots = rng.randint(0, max_slots) if rng.random() < 0.9 else rng.randint(0, max_slots + 3)

        def pick(need_hashable=False):
            cands = [j for j in deeper if (hashable[j] or not need_hashable)]
            if cands and rng.random() < (0.55 if not need_hashable else p_ckey):
                # prefer the next cell (forms chains -> depth) or a random deeper one (forms sharing)
                if not need_hashable and i + 1 in cands and rng.random() > p_share:
                    return ("c", i + 1)
                return ("c", rng.choice(cands))
            return ("s", _rand_scalar(rng, nobytes, strkeys and need_hashable == "key"))

        if t in ("list", "tuple"):
            v = [pick() for _ in range(nslots)]
            if t == "list" and v and rng.random() < p_share:
                v.append(rng.choice(v))         # the very same child object twice
        elif t in ("set", "frozenset"):
            v = [pick(True) for _ in range(nslots)]
        elif t == "dict":
            v = [(pick("key"), pick()) for _ in range(nslots)]
        else:
            names = rng.sample(["x", "y", "z", "_p", "__q"], min(nslots, 5))
            v = [(n, pick()) for n in names]
        sub = rng.random() < 0.06 and t in ("list", "dict", "tuple")
        cls = rng.choice(["A", "B", "DC"]) if t == "custom" else None
        cells[i] = {"t": t, "v": v, "sub": sub, "cls": cls}
        if t == "tuple":
            hashable[i] = all((k == "s") or hashable[x] for k, x in v)
        elif t == "frozenset":
            hashable[i] = True
        elif t == "custom":
            hashable[i] = cls != "DC" or True   # eq=False dataclass keeps identity hash
        else:
            hashable[i] = False
    return cells


def _connect(rng, cells):
    """Give every container except the root a parent among the shallower mutable containers."""
    n = len(cells)
    referenced = set()
    for c in cells:
        for slot in c["v"]:
            for kind, x in ([slot] if isinstance(slot[0], str) and slot[0] in ("c", "s") and len(slot) == 2 and not isinstance(slot[1], tuple) else
                            [s_ for s_ in slot if isinstance(s_, tuple)]):
                if kind == "c":
                    referenced.add(x)
    for j in range(1, n):
        if j in referenced:
            continue
        parents = [i for i in range(j) if cells[i]["t"] in ("list", "dict", "custom")]
        if not parents:
            continue
        i = parents[-1] if rng.random() < 0.6 else rng.choice(parents)
        c = cells[i]
        if c["t"] == "list":
            c["v"].append(("c", j))
        elif c["t"] == "dict":
            c["v"].append((("s", "p%d" % j), ("c", j)))
        else:
            c["v"].append(("w%d" % j, ("c", j)))


def _add_back_edges(rng, cells, n_back):
    n = len(cells)
    muts = [i for i, c in enumerate(cells) if c["t"] in ("list", "dict", "custom")]
    for _ in range(n_back):
        if not muts:
            return
        src = rng.choice(muts)
        dst = rng.randint(0, src)           # an ancestor-or-self candidate (ids grow with depth)
        c = cells[src]
        if c["t"] == "list":
            c["v"].insert(rng.randint(0, len(c["v"])), ("c", dst))
        elif c["t"] == "dict":
            key = ("s", rng.choice(["k", "cyc", 9]))
            c["v"].append((key, ("c", dst)))
        else:
            c["v"].append((rng.choice(["back", "z2"]), ("c", dst)))


def _cells_to_store(cells):
    """Recipe cells -> a raw store (scalar slots become fresh cells), then normalised through Python."""
    store = []
    n = len(cells)
    # container i gets id i; scalars appended after
    for c in cells:
        store.append({"t": c["t"], "sub": c["sub"], "cls": c["cls"], "v": None})

    def ref(slot):
        kind, x = slot
        if kind == "c":
            return x
        store.append(_scalar_cell(x))
        return len(store) - 1

    for i, c in enumerate(cells):
        t = c["t"]
        if t in ("list", "tuple", "set", "frozenset"):
            store[i]["v"] = [ref(s) for s in c["v"]]
        elif t == "dict":
            store[i]["v"] = [[ref(k), ref(v)] for k, v in c["v"]]
        else:
            store[i]["v"] = [[nm, ref(v)] for nm, v in c["v"]]
    return normalise_store(store)


def _all_opts():
    return [dict(zip(OPT_KEYS, bits)) for bits in itertools.product([True, False], repeat=6)]


def _runs_for(rng, store, n_opts, exhaustive=False, opts_list=None, diff_same=True):
    cyc = has_cycle(store)
    ncont = sum(1 for c in store if c["t"] not in SCALARS)
    feats = store_features(store)
    runs = []
    if opts_list is not None:
        opts_list = [dict(o) for o in opts_list]
    elif exhaustive:
        opts_list = _all_opts()
    else:
        opts_list = [dict((k, rng.random() < (0.7 if k in ("chk",) else 0.5)) for k in OPT_KEYS) for _ in range(n_opts)]
        opts_list[0] = dict(ake=True, amk=True, ale=True, alesl=True, chk=True, ign=False)   # the defaults
    seen = set()
    for o in opts_list:
        if cyc:
            o = dict(o, chk=True)      # check_for_cycles=False on a cyclic input is the documented opt-out
        key = tuple(o[k] for k in OPT_KEYS)
        if key in seen:
            continue
        seen.add(key)
        runs.append({"entry": "basic", "opts": o})
        runs.append({"entry": "pydiff", "opts": o})
        if "custom" in feats and not (feats & {"ckey", "cmember"}):
            # a user-defined Builder subclass (as in the library documentation) with handlers for the custom classes, used in
            # the SAME process right after BasicBuilder / PyObjBuilder have seen objects of those classes (monitor only)
            runs.append({"entry": "userb", "opts": o})
        if not cyc and not (feats & JSON_OUT):
            runs.append({"entry": "json", "opts": o})
        # pydiff.diff(from, to, options) is an entry point too: it builds BOTH objects (monitor only, not modelled)
        if ncont <= 8 and not (feats & {"ckey", "cmember"}):
            runs.append({"entry": "diff", "side": "to", "opts": o})      # diff(plain, obj)
            runs.append({"entry": "diff", "side": "from", "opts": o})    # diff(obj, plain)
            if diff_same and not exhaustive:
                runs.append({"entry": "diff", "side": "both", "opts": o})    # diff(obj, obj)
    return runs


JSON_OUT = {"custom", "set", "ckey", "cmember", "nonstrkey", "bytes"}

PROFILES = [
    ("tree", dict(custom=0.0, set=0.0, ckey=0.0, share=0.0, slots=3, strkeys=True, nobytes=True), 0),
    ("dag", dict(custom=0.0, set=0.08, ckey=0.0, share=0.6, slots=3), 0),
    ("sets", dict(custom=0.0, set=0.4, ckey=0.0, share=0.3, slots=3), 0),
    ("strkeys", dict(custom=0.0, set=0.0, ckey=0.0, share=0.4, slots=3, strkeys=True, nobytes=True), 0),
    ("custom", dict(custom=0.35, set=0.05, ckey=0.0, share=0.3, slots=3), 0),
    ("cyclic", dict(custom=0.0, set=0.05, ckey=0.0, share=0.3, slots=2), 1),
    ("cyclic2", dict(custom=0.15, set=0.05, ckey=0.0, share=0.4, slots=3), 2),
    ("cyccustom", dict(custom=0.85, set=0.0, ckey=0.0, share=0.3, slots=2), 2),
]


def _edge_cases():
    """Hand-written shapes: empty containers, singletons, the documented cycle shapes."""
    objs = []
    objs += [[], {}, (), set(), frozenset(), 0, "", None, True, 1.5, b"a", [[]], [()], {"a": {}}, [None], [""]]
    objs += [[1, 1], [[1], [1]], {"a": 1, "b": 1}, {1: "x", "1": "y"}, {"k": None}, {None: 1}, [True, 1, 1.0]]
    objs += [{b"a": 1, "a": 2}, [b"\xff"], [MyInt(3), MyStr("q"), MyList([1]), MyDict(a=1), MyTuple((1,))]]
    s = [1]
    objs.append([s, s])                         # shared list
    d = {"x": 1}
    objs.append({"a": d, "b": d})               # shared dict value
    objs.append([s, [s, [s]]])                  # sharing at several depths
    e = []
    objs.append([e, e, [e]])                    # shared empty list
    a = []
    a.append(a)
    objs.append(a)                              # self cycle
    b = [1]
    b.append([b])
    objs.append(b)
    c1, c2 = [], []
    c1.append(c2)
    c2.append(c1)
    objs.append(c1)                             # mutual cycle
    dd = {}
    dd["self"] = dd
    objs.append(dd)                             # cycle under a dict value
    l = []
    tp = (l,)
    l.append(tp)
    objs += [l, tp, [tp], {"k": l}]             # cycle through a tuple
    deep = []
    cur = deep
    for _ in range(4):
        nxt = []
        cur.append(nxt)
        cur = nxt
    cur.append(deep)
    objs.append(deep)                           # cycle at depth 4
    x = [[]]
    x[0].append(x[0])
    objs.append(x)                              # cycle not through the root
    oa = A()
    oa.x = 1
    oa.y = [1, 2]
    objs.append(oa)
    ob = B()
    ob.me = ob
    objs.append(ob)                             # custom self cycle
    ma, mb = A(), B()
    ma.mentor = mb
    mb.mentor = ma
    objs += [ma, [ma], {"k": mb}]               # mutual cycle running ONLY through custom objects
    c0, c1, c2, c3 = A(), A(), B(), DC()
    c0.next, c1.next, c2.next, c3.x = c1, c2, c3, c0
    c0.tag = 1
    objs += [c0, [1, c2]]                       # a chain of objects looping back
    cx = A()
    cx.a = cx
    cx.b = cx
    objs.append(cx)                             # two self references
    cy = A()
    cy.inner = B()
    cy.inner.outer = cy
    cy.inner.val = [1, 2]
    objs.append(cy)
    oc = A()
    oc.items = [oc]
    objs.append([oc])
    objs.append(DC(x=1, y=[DC()]))
    og = A()
    setattr(og, "__hidden", 1)
    og._p = 2
    objs.append(og)
    # objects WITHOUT any attribute / with dunder-only attributes (the attribute mapping is empty but must still follow
    # the dictionary strategy of the options), alone, shared, inside containers and inside other objects
    e0 = A()
    objs += [A(), [e0, e0, {"k": B()}], (DC(x=A(), y=B()), {1, 2})]
    eh = B()
    setattr(eh, "__only", 1)
    objs.append([eh, A()])
    # floats: NaN (== itself as a LEAF since graphtage 8b61c77), infinities, signed zero, integral floats next to ints/bools
    nan, inf = float("nan"), float("inf")
    objs += [nan, [nan], [nan, float("nan")], [inf, -inf], [-0.0, 0.0, 0], [1.0, 1, True, 0.0, False], {"a": nan, "b": [nan]},
             {nan: 1}, {inf: 1, -inf: 2, 0.5: 3, 3: 4}, {nan: 1, 1: 2, 0: 3}, {2: 1, nan: 2, -1: 3, "s": 4, None: 5},
             {nan, 1.5}, {inf, nan, 1}, {0.0: "z"}, {-0.0: "z"}, {1.0: "a", 2: "b"}, {1e20: 1, 10 ** 20 + 1: 2},
             [1e300, 5e-324, -1e300], (nan, (nan,)), [[nan], [nan]], {"k": {"k": nan}}, [{nan}, {nan}]]
    sn = [nan]
    objs.append([sn, sn, nan])                  # the same NaN object reachable twice
    return objs


def _ring(n, kind):
    """n containers, each holding the next one; the last one holds the first (one cycle of length n)."""
    if kind == "list":
        cs = [[] for _ in range(n)]
        for i in range(n):
            cs[i].append(cs[(i + 1) % n])
    elif kind == "listpad":                     # every member has siblings, so no level is "all leaves"
        cs = [[i] for i in range(n)]
        for i in range(n):
            cs[i].append(cs[(i + 1) % n])
            cs[i].append([i, "x"])
    elif kind == "dict":
        cs = [{} for _ in range(n)]
        for i in range(n):
            cs[i]["n"] = cs[(i + 1) % n]
    elif kind == "dictpad":
        cs = [{"i": i} for i in range(n)]
        for i in range(n):
            cs[i]["n"] = cs[(i + 1) % n]
    elif kind == "mixed":                       # list -> dict -> tuple -> list -> ... (the tuples are closed last)
        cs = [None] * n
        for i in reversed(range(n)):
            if i % 3 == 2 and i != n - 1:
                cs[i] = (cs[i + 1],)
            elif i % 3 == 1:
                cs[i] = {}
            else:
                cs[i] = []
        for i in range(n):
            nxt = cs[(i + 1) % n]
            if isinstance(cs[i], list):
                cs[i].append(nxt)
            elif isinstance(cs[i], dict):
                cs[i]["n"] = nxt
    elif kind == "custom":
        cs = [(A if i % 2 else B)() for i in range(n)]
        for i in range(n):
            cs[i].next = cs[(i + 1) % n]
    elif kind == "customlist":                  # object -> list -> object -> list ...
        cs = [(A() if i % 2 == 0 else []) for i in range(n)]
        for i in range(n):
            nxt = cs[(i + 1) % n]
            if isinstance(cs[i], list):
                cs[i].append(nxt)
            else:
                cs[i].items = nxt
    else:
        raise ValueError(kind)
    return cs[0]


def _long_cycles(thorough=False):
    """Cycles far longer / deeper than anything the random generator makes: rings of 16 / 64 / 300 containers, a ring reached
    through a long acyclic tail, a ring whose members also share an acyclic sub-object.  Returns [(label, object)]."""
    out = []
    for n in (16, 64, 300):
        out.append(("ring%d/list" % n, _ring(n, "list")))
    for n in (16, 64):
        out.append(("ring%d/listpad" % n, _ring(n, "listpad")))
        out.append(("ring%d/dict" % n, _ring(n, "dict")))
        out.append(("ring%d/mixed" % n, _ring(n, "mixed")))
        out.append(("ring%d/custom" % n, _ring(n, "custom")))
    out.append(("ring16/dictpad", _ring(16, "dictpad")))
    out.append(("ring16/customlist", _ring(16, "customlist")))
    out.append(("ring300/dict", _ring(300, "dict")))
    if thorough:
        # (a ring of 300 custom objects builds and copies fine, but its dump nests 4 JSON levels per object: beyond what the
        # worker's json.dumps can encode under the default recursion limit -- a harness limit, so 150)
        out.append(("ring300/mixed", _ring(300, "mixed")))
        out.append(("ring150/custom", _ring(150, "custom")))
        out.append(("ring150/listpad", _ring(150, "listpad")))
    # lasso: an acyclic chain of 20 lists leading into a ring of 16
    ring = _ring(16, "list")
    tail = ring
    for _ in range(20):
        tail = [tail]
    out.append(("lasso20+16/list", tail))
    ringd = _ring(16, "dict")
    out.append(("lasso/dict-in-list", [[[{"a": [ringd]}]]]))
    # a ring whose members all point at one shared acyclic list as well
    shared = [1, [2]]
    cs = [[shared] for _ in range(16)]
    for i in range(16):
        cs[i].append(cs[(i + 1) % 16])
    out.append(("ring16/list+shared", cs[0]))
    # a self-referencing object deep inside custom objects
    o = A()
    cur = o
    for i in range(15):
        nxt = B() if i % 2 else A()
        cur.child = nxt
        cur.tag = i
        cur = nxt
    cur.me = cur
    out.append(("custom-chain15+self", o))
    o2 = A()
    o2.inner = DC(x=[B()], y=None)
    o2.inner.x[0].owner = o2.inner                  # cycle not through the outermost object
    out.append(("custom-inner-cycle", [o2, 1]))
    return out


def _deep_dags(thorough=False):
    """ACYCLIC object graphs, 16-20 levels deep, with heavy sharing (must build fast and never be reported as cyclic).
    The unfolded size is kept small: a tree IR necessarily unfolds sharing, `[d, d]` nested k times has 2^k leaves."""
    out = []
    s = [1, 2]
    lad = [s]
    for _ in range(20):
        lad = [lad, s, s]                           # one shared list at every one of 20 levels
    out.append(("dag/ladder20", lad))
    ev = ["x"]
    cur = [ev]
    for _ in range(19):
        cur = [ev, cur]
    out.append(("dag/same-object-at-20-depths", cur))
    d = [1]
    for i in range(20):
        d = [d, d] if i % 4 == 3 else [d]           # 5 doublings over 20 levels: 32 copies of the innermost list
    out.append(("dag/diamonds20", d))
    f0, f1 = [0], [1]
    for _ in range(13):
        f0, f1 = f1, [f1, f0]                       # Fibonacci sharing: every object is used by the next two levels
    out.append(("dag/fib13", f1))
    b = [1]
    for _ in range(8 if not thorough else 12):
        b = [b, b]
    out.append(("dag/binary%d" % (8 if not thorough else 12), b))
    sd = {"v": 1}
    dl = {"leaf": sd}
    for i in range(10):
        dl = {"a": dl, "s": sd} if i % 2 else [dl, sd, dl] if i == 4 else [dl, sd]
    out.append(("dag/dict-ladder10", dl))
    t = (1, (2,))
    tl = [t]
    for _ in range(16):
        tl = (tl, t)
    out.append(("dag/tuples16", tl))
    oa = A()
    oa.v = [1]
    oc = [oa]
    for i in range(16):
        h = B() if i % 2 else A()
        h.sub = oc
        h.shared = oa
        oc = h
    out.append(("dag/custom16", oc))
    return out


def _outside_domain_cases():
    """Container-valued dict keys / containers inside sets: OUTSIDE C18's domain (a tuple key cannot read back
    as a list).  Still pushed through the correspondence check (the model mirrors them); the monitor is silent."""
    objs = [{(1, 2): 1}, {3: 4, (1, 2): 1}, {(1, 2): 1, 3: 4}, {(1, 2)}, {frozenset([1])}, {frozenset(): 1, 2: 3},
            {(): 1, "": 2}, {(1, 2): 1, (0,): 2, "a": 3}, {A(): 1}, {A(), 1}]
    # two DISTINCT NaN objects as keys of one dict (feature `nankeys2`): duplicate keys as data, the later value wins
    objs += [{float("nan"): 1, float("nan"): 2}, [{float("nan"): "a", float("nan"): "b", 1: "c"}]]
    od = A()
    fs = frozenset([od])
    od.back = fs
    objs.append(fs)                             # cycle through a frozenset and a custom object
    return objs


def gen(rng, tier):
    thorough = tier == "thorough"
    cases = []
    dflt = dict(ake=True, amk=True, ale=True, alesl=True, chk=True, ign=False)
    for o in _edge_cases() + _outside_domain_cases():
        st = extract(o)
        cases.append({"store": st, "root": 0, "runs": _runs_for(rng, st, 3)})
    # long cycles and deep DAGs (fixed shapes; `label` makes them recognisable in the distribution table; never shrunk into
    # something else than a smaller store).  Option sets: defaults (cycle error expected), defaults + ignore_cycles
    # (placeholder expected), and for the smaller ones the opposite dictionary / list strategy as well.
    ign = dict(dflt, ign=True)
    other = dict(ake=False, amk=False, ale=False, alesl=False, chk=True, ign=True)
    match = dict(ake=True, amk=False, ale=True, alesl=False, chk=True, ign=False)
    for label, o in _long_cycles(thorough):
        st = extract(o)
        big = sum(1 for c in st if c["t"] not in SCALARS) > 100
        cases.append({"store": st, "root": 0, "label": label,
                      "runs": _runs_for(rng, st, 0, opts_list=[dflt, ign] if big else [dflt, ign, other, match])})
    for label, o in _deep_dags(thorough):
        st = extract(o)
        big = len(st) > 400 or label.startswith(("dag/fib", "dag/binary"))
        cases.append({"store": st, "root": 0, "label": label,
                      "runs": _runs_for(rng, st, 0, opts_list=[dflt] if big else [dflt, other, match])})
    cases += _probe_cases(thorough)
    n_random = 420 if not thorough else 9000
    for k in range(n_random):
        name, prof, back = PROFILES[k % len(PROFILES)]
        nc = rng.choice([1, 2, 2, 3, 3, 4, 5, 6, 8])
        cells = _gen_store(rng, nc, prof)
        _connect(rng, cells)
        if back:
            _add_back_edges(rng, cells, rng.randint(1, back))
        st = _cells_to_store(cells)
        if st is None:
            continue
        cases.append({"store": st, "root": 0, "runs": _runs_for(rng, st, 3 if not thorough else 4)})
    if thorough:
        cases += _exhaustive(rng, 4, 2, all_opts_every=997)
    else:
        cases += _exhaustive(rng, 2, 2, all_opts_every=7)
    # spread the fixed long / deep cases over the whole list: the engine cuts the list into one chunk per worker, and a
    # regression that makes all rings hang should cost one watchdog period per worker, not twenty in a row
    special = [c for c in cases if c.get("label") or "probe" in c]
    rest = [c for c in cases if not (c.get("label") or "probe" in c)]
    if special:
        stride = max(1, len(rest) // len(special))
        out = []
        for i, c in enumerate(rest):
            if i % stride == 0 and special:
                out.append(special.pop(0))
            out.append(c)
        cases = out + special
    return cases


def _probe_cases(thorough=False):
    """Inputs whose trees are too deep to dump: monitor-only, fixed.  `list-depth` n: `[[[...1...]]]`; `dict-depth` n:
    `{"k": {"k": ... 1}}`; `dict-eq` n: the same with the comparisons of `copy() == tree` counted."""
    out = [{"probe": "list-depth", "n": 300}, {"probe": "list-depth", "n": 400}, {"probe": "list-depth", "n": 500},
           {"probe": "dict-depth", "n": 300}, {"probe": "dict-depth", "n": 1100},
           {"probe": "dict-eq", "n": 8}, {"probe": "dict-eq", "n": 16}]
    if thorough:
        out += [{"probe": "list-depth", "n": 330}, {"probe": "tuple-depth", "n": 500}, {"probe": "dict-eq", "n": 18}]
    return out


def _shapes(n, max_slots):
    """All slot assignments for n containers (each slot: a container id or "s"), every container reachable
    from 0, containers numbered in BFS discovery order (symmetry cut)."""
    per = []
    for ns in range(0, max_slots + 1):
        per += list(itertools.product(list(range(n)) + ["s"], repeat=ns))
    for combo in itertools.product(per, repeat=n):
        order = []
        todo = [0]
        seen_o = {0}
        while todo:
            u = todo.pop(0)
            order.append(u)
            for x in combo[u]:
                if x != "s" and x not in seen_o:
                    seen_o.add(x)
                    todo.append(x)
        if len(order) != n or order != sorted(order):
            continue
        yield combo


_EXH_OPTS = [dict(ake=True, amk=True, ale=True, alesl=True, chk=True, ign=False),
             dict(ake=False, amk=False, ale=False, alesl=True, chk=True, ign=True)]


def _exhaustive(rng, max_containers, max_slots, all_opts_every, full_kinds_upto=3):
    """All stores with <= max_containers container objects over {list, dict, tuple} with <= max_slots slots
    each; a slot holds a reference to any container (including itself / ancestors: cycles) or the scalar 1.
    Dict slots are value slots (keys are the slot index as a string).  Stores Python cannot build (cycles
    through tuples only) are skipped; duplicates after normalisation are merged.  Up to `full_kinds_upto`
    containers every kind assignment is enumerated; above, every SHAPE is enumerated with the all-list
    assignment plus one other assignment (cycling through all 3^n of them)."""
    seen = set()
    out = []
    count = 0
    for n in range(1, max_containers + 1):
        all_kinds = list(itertools.product(["list", "dict", "tuple"], repeat=n))
        for si, combo in enumerate(_shapes(n, max_slots)):
            if n <= full_kinds_upto:
                kinds_list = all_kinds
            else:
                kinds_list = [all_kinds[0], all_kinds[1 + (si * 37) % (len(all_kinds) - 1)]]
            for kinds in kinds_list:
                store = [{"t": kinds[i], "sub": False, "cls": None, "v": None} for i in range(n)]

                def ref(x):
                    if x == "s":
                        store.append(_scalar_cell(1))
                        return len(store) - 1
                    return x

                for i in range(n):
                    if kinds[i] == "dict":
                        v = []
                        for k_i, x in enumerate(combo[i]):
                            store.append(_scalar_cell(str(k_i)))
                            kid = len(store) - 1
                            v.append([kid, ref(x)])
                        store[i]["v"] = v
                    else:
                        store[i]["v"] = [ref(x) for x in combo[i]]
                st = normalise_store(store)
                if st is None:
                    continue
                key = repr(_strip(st))
                if key in seen:
                    continue
                seen.add(key)
                count += 1
                if count % all_opts_every == 0:
                    runs = _runs_for(rng, st, 2, exhaustive=True)
                else:
                    runs = _runs_for(rng, st, 2, opts_list=_EXH_OPTS, diff_same=False)
                out.append({"store": st, "root": 0, "runs": runs})
    return out


# --------------------------------------------------------------------------------------------------
# implementation side

def _mk_options(o):
    from graphtage import BuildOptions
    # note the misspelt keyword of BuildOptions.__init__
    return BuildOptions(allow_key_edits=o["ake"], auto_match_keys=o["amk"], allow_list_edits=o["ale"],
                        allow_list_edits_when_same_length=o["alesl"], check_for_cyces=o["chk"],
                        ignore_cycles=o["ign"])


def _dump_tree(node, cellof):
    from graphtage import (LeafNode, ListNode, MultiSetNode, DictNode, FixedKeyDictNode, KeyValuePairNode,
                           StringNode)
    from graphtage.builder import CyclicReference
    from graphtage.object_set import IdentityHash
    from graphtage.pydiff import PyObj
    cn = type(node).__name__
    if cn.startswith("Edited"):
        cn = cn[len("Edited"):]           # pydiff.diff returns the edited copy of the FROM tree
    if isinstance(node, CyclicReference):
        o = node.object
        depth = 0
        while isinstance(o, IdentityHash):
            o = o.obj
            depth += 1
        return ["cyc", cn, cellof.get(id(o), -1), depth]
    if isinstance(node, LeafNode):
        k = _scalar_kind(node.object)
        if k is None:
            return ["leaf?", cn, type(node.object).__name__]
        q = bool(node.quoted) if isinstance(node, StringNode) else True
        return ["leaf", cn, k, _scalar_text(node.object), q]
    if isinstance(node, KeyValuePairNode):
        return ["kvp", cn, bool(node.allow_key_edits), _dump_tree(node.key, cellof), _dump_tree(node.value, cellof)]
    if isinstance(node, PyObj):
        return ["pyobj", cn, _dump_tree(node.class_name, cellof), _dump_tree(node.attrs, cellof)]
    if isinstance(node, FixedKeyDictNode):
        for k, kvp in node._children.items():
            assert kvp.key is k
        return ["fdict", cn, [_dump_tree(c, cellof) for c in node._children.values()]]
    if isinstance(node, DictNode):
        return ["dict", cn, bool(node.auto_match_keys), [_dump_tree(c, cellof) for c in node._children.elements()]]
    if isinstance(node, MultiSetNode):
        return ["mset", cn, bool(node.auto_match_keys), [_dump_tree(c, cellof) for c in node._children.elements()]]
    if isinstance(node, ListNode):
        return ["list", cn, bool(node.allow_list_edits), bool(node.allow_list_edits_when_same_length),
                [_dump_tree(c, cellof) for c in node._children]]
    return ["?", cn]


def _shape(d):
    """A tree dump without the option flags (booleans) that copy() is known, and modelled, to reset."""
    if isinstance(d, list):
        if d and d[0] == "cyc":
            return d[:3]          # the copy wraps the referenced object in one more IdentityHash (modelled)
        return [_shape(x) for x in d if not isinstance(x, bool)]
    return d


def _dump_obj(o, cellof):
    from graphtage.object_set import IdentityHash
    from graphtage.utils import HashableCounter
    from graphtage import LeafNode, TreeNode
    import collections
    if isinstance(o, IdentityHash):
        depth = 0
        while isinstance(o, IdentityHash):
            o = o.obj
            depth += 1
        return ["id", cellof.get(id(o), -1), depth]
    if isinstance(o, LeafNode):
        # PyObj.to_obj() uses the class-name *node* as the dictionary key
        return ["s", _scalar_kind(o.object), _scalar_text(o.object)]
    if isinstance(o, TreeNode):
        return ["node", type(o).__name__]
    k = _scalar_kind(o)
    if k is not None:
        return ["s", k, _scalar_text(o)]
    if isinstance(o, collections.Counter):
        return ["m", [_dump_obj(x, cellof) for x in o.elements()]]
    if isinstance(o, dict):
        return ["d", [[_dump_obj(k_, cellof), _dump_obj(v_, cellof)] for k_, v_ in o.items()]]
    if isinstance(o, list):
        return ["l", [_dump_obj(x, cellof) for x in o]]
    if isinstance(o, tuple):
        return ["t", [_dump_obj(x, cellof) for x in o]]
    return ["?", type(o).__name__]


def _exc_name(e):
    if isinstance(e, ValueError) and str(e).startswith("Detected a cycle"):
        return "cycle"
    return type(e).__name__


def _guard(f):
    from harness.worker import Hang
    try:
        return True, f()
    except Hang:
        raise
    except RecursionError:
        return False, "RecursionError"
    except Exception as e:
        return False, _exc_name(e)


_PLAIN = [1, 2]


def _impl_diff(run, root, o, cellof):
    """`pydiff.diff(from, to, options)`: the object goes on the FROM side, the TO side, or both; the other side is
    the plain list [1, 2].  Reference = `pydiff.build_tree(side, options)` of each side under the same options."""
    from graphtage import pydiff
    side = run["side"]
    plain = list(_PLAIN)
    frm = plain if side == "to" else root
    to = plain if side == "from" else root
    r = {}
    ok, ref_f = _guard(lambda: pydiff.build_tree(frm, _mk_options(run["opts"])))
    r["ref_from"] = _dump_tree(ref_f, cellof) if ok else {"err": ref_f}
    ok, ref_t = _guard(lambda: pydiff.build_tree(to, _mk_options(run["opts"])))
    r["ref_to"] = _dump_tree(ref_t, cellof) if ok else {"err": ref_t}
    ok, d = _guard(lambda: pydiff.diff(frm, to, o))
    if not ok:
        r["err"] = d
        return r
    r["err"] = "ok"
    r["from_tree"] = _dump_tree(d, cellof)
    ed = getattr(d, "edit", None)
    tn = getattr(ed, "to_node", None)
    r["to_tree"] = _dump_tree(tn, cellof) if tn is not None else None
    return r


_USER_BUILDER = []


def _user_builder():
    """A user-defined builder in the style of the library documentation (`docs/builder.rst`, `test_custom_builder`): the
    custom classes A / B / DC are expanded to the values of their public attributes (in `dir()` order) and built as a list
    carrying the list options.  Defined once per worker process, after graphtage's own builder classes."""
    if not _USER_BUILDER:
        from graphtage.builder import BasicBuilder, Builder

        class UserBuilder(BasicBuilder):
            @Builder.expander(A)
            @Builder.expander(B)
            @Builder.expander(DC)
            def expand_custom(self, obj):
                for n in _custom_attrs(obj):
                    if not n.startswith("__"):
                        yield getattr(obj, n)

            @Builder.builder(A)
            @Builder.builder(B)
            @Builder.builder(DC)
            def build_custom(self, obj, children):
                return self.build_list(obj, children)

        _USER_BUILDER.append(UserBuilder)
    return _USER_BUILDER[0]


def _userb_reference_store(store):
    """What UserBuilder must produce = what BasicBuilder produces on the same graph with every custom object replaced by
    the LIST of its public attribute values (same cell ids, so placeholders are comparable)."""
    out = []
    for c in store:
        if c["t"] == "custom":
            out.append({"t": "list", "sub": False, "cls": None, "mro": ["list", "object"],
                        "v": [j for n, j in c["v"] if not n.startswith("__")]})
        else:
            out.append(c)
    return out


def _impl_userb(run, root, o, cellof, store):
    from graphtage.builder import BasicBuilder
    r = {}
    ok, t = _guard(lambda: _user_builder()(o).build_tree(root))
    r["err"] = "ok" if ok else t
    if ok:
        r["tree"] = _dump_tree(t, cellof)
    ref_store = _userb_reference_store(store)
    ref_root, ref_objs = materialise(ref_store, 0)
    ref_cellof = {id(ref_objs[i]): i for i, c in enumerate(ref_store) if c["t"] not in SCALARS}
    ok, t2 = _guard(lambda: BasicBuilder(_mk_options(run["opts"])).build_tree(ref_root))
    r["ref"] = _dump_tree(t2, ref_cellof) if ok else {"err": t2}
    return r


def _is_clean(node, memo):
    """no PyObj / CyclicReference below `node` (the two node classes whose `==` is identity: known findings)"""
    from graphtage.builder import CyclicReference
    from graphtage.pydiff import PyObj
    todo = [node]
    while todo:
        n = todo.pop()
        if isinstance(n, (CyclicReference, PyObj)):
            return False
        todo.extend(n.children())
    return True


def _clean_subtree_copies(tree):
    """`copy() == node` on every MAXIMAL sub-tree without PyObj / CyclicReference of a tree that contains one (for such
    trees `copy() == tree` itself carries no information).  Returns the failures as [node class, outcome]."""
    bad = []
    n_checked = 0
    todo = [tree]
    while todo:
        n = todo.pop()
        if n.is_leaf:
            continue
        if _is_clean(n, None):
            n_checked += 1
            ok, c = _guard(n.copy)
            if not ok:
                bad.append([type(n).__name__, "copy-raises/" + c])
                continue
            ok, e = _guard(lambda: bool(c == n))
            if not ok:
                bad.append([type(n).__name__, "eq-raises/" + e])
            elif not e:
                bad.append([type(n).__name__, "neq"])
        else:
            todo.extend(n.children())
    return n_checked, bad


def _to_obj_holds_nodes(tree):
    """`to_obj()` is documented (tree.py) as "a pure Python representation ... container nodes should recursively call to_obj
    on all of their children".  For every node of the tree: does the value its OWN to_obj() returns hold a TreeNode at its top
    level (as element, key or value)?  Returns the sorted qualified names of the guilty to_obj implementations."""
    from graphtage import TreeNode
    guilty = set()
    todo = [tree]
    count = 0
    while todo:
        n = todo.pop()
        todo.extend(n.children())
        count += 1
        if count > 4000:
            break
        try:
            v = n.to_obj()
        except BaseException as e:          # reported by the root-level to_obj check
            if type(e).__name__ == "Hang":
                raise
            continue
        if isinstance(v, dict):
            parts = list(v.keys()) + list(v.values())
        elif isinstance(v, (list, tuple, set, frozenset)):
            parts = list(v)
        else:
            parts = [v]
        if any(isinstance(x, TreeNode) for x in parts):
            guilty.add(type(n).to_obj.__qualname__)
    return sorted(guilty)


def _nest(kind, n):
    x = 1
    for _ in range(n):
        x = [x] if kind == "list" else (x,) if kind == "tuple" else {"k": x}
    return x


def _count_nodes(tree):
    n = 0
    todo = [tree]
    while todo:
        x = todo.pop()
        n += 1
        todo.extend(x.children())
    return n


def _impl_probe(case):
    """Deep inputs, summarised (no dumps).  Runs with the interpreter's DEFAULT recursion limit: that limit is the bound
    being probed."""
    from graphtage.builder import BasicBuilder
    from graphtage import pydiff, json as gjson, KeyValuePairNode
    kind, n = case["probe"], case["n"]
    shape = "dict" if kind.startswith("dict") else kind.split("-")[0]
    obj = _nest(shape, n)
    out = {"probe": kind, "n": n, "entries": {}}
    for entry, f in (("basic", lambda: BasicBuilder().build_tree(obj)), ("pydiff", lambda: pydiff.build_tree(obj)),
                     ("json", lambda: gjson.build_tree(obj))):
        ok, tree = _guard(f)
        r = {"err": "ok" if ok else tree}
        out["entries"][entry] = r
        if not ok:
            continue
        r["nodes"] = _count_nodes(tree)
        ok, v = _guard(tree.to_obj)
        r["toobj"] = ("eq" if v == obj else "neq") if ok else {"err": v}
        ok, cp = _guard(tree.copy)
        r["copy"] = "ok" if ok else {"err": cp}
        if not ok:
            continue
        if shape == "dict" and kind != "dict-eq":
            continue                    # `==` on dicts nested this deep does not finish (see dict-eq)
        calls = [0]
        orig = KeyValuePairNode.__eq__

        def counting(a, b, _orig=orig, _calls=calls):
            _calls[0] += 1
            return _orig(a, b)
        if kind == "dict-eq":
            KeyValuePairNode.__eq__ = counting
        try:
            ok, e = _guard(lambda: bool(cp == tree))
        finally:
            KeyValuePairNode.__eq__ = orig
        r["copy_eq"] = e if ok else {"err": e}
        if kind == "dict-eq":
            r["eq_calls"] = calls[0]
    return out


def impl(case):
    from graphtage.builder import BasicBuilder
    from graphtage import pydiff, json as gjson
    if "probe" in case:
        return _impl_probe(case)
    store = case["store"]
    root, objs = materialise(store, case["root"])
    back = extract(root)
    if _strip(back) != _strip(store) or case["root"] != 0:
        return {"error": "internal", "exc": "MaterialiseMismatch"}
    cellof = {}
    for i, c in enumerate(store):
        if c["t"] not in SCALARS:
            cellof[id(objs[i])] = i
    set_orders = {}
    for i, c in enumerate(store):
        if c["t"] in ("set", "frozenset"):
            members = {id(objs[j]): j for j in c["v"]}
            set_orders[str(i)] = [members[id(x)] for x in objs[i]]
    out = []
    for run in case["runs"]:
        o = _mk_options(run["opts"])
        entry = run["entry"]
        if entry == "diff":
            out.append(_impl_diff(run, root, o, cellof))
            continue
        if entry == "userb":
            out.append(_impl_userb(run, root, o, cellof, store))
            continue
        if entry == "basic":
            f = lambda: BasicBuilder(o).build_tree(root)
        elif entry == "pydiff":
            f = lambda: pydiff.build_tree(root, o)
        else:
            f = lambda: gjson.build_tree(root, o)
        ok, tree = _guard(f)
        if not ok:
            out.append({"err": tree})
            continue
        r = {"err": "ok", "tree": _dump_tree(tree, cellof)}
        ok, v = _guard(tree.to_obj)
        r["toobj"] = _dump_obj(v, cellof) if ok else {"err": v}
        r["x_holds_nodes"] = _to_obj_holds_nodes(tree)
        if _contains_tag(r["tree"], "cyc") or _contains_tag(r["tree"], "pyobj"):
            r["x_clean_checked"], r["x_clean_bad"] = _clean_subtree_copies(tree)
        ok, cp = _guard(tree.copy)
        if not ok:
            r["copy"] = {"err": cp}
        else:
            r["copy"] = _dump_tree(cp, cellof)
            ok, eq = _guard(lambda: bool(cp == tree))
            r["copy_eq"] = eq if ok else {"err": eq}
            ok, v2 = _guard(cp.to_obj)
            r["copy_toobj"] = _dump_obj(v2, cellof) if ok else {"err": v2}
        out.append(r)
    return {"runs": out, "set_orders": set_orders}


# --------------------------------------------------------------------------------------------------
# model side

MODELLED = ("basic", "pydiff", "json")
MODEL_FIELDS = ("err", "tree", "toobj", "copy", "copy_eq", "copy_toobj")      # `x_*` fields are monitor-only observations


def to_model(case, obs):
    if "probe" in case or not isinstance(obs, dict) or "runs" not in obs:
        return None
    if store_features(case["store"]) & {"ckey", "cmember"}:
        return None          # outside C18's domain and outside the model (needs str() of container nodes)
    store = []
    for i, c in enumerate(case["store"]):
        d = dict(c)
        if d["t"] in ("set", "frozenset"):
            d["v"] = obs["set_orders"][str(i)]
        store.append(d)
    return {"s": "build", "store": store, "root": case["root"],
            "runs": [r for r in case["runs"] if r["entry"] in MODELLED]}


def expect(case, obs):
    return [{k: v for k, v in r.items() if k in MODEL_FIELDS}
            for run, r in zip(case["runs"], obs["runs"]) if run["entry"] in MODELLED]


# --------------------------------------------------------------------------------------------------
# monitor: C18's statement evaluated directly on the observations

def _contains_tag(d, tag):
    todo = [d]                                   # iterative: dumps of 300-deep trees nest 600 levels
    while todo:
        x = todo.pop()
        if isinstance(x, list):
            if x and x[0] == tag:
                return True
            todo.extend(x)
    return False


def _contains_cyc(d):
    return _contains_tag(d, "cyc")


def _deep_ok():
    """The monitor walks dumps recursively; it runs in the engine process (never in the worker, where the interpreter's
    default limit is part of what is observed), so the limit can be raised safely."""
    import sys
    if sys.getrecursionlimit() < 20000:
        sys.setrecursionlimit(20000)


def _in_domain(entry, feats, store):
    """Is the object graph inside the documented input domain of the entry point?"""
    if entry == "basic":
        return "custom" not in feats
    if entry == "pydiff":
        return True
    # json.build_tree: int, float, bool, str, None, list(/tuple), dict with str keys
    return not (feats & JSON_OUT)


def _monitor_diff(run, r, hit):
    """pydiff.diff must build both sides exactly as pydiff.build_tree does under the same options."""
    side = run["side"]
    rf, rt = r["ref_from"], r["ref_to"]
    if isinstance(rf, dict):
        want = rf["err"]                  # the FROM object is built first
    elif isinstance(rt, dict):
        want = rt["err"]
    else:
        want = "ok"
    if want == "ok" and r["err"] not in ("ok", "cycle"):
        return        # raised by the DIFFING phase (e.g. str vs bytes string edit), not by building: outside C18
    if r["err"] != want:
        bad_side = "from" if isinstance(rf, dict) or (r["err"] != "ok" and side == "from") else "to"
        hit(f"pydiff-diff/{bad_side}-side-options" if "cycle" in (r["err"], want) else "pydiff-diff/error-mismatch",
            f"pydiff.diff(side={side}) outcome {r['err']} but pydiff.build_tree of the sides gives {want} under the same options")
        return
    if want != "ok":
        return
    if r["to_tree"] != rt:
        hit("pydiff-diff/to-side-options",
            f"pydiff.diff(side={side}): the TO tree differs from pydiff.build_tree(to, options): {r['to_tree']!r} vs {rt!r}")
    if r["from_tree"] != rf:
        hit("pydiff-diff/from-side-options",
            f"pydiff.diff(side={side}): the FROM tree differs from pydiff.build_tree(from, options): {r['from_tree']!r} vs {rf!r}")


def _check_options(d, o, entry, hit):
    """Every node of a freshly built tree carries the options it was built under: lists the two list flags, mappings the
    dictionary strategy (allow_key_edits=False -> fixed-key mapping; else a DictNode-like mapping whose auto_match_keys is the
    option), key/value pairs `allow_key_edits`.  (MultiSetNode takes no option in `build_set`.)"""
    seen = set()
    todo = [d]
    while todo:
        x = todo.pop()
        if not isinstance(x, list) or not x or not isinstance(x[0], str):
            continue
        tag = x[0]
        bad = None
        if tag == "list":
            if (x[2], x[3]) != (o["ale"], o["alesl"]):
                bad = f"list flags {(x[2], x[3])} instead of {(o['ale'], o['alesl'])}"
            todo.extend(x[4])
        elif tag == "dict":
            if not o["ake"]:
                bad = "a key-editable mapping although allow_key_edits=False"
            elif x[2] != o["amk"]:
                bad = f"auto_match_keys={x[2]} instead of {o['amk']}"
            todo.extend(x[3])
        elif tag == "fdict":
            if o["ake"]:
                bad = "a fixed-key mapping although allow_key_edits=True"
            todo.extend(x[2])
        elif tag == "kvp":
            if x[2] != o["ake"]:
                bad = f"allow_key_edits={x[2]} instead of {o['ake']}"
            todo.extend(x[3:5])
        elif tag == "mset":
            todo.extend(x[3])
        elif tag == "pyobj":
            todo.extend(x[2:4])
        if bad and (x[1], bad) not in seen:
            seen.add((x[1], bad))
            hit("options-not-applied/" + x[1], f"{entry}: a {x[1]} of the built tree has {bad}")


def _recursion(err):
    return err == "RecursionError"


def _monitor_probe(case, obs, hit):
    """Deep acyclic in-domain inputs: every entry point must build, read back, copy, and the copy must be equal."""
    kind, n = case["probe"], case["n"]
    at = f"@{kind}-{n}"
    if not isinstance(obs, dict) or "entries" not in obs:
        if isinstance(obs, dict) and obs.get("error") == "hang":
            hit("hang" + at, f"probe {kind} {n}: no result within the watchdog")
        else:
            hit("crash/" + str(obs.get("exc") if isinstance(obs, dict) else "?") + at, "worker failed: %r" % (obs,))
        return
    shape = "dict nested" if kind.startswith("dict") else kind.split("-")[0] + " nested"
    for entry, r in sorted(obs["entries"].items()):
        err = r["err"]
        if err != "ok":
            pre = "recursion-limit/build" if _recursion(err) else "build-raises/" + err
            hit(f"{pre}{at}", f"{entry}: build_tree of a {shape} {n} deep raised {err}")
            continue
        t = r.get("toobj")
        if isinstance(t, dict):
            pre = "recursion-limit/to_obj" if _recursion(t["err"]) else "to_obj-raises/" + t["err"]
            hit(f"{pre}{at}", f"{entry}: to_obj() of a {shape} {n} deep raised {t['err']}")
        elif t != "eq":
            hit("to_obj-neq" + at, f"{entry}: to_obj() of a {shape} {n} deep differs from the input")
        c = r.get("copy")
        if isinstance(c, dict):
            pre = "recursion-limit/copy" if _recursion(c["err"]) else "copy-raises/" + c["err"]
            hit(f"{pre}{at}", f"{entry}: copy() of a {shape} {n} deep raised {c['err']}")
            continue
        if "copy_eq" in r:
            e = r["copy_eq"]
            if isinstance(e, dict):
                pre = "recursion-limit/copy-eq" if _recursion(e["err"]) else "copy-eq-raises/" + e["err"]
                hit(f"{pre}{at}", f"{entry}: copy() == tree of a {shape} {n} deep raised {e['err']}")
            elif e is not True:
                hit("copy-neq" + at, f"{entry}: copy() == tree is {e!r}")
        if "eq_calls" in r:
            # a linear-size tree: `==` may look at every node a few times, quadratic at the very worst
            nodes = r["nodes"]
            if r["eq_calls"] > 4 * nodes * nodes:
                hit("copy-eq-exponential" + at,
                    f"{entry}: copy() == tree on a {shape} {n} deep ({nodes} nodes) made {r['eq_calls']} key/value-pair "
                    f"comparisons (about 2^{n}: collections.Counter.__eq__ looks every element up from both sides, and each "
                    f"lookup compares the nested mapping again); depth 20 takes 3 s, depth 24 over 45 s")


def _unordered_msets(d):
    """a tree dump with the children of every MultiSetNode sorted: the reference of `userb` is built from a second
    materialisation of the store, and the iteration order of a set depends on the objects (a NaN hashes by address)"""
    import json
    if isinstance(d, list):
        x = [_unordered_msets(c) for c in d]
        if x and x[0] == "mset":
            x[3] = sorted(x[3], key=lambda c: json.dumps(c, sort_keys=True))
        return x
    return d


def _monitor_userb(run, r, store, hit):
    """A user-defined Builder subclass must convert the custom objects by ITS OWN handlers, whatever other builder classes
    have seen these types before in the process."""
    ref = r["ref"]
    want = ref["err"] if isinstance(ref, dict) else "ok"
    if r["err"] != want:
        hit("user-builder/outcome/" + r["err"],
            f"UserBuilder (own expander/builder for the custom classes): {r['err']}, but BasicBuilder on the same graph with "
            f"the objects replaced by lists gives {want}")
    elif want == "ok" and _unordered_msets(r["tree"]) != _unordered_msets(ref):
        hit("user-builder/tree", f"UserBuilder's tree differs from the reference: {r['tree']!r} vs {ref!r}")


def monitor(case, obs):
    _deep_ok()
    hits = []

    def hit(key, what):
        hits.append({"prop": "C18", "key": key, "what": what})

    if "probe" in case:
        _monitor_probe(case, obs, hit)
        return hits
    at = "@" + case["label"] if case.get("label") else ""
    if not isinstance(obs, dict) or "runs" not in obs:
        if isinstance(obs, dict) and (obs.get("error") == "hang" or
                                      (obs.get("exc") == "WorkerDied" and "timeout" in str(obs.get("msg")))):
            # one key for all inputs (the engine confirms every distinct key with a 5x longer run)
            hit("hang", "building / copying did not terminate within the watchdog" + (" (input: " + case["label"] + ")" if at else ""))
        elif isinstance(obs, dict) and obs.get("exc") == "MaterialiseMismatch":
            pass
        else:
            hit("crash/" + str(obs.get("exc") if isinstance(obs, dict) else "?") + at, "worker failed: %r" % (obs,))
        return hits
    store = case["store"]
    cyc = has_cycle(store)
    feats = store_features(store)
    container_key = bool(feats & {"ckey", "cmember"})
    if container_key:
        return hits                              # outside the domain of C18 (see NOTES)
    dupnan = "nankeys2" in feats                 # duplicate keys as data: the VALUE checks do not apply (see store_features)
    by_opts = {}
    for run, r in zip(case["runs"], obs["runs"]):
        entry, o = run["entry"], run["opts"]
        if entry == "diff":
            _monitor_diff(run, r, hit)
            continue
        if entry == "userb":
            _monitor_userb(run, r, store, hit)
            if r["err"] == "ok":
                _check_options(r["tree"], o, entry, hit)
            continue
        tagsfx = "/container-key" if container_key else ""
        indom = _in_domain(entry, feats, store)
        err = r["err"]
        if _recursion(err):
            hit("recursion-limit/build" + at, f"{entry}: build_tree raised RecursionError")
            continue
        if cyc:
            if not o["chk"]:
                continue                         # documented opt-out
            if not indom and err in ("NotImplementedError",):
                continue
            if o["ign"]:
                if err != "ok":
                    hit("cycle-ignored-raises/" + err + tagsfx, f"{entry}: ignore_cycles=True but build raised {err}")
                    continue
                if not _contains_cyc(r["tree"]):
                    hit("cycle-no-placeholder", f"{entry}: cyclic input, ignore_cycles=True, but no placeholder in the tree")
            else:
                if err != "cycle":
                    hit("cycle-not-reported/" + err + tagsfx, f"{entry}: cyclic input, expected the cycle error, got {err}")
                continue
        else:
            if err == "cycle":
                hit("sharing-as-cycle", f"{entry}: acyclic input (with sharing={'shared' in feats}) reported as a cycle")
                continue
            if err != "ok":
                if indom:
                    hit("build-raises/" + err + tagsfx, f"{entry}: acyclic in-domain input raised {err}")
                continue
            if _contains_cyc(r["tree"]):
                hit("placeholder-on-acyclic", f"{entry}: acyclic input produced a cycle placeholder")
            # value round trip
            if isinstance(r["toobj"], dict):
                pre = "recursion-limit/to_obj" + at if _recursion(r["toobj"]["err"]) else "to_obj-raises/" + r["toobj"]["err"]
                hit(pre + tagsfx, f"{entry}: to_obj() raised {r['toobj']['err']}")
            elif indom and not dupnan:
                want = norm_value(store, case["root"])
                got = obj_key(r["toobj"])
                if want != got:
                    sfx = "/json-bytes" if (entry == "json" and "bytes" in feats) else ""
                    hit("to_obj-neq" + sfx, f"{entry}: to_obj() differs from the original value: {r['toobj']!r}")
            if indom:
                by_opts.setdefault(tuple(o[k] for k in OPT_KEYS), {})[entry] = r["tree"]
        if err != "ok":
            continue
        # the build options reach every node (any successfully built tree, cyclic or not)
        _check_options(r["tree"], o, entry, hit)
        # to_obj() values are plain Python data: no TreeNode inside (keyed by the to_obj implementation that returned one)
        for q in r.get("x_holds_nodes", []):
            hit("to_obj-holds-node/" + q, f"{entry}: the value returned by {q}() holds tree NODES instead of their plain values")
        # deep copy (any successfully built tree)
        cp = r.get("copy")
        if isinstance(cp, dict):
            pre = "recursion-limit/copy" + at if _recursion(cp["err"]) else "copy-raises/" + cp["err"]
            hit(pre, f"{entry}: copy() raised {cp['err']}")
        else:
            eq = r.get("copy_eq")
            if isinstance(eq, dict):
                pre = "recursion-limit/copy-eq" + at if _recursion(eq["err"]) else "copy-eq-raises/" + eq["err"]
                hit(pre, f"{entry}: copy() == tree raised {eq['err']}")
            elif eq is not True:
                # the two recorded findings are about node EQUALITY of placeholder / PyObj nodes: the copy itself is
                # node for node the tree; a copy that differs structurally is something else
                same = (_shape(cp) == _shape(r["tree"]))
                sfx = "/differs-structurally" if not same else \
                    "/cyclicref" if _contains_cyc(r["tree"]) else "/pyobj" if _contains_tag(r["tree"], "pyobj") else ""
                hit("copy-neq" + sfx, f"{entry}: copy() == tree is {eq!r}" + ("" if same else "; the copy's structure differs from the tree's"))
            if r.get("copy_toobj") != r.get("toobj") and not _contains_cyc(r["tree"]):
                hit("copy-to_obj-neq", f"{entry}: copy().to_obj() differs from to_obj()")
        # ... and, where the tree holds a placeholder / PyObj (whose `==` is identity: the two findings above), on every maximal
        # sub-tree that holds neither
        for cls, what in r.get("x_clean_bad", []):
            pre = "recursion-limit/copy-eq" + at if what.endswith("RecursionError") else "copy-neq/clean-subtree/" + cls
            hit(pre, f"{entry}: copy() of a {cls} sub-tree without placeholder / PyObj: {what}")
    # identical through every entry point (same options, every entry whose domain contains the input)
    for key, trees in by_opts.items():
        ents = sorted(trees)
        for a, b in zip(ents, ents[1:]):
            if trees[a] != trees[b]:
                sfx = "/json-bytes" if ("json" in (a, b) and "bytes" in feats) else ""
                hit("entry-disagree" + sfx, f"{a} and {b} build different trees for the same input and options")
    return hits


def classify(case, obs):
    if "probe" in case:
        return "probe/%s-%d" % (case["probe"], case["n"])
    if case.get("label"):
        return "fixed/" + case["label"]
    store = case["store"]
    feats = store_features(store)
    nc = sum(1 for c in store if c["t"] not in SCALARS)
    shape = "cyclic" if has_cycle(store) else ("dag" if "shared" in feats else "tree")
    extra = "+".join(sorted(feats - {"shared"}))
    size = "c0" if nc == 0 else "c1" if nc == 1 else "c2-3" if nc <= 3 else "c4-6" if nc <= 6 else "c7+"
    return f"{shape}/{size}" + ("/" + extra if extra else "")


def nontrivial(case, obs):
    return "probe" in case or any(c["t"] not in SCALARS for c in case["store"])


def shrink(case):
    if "probe" in case:
        return
    store = case["store"]
    runs = case["runs"]
    if len(store) > 120:
        # long rings / deep DAGs: only fewer runs (slot-by-slot shrinking of a 300-ring costs a worker round per slot)
        if len(runs) > 1:
            for i in range(len(runs)):
                yield dict(case, runs=[runs[i]])
        return
    # fewer runs
    if len(runs) > 1:
        for i in range(len(runs)):
            yield dict(case, runs=[runs[i]])
    # drop one slot of one container
    for i, c in enumerate(store):
        if c["t"] in SCALARS:
            continue
        for k in range(len(c["v"])):
            st = [dict(x) for x in store]
            st[i] = dict(c, v=c["v"][:k] + c["v"][k + 1:])
            ns = normalise_store(st)
            if ns is not None:
                yield {"store": ns, "root": 0, "runs": runs}
    # replace a container slot by a scalar
    for i, c in enumerate(store):
        if c["t"] in ("list", "tuple"):
            for k, j in enumerate(c["v"]):
                if store[j]["t"] not in SCALARS:
                    st = [dict(x) for x in store] + [_scalar_cell(1)]
                    st[i] = dict(c, v=c["v"][:k] + [len(st) - 1] + c["v"][k + 1:])
                    ns = normalise_store(st)
                    if ns is not None:
                        yield {"store": ns, "root": 0, "runs": runs}

"""Stream `cli` (C14, exit-status half of C02): the real command line on files whose names disagree with their
contents, under every way of selecting the two parsers and the option aliases; compared with
  * the L9 model's prediction of which parser reads which file and of the build / printer options, and
  * the library call sequence (get_filetype + build_tree + diff + formatter.print) on the same files."""
import json

NAME = "cli"

TYPES = {
    "json": ["application/json", "application/x-javascript", "text/javascript", "text/x-javascript", "text/x-json"],
    "json5": ["application/json5", "text/x-json5"],
    "pickle": ["application/python-pickle", "application/x-python-pickle"],
    "csv": ["text/csv"],
    "xml": ["application/xml", "text/xml"],
    "html": ["text/html", "application/xhtml+xml"],
    "yaml": ["application/x-yaml", "application/yaml", "text/yaml", "text/x-yaml", "text/vnd.yaml"],
    "plist": ["application/x-plist"],
}

J1 = '{"a": [1, 2, 3], "b": "x", "c": {"d": true}}'
J2 = '{"a": [1, 3], "b": "xy", "c": {"d": true, "e": null}}'
X1 = '<?xml version="1.0"?><root k="v"><item>one</item><item n="2">two</item></root>'
X2 = '<?xml version="1.0"?><root k="w"><item>one</item><extra/></root>'

# name -> content; the extension deliberately says something else than the content in most of them
FILESETS = [
    {"a.txt": J1, "b.txt": J2},                 # no usable guess: needs explicit types
    {"a.xml": J1, "b.csv": J2},                 # wrong guesses
    {"a.json": J1, "b.yaml": J2},               # right guesses, JSON is also YAML
    {"a.json": X1, "b.json": X2},               # XML content named .json
    {"a": J1, "b.plist": J2},
    {"a.json": J1, "b.json": J1},               # identical
    {"a.json": "1", "b.json": "2"},             # top-level scalars that differ (a non-zero-cost Match at the root)
    {"a.json": '"a"', "b.json": '"b"'},
    {"a.json": "true", "b.yaml": "false"},
    {"a.json": "[1, 2]", "b.json": "7"},        # container replaced by a scalar at the root
]


def _sel_options(kind_types):
    """All ways to select a parser for one file: none | mime | type flag."""
    opts = [None]
    for t in kind_types:
        opts.append(("type", t))
        for m in TYPES[t]:
            opts.append(("mime", m))
    return opts


def _argv(args, names):
    av = []
    if args.get("from_mime"):
        av += ["--from-mime", args["from_mime"]]
    if args.get("from_type"):
        av += ["--from-" + args["from_type"]]
    if args.get("to_mime"):
        av += ["--to-mime", args["to_mime"]]
    if args.get("to_type"):
        av += ["--to-" + args["to_type"]]
    if args.get("dict_strategy"):
        av += ["--dict-strategy", args["dict_strategy"]]
    for flag, opt in (("k", "-k"), ("l", "-l"), ("ll", "-ll"), ("j", "-j"), ("jl", "-jl"), ("jd", "-jd")):
        if args.get(flag):
            av.append(opt)
    av += ["--no-status"] + list(args.get("extra", []))
    return av + list(names)


def _mk(files, runs, equiv=None, lib=False):
    names = list(files)
    return {"files": {n: {"text": c} for n, c in files.items()}, "names": names,
            "runs": [{"args": a, "argv": _argv(a, names)} for a in runs], "equiv": equiv or [], "lib": lib}


def _sel_args(prefix, sel):
    if sel is None:
        return {}
    return {prefix + "_" + sel[0]: sel[1]}


def gen(rng, tier):
    cases = []
    text_types = ["json", "json5", "yaml", "xml", "html", "plist", "csv"]
    sels = _sel_options(text_types)
    # (1) alias: --X-T vs --X-mime default(T), for both files, on every fileset
    for fs in FILESETS:
        for t in text_types:
            d = TYPES[t][0]
            other = rng.choice(sels)
            cases.append(_mk(fs, [dict({"from_type": t}, **_sel_args("to", other)), dict({"from_mime": d}, **_sel_args("to", other))], [[0, 1]]))
            cases.append(_mk(fs, [dict({"to_type": t}, **_sel_args("from", other)), dict({"to_mime": d}, **_sel_args("from", other))], [[0, 1]]))
    # (2) option aliases
    for fs in FILESETS:
        base = {"from_type": "json", "to_type": "json"} if not list(fs)[0].endswith(".json") or fs[list(fs)[0]].startswith("<") else {}
        if fs[list(fs)[0]].startswith("<"):
            base = {"from_type": "xml", "to_type": "xml"}
        cases.append(_mk(fs, [dict(base, k=True), dict(base, dict_strategy="none")], [[0, 1]], lib=True))
        cases.append(_mk(fs, [dict(base, j=True), dict(base, jl=True, jd=True)], [[0, 1]], lib=True))
        cases.append(_mk(fs, [dict(base), dict(base, dict_strategy="auto")], [[0, 1]], lib=True))
        cases.append(_mk(fs, [dict(base, l=True)], lib=True))
        cases.append(_mk(fs, [dict(base, ll=True, dict_strategy="match")], lib=True))
    # (2b) `-f T` with T the type of the FROM file is the default formatter (help text of --format), in every mode
    for fs, ft, tt in ((FILESETS[2], "json", "yaml"), (FILESETS[0], "json", "json5"), (FILESETS[0], "yaml", "json"), (FILESETS[3], "xml", "html")):
        for mode in ([], ["-d"], ["-e"]):
            base = {"from_type": ft, "to_type": tt}
            cases.append(_mk(fs, [dict(base, extra=mode), dict(base, extra=mode + ["-f", ft])], [[0, 1]], lib=(mode == [])))
    # (3) the selection cross product (exhaustive in thorough, sampled in quick)
    pairs = [(a, b) for a in sels for b in sels]
    if tier == "quick":
        pairs = rng.sample(pairs, 120)
    for a, b in pairs:
        fs = rng.choice(FILESETS) if tier == "quick" else FILESETS[(hash((str(a), str(b))) & 0xffff) % len(FILESETS)]
        cases.append(_mk(fs, [dict(_sel_args("from", a), **_sel_args("to", b))], lib=(a is not None and b is not None)))
    if tier == "thorough":
        for fs in FILESETS[:2]:
            for a, b in pairs:
                cases.append(_mk(fs, [dict(_sel_args("from", a), **_sel_args("to", b))]))
    return cases


def _opts_of(o):
    return [bool(o.allow_key_edits), bool(o.auto_match_keys), bool(o.allow_list_edits), bool(o.allow_list_edits_when_same_length)]


def impl(case):
    import mimetypes, io, os, tempfile, shutil
    from harness import clirun
    import graphtage
    from graphtage.printer import Printer
    # record the options the loaders receive
    clirun._patch_loaders()
    seen_opts = []
    if not getattr(graphtage.Filetype, "_verif_opts", False):
        pass
    d = tempfile.mkdtemp(prefix="gtverif_")
    try:
        clirun.write_files(case["files"], d)
        res = []
        for r in case["runs"]:
            got = []
            # wrap BuildOptions to see what main() builds
            orig_bo = graphtage.BuildOptions.__init__

            def spy(self, *a, **k):
                orig_bo(self, *a, **k)
                got.append(_opts_of(self))
            graphtage.BuildOptions.__init__ = spy
            try:
                o = clirun.run_main(r["argv"], d)
            finally:
                graphtage.BuildOptions.__init__ = orig_bo
            o["opts"] = got[0] if got else None
            import graphtage.printer as pm
            p = pm.DEFAULT_PRINTER
            o["printer"] = [bool(getattr(p, "join_lists", False)), bool(getattr(p, "join_dict_items", False))]
            o["out"] = o["out"][:6000]
            o["err"] = o["err"][:500]
            res.append(o)
        guesses = [mimetypes.guess_type(os.path.join(d, n))[0] for n in case["names"]]
        lib = None
        if case.get("lib"):
            lib = _lib_run(case, d)
        return {"runs": res, "guesses": guesses, "lib": lib}
    finally:
        shutil.rmtree(d, ignore_errors=True)


def _lib_run(case, d):
    """What the library produces for the first run's files and options (documented API usage)."""
    import io, os
    import graphtage
    from graphtage.printer import Printer
    a = case["runs"][0]["args"]

    def mime(prefix):
        if a.get(prefix + "_mime"):
            return a[prefix + "_mime"]
        if a.get(prefix + "_type"):
            return graphtage.FILETYPES_BY_TYPENAME[a[prefix + "_type"]].default_mimetype
        return None
    ds = a.get("dict_strategy")
    if ds == "none":
        ake, amk = False, False
    elif ds == "match":
        ake, amk = True, False
    elif ds == "auto":
        ake, amk = True, True
    else:
        ake = amk = not a.get("k", False)
    opts = graphtage.BuildOptions(allow_key_edits=ake, auto_match_keys=amk, allow_list_edits=not a.get("l", False),
                                  allow_list_edits_when_same_length=not a.get("ll", False))
    fp, tp = (os.path.join(d, n) for n in case["names"])
    try:
        ff = graphtage.get_filetype(fp, mime("from"))
        tf = graphtage.get_filetype(tp, mime("to"))
    except ValueError:
        return {"rc": 1, "out": ""}
    buf = io.StringIO()
    buf.close = lambda: None
    printer = Printer(buf, ansi_color=None, quiet=True, options={"join_lists": bool(a.get("j") or a.get("jl")), "join_dict_items": bool(a.get("j") or a.get("jd"))})
    had = False
    try:
        with printer:
            opts.printer = printer
            ft = ff.build_tree_handling_errors(fp, opts)
            if isinstance(ft, str):
                return {"rc": 1, "out": ""}
            tt = tf.build_tree_handling_errors(tp, opts)
            if isinstance(tt, str):
                return {"rc": 1, "out": ""}
            diff = ft.diff(tt)
            ff.get_default_formatter().print(printer, diff)
            had = any(any(e.has_non_zero_cost() for e in n.edit_list) for n in diff.dfs())
        printer.write("\n")
    except Exception as e:
        return {"rc": None, "out": buf.getvalue()[:6000], "exc": type(e).__name__}
    finally:
        printer.close()
    return {"rc": 1 if had else 0, "out": buf.getvalue()[:6000]}


def to_model(case, obs):
    if not isinstance(obs, dict) or obs.get("error"):
        return None
    g = obs["guesses"]
    return {"s": "cli", "runs": [{"args": r["args"], "guess_from": g[0], "guess_to": g[1], "to_loaded": len(o["loaders"]) > 1}
                                 for r, o in zip(case["runs"], obs["runs"])]}


def expect(case, obs):
    """Observed parser per file + options, in the model's vocabulary."""
    out = []
    for r, cr in zip(obs["runs"], case["runs"]):
        ld = r["loaders"]
        err = r["err"]
        if not ld:
            # get_filetype failed for one of the files: main reports which
            def cls(msg):
                if "Could not determine the filetype" in msg:
                    return "ERR:unknown-type"
                if "Unsupported MIME type" in msg:
                    return "ERR:unsupported-mime"
                return "ERR:?"
            # main() resolves from first; if from fails we cannot observe `to`
            which = case["names"][0] in err
            if which:
                out.append({"from": cls(err), "to": None, "opts": r["opts"], "printer": r["printer"]})
            else:
                out.append({"from": None, "to": cls(err), "opts": r["opts"], "printer": r["printer"]})
            continue
        f = ld[0][0]
        t = ld[1][0] if len(ld) > 1 else None
        out.append({"from": f, "to": t, "opts": r["opts"], "printer": r["printer"]})
    return {"runs": out}


def monitor(case, obs):
    hits = []
    if not isinstance(obs, dict) or obs.get("error"):
        return [{"prop": "C14", "key": "harness-error", "what": repr(obs)[:300]}]
    runs = obs["runs"]
    for i, j in case.get("equiv", []):
        a, b = runs[i], runs[j]
        if (a["rc"], a["out"], a["exc"]) != (b["rc"], b["out"], b["exc"]):
            hits.append({"prop": "C14", "key": "alias-mismatch", "what": f"equivalent spellings differ: {case['runs'][i]['argv']} -> rc={a['rc']} exc={a['exc']} vs {case['runs'][j]['argv']} -> rc={b['rc']} exc={b['exc']}"})
    for r, cr in zip(runs, case["runs"]):
        a = cr["args"]
        for pos, prefix in ((0, "from"), (1, "to")):
            want = a.get(prefix + "_type")
            if a.get(prefix + "_mime"):
                want = next((t for t, ms in TYPES.items() if a[prefix + "_mime"] in ms), None)
            if want and len(r["loaders"]) > pos and r["loaders"][pos][0] != want:
                hits.append({"prop": "C14", "key": f"explicit-type-ignored:{prefix}", "what": f"{cr['argv']}: file {pos + 1} was parsed as {r['loaders'][pos][0]}, explicitly requested {want}"})
            if want and not r["loaders"] and not r["exc"] and case["names"][pos] in r["err"] and "Error:" in r["err"]:
                hits.append({"prop": "C14", "key": f"explicit-type-rejected:{prefix}", "what": f"{cr['argv']}: explicit type given but no parser was invoked: {r['err'][:120]}"})
    # C02 (exit status half): when both files were read by JSON-compatible loaders, status 0 iff equal as data
    try:
        from harness.streams.script import data_eq
        docs = [json.loads(case["files"][n]["text"]) for n in case["names"]]
        de = data_eq(docs[0], docs[1])
    except Exception:
        de = None
    if de is not None:
        for r, cr in zip(runs, case["runs"]):
            ld = [x[0] for x in r["loaders"]]
            if len(ld) >= 1 and all(x in ("json", "json5", "yaml") for x in ld) and not r["exc"] and "Error" not in r["err"]:
                if de and r["rc"] != 0:
                    hits.append({"prop": "C02", "key": "equal-but-exit-nonzero", "what": f"{cr['argv']}: documents are equal as data but the command exits with {r['rc']}"})
                if not de and r["rc"] != 1:
                    hits.append({"prop": "C02", "key": "differ-but-exit-zero", "what": f"{cr['argv']}: documents differ but the command exits with {r['rc']}"})
    if obs.get("lib") is not None:
        a, l = runs[0], obs["lib"]
        if a["exc"] is None and l.get("exc") is None and (a["rc"], a["out"]) != (l["rc"], l["out"]):
            hits.append({"prop": "C14", "key": "cli-vs-library", "what": f"{case['runs'][0]['argv']}: command gives rc={a['rc']} and {len(a['out'])} chars, library gives rc={l['rc']} and {len(l['out'])} chars"})
    return hits


def classify(case, obs):
    a = case["runs"][0]["args"]
    def k(prefix):
        return "mime" if a.get(prefix + "_mime") else ("type" if a.get(prefix + "_type") else "guess")
    return f"from={k('from')},to={k('to')},runs={len(case['runs'])},lib={bool(case.get('lib'))}"


def nontrivial(case, obs):
    return True

"""Stream `cli` (C14, exit-status half of C02): the real command line on files whose names disagree with their
contents, under every way of selecting the two parsers and the option aliases; compared with
  * the L9 model's prediction of which parser reads which file and of the build / printer options, and
  * the library call sequence (get_filetype + build_tree + diff / get_all_edits / get_all_edit_contexts +
    formatter.print) on the same files, in full-diff, -e and -d mode, with and without -f.
Second audit (M14): pickle inputs (binary filesets, --from-pickle / --to-pickle, .pkl / .pickle names), each join flag
alone (-jl, -jd), different types on the two sides in all four spellings on names that do not imply the type,
compression-like names (old.json.gz) under an explicit type, and the command as a real process writing to a pipe
with status output on."""
import json

import base64

NAME = "cli"

TYPES = {
    "json": ["application/json", "application/x-javascript", "text/javascript", "text/x-javascript", "text/x-json"],
    "json5": ["application/json5", "text/x-json5"],
    "pickle": ["application/python-pickle", "application/x-python-pickle"],
    "csv": ["text/csv"],
    "xml": ["application/xml", "text/xml"],
    "html": ["text/html", "application/xhtml+xml"],
    "yaml": ["application/x-yaml", "application/yaml", "text/yaml", "text/x-yaml", "text/vnd.yaml"],
    "plist": ["application/x-plist"],
}

J1 = '{"a": [1, 2, 3], "b": "x", "c": {"d": true}}'
J2 = '{"a": [1, 3], "b": "xy", "c": {"d": true, "e": null}}'
X1 = '<?xml version="1.0"?><root k="v"><item>one</item><item n="2">two</item></root>'
X2 = '<?xml version="1.0"?><root k="w"><item>one</item><extra/></root>'
Y1 = 'a:\n- 1\n- 2\n- 3\nb: x\nc:\n  d: true\n'                 # YAML that is not JSON
Y2 = 'a:\n- 1\n- 3\nb: xy\nc:\n  d: true\n  e: null\n'
C1 = 'id,name,n\n1,one,10\n2,two,20\n'
C2 = 'id,name,n\n1,one,10\n2,deux,21\n3,three,30\n'
D1 = {"a": [1, 2, 3], "b": "x", "c": {"d": True}}
D2 = {"a": [1, 3], "b": "xy", "c": {"d": True, "e": "f"}}


def _b64(b):
    import base64
    return {"b64": base64.b64encode(b).decode()}


def _pickle(obj):
    import pickle
    return _b64(pickle.dumps(obj, protocol=2))


def _plist(obj):
    import plistlib
    return {"text": plistlib.dumps(obj, sort_keys=False).decode()}


def _contents():
    """type name -> (first document, second document), each valid for that type"""
    return {"json": (J1, J2), "json5": (J1, J2), "yaml": (Y1, Y2), "xml": (X1, X2), "html": (X1, X2), "csv": (C1, C2),
            "plist": (_plist(D1), _plist(D2)), "pickle": (_pickle(D1), _pickle(D2))}


EXT = {"json": ".json", "json5": ".json5", "yaml": ".yaml", "xml": ".xml", "html": ".html", "csv": ".csv", "plist": ".plist", "pickle": ".pkl"}

# name -> content; the extension deliberately says something else than the content in most of them
FILESETS = [
    {"a.txt": J1, "b.txt": J2},                 # no usable guess: needs explicit types
    {"a.xml": J1, "b.csv": J2},                 # wrong guesses
    {"a.json": J1, "b.yaml": J2},               # right guesses, JSON is also YAML
    {"a.json": X1, "b.json": X2},               # XML content named .json
    {"a": J1, "b.plist": J2},
    {"a.json": J1, "b.json": J1},               # identical
    {"a.json": "1", "b.json": "2"},             # top-level scalars that differ (a non-zero-cost Match at the root)
    {"a.json": '"a"', "b.json": '"b"'},
    {"a.json": "true", "b.yaml": "false"},
    {"a.json": "[1, 2]", "b.json": "7"},        # container replaced by a scalar at the root
]


def _filesets():
    """FILESETS plus binary ones (second audit M14: no pickle input ever reached argparse or a loader) and names that
    carry a compression-like or otherwise misleading extension (mimetypes.guess_type reports an ENCODING for them)"""
    p1, p2 = _pickle(D1), _pickle(D2)
    return FILESETS + [
        {"p1.pkl": p1, "p2.pickle": p2},            # both pickle extensions (the second through mimetypes.suffix_map)
        {"p1.bin": p1, "p2.dat": p2},               # pickles that need an explicit type
        {"a.json": p1, "b.pkl": J2},                # contents swapped with respect to the names
        {"p1.pkl": p1, "b.json": J2},               # pickle against JSON
        {"old.json.gz": J1, "new.json": J2},        # plain text under a gzip-looking name
        {"old.json": J1, "new.yaml.bz2": Y2},
        {"old.Z": J1, "new.xz": Y2},
        {"a.tgz": J1, "b.svgz": J2},
    ]


def _sel_options(kind_types):
    """All ways to select a parser for one file: none | mime | type flag."""
    opts = [None]
    for t in kind_types:
        opts.append(("type", t))
        for m in TYPES[t]:
            opts.append(("mime", m))
    return opts


def _argv(args, names):
    av = []
    if args.get("from_mime"):
        av += ["--from-mime", args["from_mime"]]
    if args.get("from_type"):
        av += ["--from-" + args["from_type"]]
    if args.get("to_mime"):
        av += ["--to-mime", args["to_mime"]]
    if args.get("to_type"):
        av += ["--to-" + args["to_type"]]
    if args.get("dict_strategy"):
        av += ["--dict-strategy", args["dict_strategy"]]
    for flag, opt in (("k", "-k"), ("l", "-l"), ("ll", "-ll"), ("j", "-j"), ("jl", "-jl"), ("jd", "-jd")):
        if args.get(flag):
            av.append(opt)
    av += ["--no-status"] + list(args.get("extra", []))
    return av + list(names)


def _mk(files, runs, equiv=None, lib=False, names=None, run_names=None, real=False, tag=""):
    """files: name -> text | {"b64": ...} | {"text": ...}; `names`: the two file arguments (default: the first two files);
    run_names[i]: other file arguments for run i; real: run 0 is ALSO executed as a real subprocess writing to a pipe,
    with and without --no-status (the status writer's buffered path is only taken on the process's own stdout)"""
    names = list(names or list(files)[:2])
    rs = []
    for i, a in enumerate(runs):
        nm = list((run_names or {}).get(i, names))
        rs.append({"args": a, "argv": _argv(a, nm), "names": nm})
    return {"files": {n: (c if isinstance(c, dict) else {"text": c}) for n, c in files.items()}, "names": names,
            "runs": rs, "equiv": equiv or [], "lib": lib, "real": real, "tag": tag}


def _sel_args(prefix, sel):
    if sel is None:
        return {}
    return {prefix + "_" + sel[0]: sel[1]}


ALL_TYPES = ["json", "json5", "yaml", "xml", "html", "plist", "csv", "pickle"]

# strings that str.splitlines() breaks on but '\n'.split does not: the YAML and XML formatters emit them raw
ODD = ["\u2028", "\u2029", "\x0c", "\x1c", "\x1e", "\x85", "\x0b"]


def gen(rng, tier):
    cases = []
    filesets = _filesets()
    contents = _contents()
    sels = _sel_options(ALL_TYPES)
    # (1) alias: --X-T vs --X-mime default(T), for both files, on every fileset (pickle included)
    for fs in filesets:
        for t in ALL_TYPES:
            d = TYPES[t][0]
            other = rng.choice(sels)
            cases.append(_mk(fs, [dict({"from_type": t}, **_sel_args("to", other)), dict({"from_mime": d}, **_sel_args("to", other))], [[0, 1]], tag="alias-from"))
            cases.append(_mk(fs, [dict({"to_type": t}, **_sel_args("from", other)), dict({"to_mime": d}, **_sel_args("from", other))], [[0, 1]], tag="alias-to"))
    # (2) option aliases, and every join flag ALONE (-jl and -jd are independent; -j is both), against the library
    for fs in filesets:
        first = fs[list(fs)[0]]
        if isinstance(first, dict):
            base = {"from_type": "pickle", "to_type": "pickle"} if isinstance(fs[list(fs)[1]], dict) else None
            if base is None:
                continue
        elif first.startswith("<"):
            base = {"from_type": "xml", "to_type": "xml"}
        elif list(fs)[0].endswith(".json") and list(fs)[1].endswith((".json", ".yaml")):
            base = {}
        else:
            base = {"from_type": "json", "to_type": "yaml" if fs[list(fs)[1]] == Y2 else "json"}
        cases.append(_mk(fs, [dict(base, k=True), dict(base, dict_strategy="none")], [[0, 1]], lib=True, tag="alias-k"))
        cases.append(_mk(fs, [dict(base, j=True), dict(base, jl=True, jd=True)], [[0, 1]], lib=True, tag="alias-j"))
        cases.append(_mk(fs, [dict(base), dict(base, dict_strategy="auto")], [[0, 1]], lib=True, tag="alias-auto"))
        cases.append(_mk(fs, [dict(base, l=True)], lib=True, tag="opt-l"))
        cases.append(_mk(fs, [dict(base, ll=True, dict_strategy="match")], lib=True, tag="opt-ll"))
        cases.append(_mk(fs, [dict(base, jl=True)], lib=True, tag="lone-jl"))
        cases.append(_mk(fs, [dict(base, jd=True)], lib=True, tag="lone-jd"))
        for mode in (["-e"], ["-d"]):
            cases.append(_mk(fs, [dict(base, extra=mode)], lib=True, tag="mode" + mode[0]))
            cases.append(_mk(fs, [dict(base, jd=True, extra=mode), dict(base, jl=True, extra=mode)], lib=True, tag="lone-jd" + mode[0]))
            cases.append(_mk(fs, [dict(base, k=True, extra=mode), dict(base, dict_strategy="none", extra=mode)], [[0, 1]], lib=True, tag="alias-k" + mode[0]))
    # (2b) `-f T` with T the type of the FROM file is the default formatter (help text of --format), in every mode;
    #      the library comparison covers -e and -d as well (get_all_edits / get_all_edit_contexts)
    for fs, ft, tt in ((FILESETS[2], "json", "yaml"), (FILESETS[0], "json", "json5"), (FILESETS[0], "yaml", "json"), (FILESETS[3], "xml", "html"),
                       (filesets[11], "pickle", "pickle")):
        for mode in ([], ["-d"], ["-e"]):
            base = {"from_type": ft, "to_type": tt}
            cases.append(_mk(fs, [dict(base, extra=mode), dict(base, extra=mode + ["-f", ft])], [[0, 1]], lib=True, tag="format" + (mode[0] if mode else "")))
            other = "yaml" if ft != "yaml" else "json"
            cases.append(_mk(fs, [dict(base, extra=mode + ["-f", other])], lib=True, tag="format-other" + (mode[0] if mode else "")))
    # (2c) DIFFERENT types on the two sides, every ordered pair, in all four spellings (type/type, type/mime, mime/type,
    #      mime/mime), on files whose names do not imply the type: neutral names, names implying the OTHER side's type,
    #      compression-like names.  Contents are valid for the requested types, so the library comparison has a diff.
    pairs2 = [(a, b) for a in ALL_TYPES for b in ALL_TYPES if a != b]
    for n, (t1, t2) in enumerate(pairs2):
        schemes = [("left.data", "right.data"), ("left" + EXT[t2], "right" + EXT[t1]), ("left" + EXT[t1] + ".gz", "right.bz2")]
        if tier == "quick":
            schemes = [schemes[n % 3], schemes[(n + 1) % 3]] if (t1, t2) not in (("json", "yaml"), ("yaml", "json"), ("json", "pickle")) else schemes
        for ln, rn in schemes:
            fs = {ln: contents[t1][0], rn: contents[t2][1]}
            m1 = TYPES[t1][0] if n % 2 == 0 else rng.choice(TYPES[t1])
            m2 = TYPES[t2][0] if n % 2 == 0 else rng.choice(TYPES[t2])
            runs = [{"from_type": t1, "to_type": t2}, {"from_type": t1, "to_mime": m2}, {"from_mime": m1, "to_type": t2}, {"from_mime": m1, "to_mime": m2}]
            cases.append(_mk(fs, runs, [[0, 1], [0, 2], [0, 3]], lib=True, tag="two-types"))
    # (2d) a misleading NAME must not matter once the type is explicit: the same bytes under neutral names give the same result
    for (ln, rn, t1, t2) in (("old.json.gz", "new.json", "json", "json"), ("old.json", "new.yaml.bz2", "json", "yaml"), ("old.Z", "new.xz", "json", "yaml"),
                             ("old.yaml", "new.csv", "json", "yaml"), ("old.pkl.gz", "new.pickle", "pickle", "pickle"), ("a.tar.gz", "b.tgz", "xml", "html"),
                             ("old.json.br", "new.json.xz", "yaml", "json5")):
        fs = {ln: contents[t1][0], rn: contents[t2][1], "from_document": contents[t1][0], "to_document": contents[t2][1]}
        for args in ({"from_type": t1, "to_type": t2}, {"from_mime": TYPES[t1][-1], "to_mime": TYPES[t2][-1]}):
            cases.append(_mk(fs, [args, args], [[0, 1]], lib=True, names=[ln, rn], run_names={1: ["from_document", "to_document"]}, tag="name-vs-neutral"))
        # without an explicit type the guess (ignoring the encoding) decides; the model is told the guess
        cases.append(_mk(fs, [{}], names=[ln, rn], tag="gz-guess"))
    # (2f) a document given as `-` on standard input is the document given as a file (the type is explicit): text and binary
    #      documents, also ones that are not UTF-8
    import plistlib as _pl, pickle as _pk
    stdin_docs = [("json", J1.encode(), J2.encode()), ("yaml", Y1.encode(), Y2.encode()), ("yaml", Y1.encode("utf-16"), Y2.encode()),
                  ("plist", _pl.dumps({"a": 1, "b": [1, 2]}, fmt=_pl.FMT_BINARY), _pl.dumps({"a": 2, "b": [1, 3]})),
                  ("pickle", _pk.dumps({"a": 1, "b": [1, 2]}), _pk.dumps({"a": 2, "b": [1, 3]})),
                  ("xml", '<?xml version="1.0" encoding="ISO-8859-1"?><a k="\u00e9">caf\u00e9</a>'.encode("latin-1"), b"<a>cafe</a>"),
                  ("xml", '<?xml version="1.0" encoding="UTF-16"?><a>x</a>'.encode("utf-16"), b"<a>y</a>")]
    for t, da, db in stdin_docs:
        fs = {"left.data": {"b64": base64.b64encode(da).decode()}, "right.data": {"b64": base64.b64encode(db).decode()}}
        c = _mk(fs, [{"from_type": t, "to_type": t}, {"from_type": t, "to_type": t}], [[0, 1]], names=["left.data", "right.data"],
                run_names={1: ["-", "right.data"]}, tag="stdin-vs-file")
        c["runs"][1]["stdin_b64"] = base64.b64encode(da).decode()
        cases.append(c)
        c = _mk(fs, [{"from_type": t, "to_type": t}, {"from_type": t, "to_type": t}], [[0, 1]], names=["left.data", "right.data"],
                run_names={1: ["left.data", "-"]}, tag="stdin-vs-file")
        c["runs"][1]["stdin_b64"] = base64.b64encode(db).decode()
        cases.append(c)
    # (2g) an explicit type decides the parser whatever the NAME says: scalars on which JSON and YAML 1.1 disagree, in files
    #      named *.json but declared YAML (and the reverse)
    tricky = ('{"a": 1e+16, "b": [1e3, 2E5]}', '{"a": 1e+17, "b": [1e3, 2E5], "c": NaN}')
    fs = {"old.json": tricky[0], "new.json": tricky[1], "from_document": tricky[0], "to_document": tricky[1]}
    for args in ({"from_type": "yaml", "to_type": "yaml"}, {"from_mime": TYPES["yaml"][0], "to_mime": TYPES["yaml"][-1]}, {"from_type": "yaml", "to_type": "json5"}):
        cases.append(_mk(fs, [args, args], [[0, 1]], lib=True, names=["old.json", "new.json"], run_names={1: ["from_document", "to_document"]}, tag="name-vs-neutral"))
    fs = {"old.yaml": J1, "new.yml": J2, "from_document": J1, "to_document": J2}
    cases.append(_mk(fs, [{"from_type": "json", "to_type": "json"}] * 2, [[0, 1]], lib=True, names=["old.yaml", "new.yml"], run_names={1: ["from_document", "to_document"]}, tag="name-vs-neutral"))
    # (2h) the colour flags decide, not the environment: NO_COLOR / FORCE_COLOR / CLICOLOR / TERM settings change nothing
    for envs in ({"NO_COLOR": "1"}, {"FORCE_COLOR": "1"}, {"CLICOLOR": "0"}, {"CLICOLOR_FORCE": "1"}, {"TERM": "dumb"}, {"NO_COLOR": "1", "TERM": "xterm-256color"}):
        for extra in (["--color"], ["--no-color"], ["-c"]):
            c = _mk({"a.json": J1, "b.json": J2}, [{"extra": extra}, {"extra": extra}], [[0, 1]], tag="env-vs-flag")
            c["runs"][1]["env"] = envs
            cases.append(c)
    # (2e) the command as a real process writing to a pipe, with status output on (the status writer buffers lines only
    #      on the process's own stdout); strings holding characters that str.splitlines() treats as line ends
    odd = ODD if tier == "thorough" else [ODD[0], ODD[1], rng.choice(ODD[2:])]
    for ch in odd:
        cases.append(_mk({"a.txt": '{"k": "x%sy", "n": 1}' % ch, "b.txt": '{"k": "x%sz", "n": 2}' % ch}, [{"from_type": "yaml", "to_type": "yaml"}], lib=True, real=True, tag="real-stdout"))
        cases.append(_mk({"a.txt": '<doc a="1">page one%spage two</doc>' % ch, "b.txt": '<doc a="2">page one%spage two</doc>' % ch}, [{"from_type": "xml", "to_type": "xml"}], lib=True, real=True, tag="real-stdout"))
    cases.append(_mk({"a.json": J1, "b.json": J2}, [{}], lib=True, real=True, tag="real-stdout"))
    cases.append(_mk({"a.txt": Y1, "b.txt": Y2}, [{"from_type": "yaml", "to_type": "yaml", "extra": ["-e"]}], lib=True, real=True, tag="real-stdout"))
    # (3) the selection cross product (exhaustive in thorough, sampled in quick)
    pairs = [(a, b) for a in sels for b in sels]
    if tier == "quick":
        pairs = rng.sample(pairs, 140)
    for a, b in pairs:
        fs = rng.choice(filesets) if tier == "quick" else filesets[(hash((str(a), str(b))) & 0xffff) % len(filesets)]
        cases.append(_mk(fs, [dict(_sel_args("from", a), **_sel_args("to", b))], lib=(a is not None and b is not None), tag="cross"))
    if tier == "thorough":
        for fs in filesets[:2] + filesets[10:12]:
            for a, b in pairs:
                cases.append(_mk(fs, [dict(_sel_args("from", a), **_sel_args("to", b))], tag="cross"))
    return cases


def _opts_of(o):
    return [bool(o.allow_key_edits), bool(o.auto_match_keys), bool(o.allow_list_edits), bool(o.allow_list_edits_when_same_length)]


def impl(case):
    import mimetypes, os, tempfile, shutil
    from harness import clirun
    import graphtage
    clirun._patch_loaders()
    d = tempfile.mkdtemp(prefix="gtverif_")
    try:
        clirun.write_files(case["files"], d)
        res = []
        for r in case["runs"]:
            got = []
            # wrap BuildOptions to see what main() builds
            orig_bo = graphtage.BuildOptions.__init__

            def spy(self, *a, **k):
                orig_bo(self, *a, **k)
                got.append(_opts_of(self))
            graphtage.BuildOptions.__init__ = spy
            try:
                o = clirun.run_main(r["argv"], d, stdin_bytes=base64.b64decode(r["stdin_b64"]) if r.get("stdin_b64") else None, env=r.get("env"))
            finally:
                graphtage.BuildOptions.__init__ = orig_bo
            o["opts"] = got[0] if got else None
            import graphtage.printer as pm
            p = pm.DEFAULT_PRINTER
            o["printer"] = [bool(getattr(p, "join_lists", False)), bool(getattr(p, "join_dict_items", False))]
            o["out"] = o["out"][:6000]
            o["err"] = o["err"][:500]
            res.append(o)
        guesses = {n: mimetypes.guess_type(os.path.join(d, n))[0] for n in case["files"]}
        lib = None
        if case.get("lib"):
            lib = _lib_run(case, d)
        real = None
        if case.get("real"):
            real = _real_runs(case, d)
        return {"runs": res, "guesses": guesses, "lib": lib, "real": real}
    finally:
        shutil.rmtree(d, ignore_errors=True)


def _real_runs(case, d):
    """run 0 as a real process (`python -m graphtage`) whose stdout is a pipe: once as given (with --no-status) and
    once with status output on, which is the only way the status writer's line buffering is ever on the path"""
    import os, subprocess, sys
    argv = list(case["runs"][0]["argv"])
    out = []
    for av in (argv, [x for x in argv if x != "--no-status"]):
        env = dict(os.environ, PYTHONIOENCODING="utf-8:surrogatepass")
        try:
            p = subprocess.run([sys.executable, "-m", "graphtage", "--no-color"] + av, cwd=d, env=env, stdin=subprocess.DEVNULL,
                               stdout=subprocess.PIPE, stderr=subprocess.PIPE, timeout=60)
            out.append({"argv": av, "rc": p.returncode, "out": p.stdout.decode("utf-8", "surrogatepass")[:6000],
                        "tb": "Traceback" in p.stderr.decode("utf-8", "replace")})
        except subprocess.TimeoutExpired:
            out.append({"argv": av, "rc": None, "out": "", "tb": False, "timeout": True})
    return out


def _fmt_of(a):
    ex = list(a.get("extra", []))
    return ex[ex.index("-f") + 1] if "-f" in ex else None


def _lib_run(case, d):
    """What the LIBRARY produces for the first run's files and options, following the documented call sequence:
    get_filetype + build_tree_handling_errors, then
       full diff : TreeNode.diff + formatter.print          exit status: some edit of the diff has non-zero cost
       -e        : str() of every TreeNode.get_all_edits    exit status: some listed edit has non-zero cost
       -d        : TreeNode.get_all_edit_contexts, parent contexts + formatter.print of the edit
    on a Printer over a StringIO.  `-f T` picks T's default formatter, otherwise the from-file's."""
    import io, os
    import graphtage
    from graphtage.printer import Printer
    from colorama.ansi import Fore
    run = case["runs"][0]
    a = run["args"]
    extra = list(a.get("extra", []))

    def mime(prefix):
        if a.get(prefix + "_mime"):
            return a[prefix + "_mime"]
        if a.get(prefix + "_type"):
            return graphtage.FILETYPES_BY_TYPENAME[a[prefix + "_type"]].default_mimetype
        return None
    ds = a.get("dict_strategy")
    if ds == "none":
        ake, amk = False, False
    elif ds == "match":
        ake, amk = True, False
    elif ds == "auto":
        ake, amk = True, True
    else:
        ake = amk = not a.get("k", False)
    opts = graphtage.BuildOptions(allow_key_edits=ake, auto_match_keys=amk, allow_list_edits=not a.get("l", False),
                                  allow_list_edits_when_same_length=not a.get("ll", False))
    fp, tp = (os.path.join(d, n) for n in run.get("names", case["names"]))
    try:
        ff = graphtage.get_filetype(fp, mime("from"))
        tf = graphtage.get_filetype(tp, mime("to"))
    except ValueError:
        return {"rc": 1, "out": "", "loaded": False}
    buf = io.StringIO()
    buf.close = lambda: None
    printer = Printer(buf, ansi_color=None, quiet=True, options={"join_lists": bool(a.get("j") or a.get("jl")), "join_dict_items": bool(a.get("j") or a.get("jd"))})
    had = False
    try:
        with printer:
            opts.printer = printer
            ft = ff.build_tree_handling_errors(fp, opts)
            if isinstance(ft, str):
                return {"rc": 1, "out": "", "loaded": False}
            tt = tf.build_tree_handling_errors(tp, opts)
            if isinstance(tt, str):
                return {"rc": 1, "out": "", "loaded": False}
            fmt = _fmt_of(a)
            formatter = graphtage.FILETYPES_BY_TYPENAME[fmt].get_default_formatter() if fmt else ff.get_default_formatter()
            if "-e" in extra:
                for edit in ft.get_all_edits(tt):
                    printer.write(str(edit))
                    printer.newline()
                    had = had or edit.has_non_zero_cost()
            elif "-d" in extra:
                for ancestors, edit in ft.get_all_edit_contexts(tt):
                    for i, node in enumerate(ancestors):
                        if node.parent is not None:
                            node.parent.print_parent_context(printer, for_child=node)
                        if i == len(ancestors) - 1:
                            with printer.color(Fore.BLUE):
                                printer.write(" -> ")
                            formatter.print(printer, edit)
                    printer.newline()
                    had = had or edit.has_non_zero_cost()
            else:
                diff = ft.diff(tt)
                formatter.print(printer, diff)
                had = any(any(e.has_non_zero_cost() for e in n.edit_list) for n in diff.dfs())
        printer.write("\n")
    except Exception as e:
        return {"rc": None, "out": buf.getvalue()[:6000], "exc": type(e).__name__, "loaded": True}
    finally:
        printer.close()
    return {"rc": 1 if had else 0, "out": buf.getvalue()[:6000], "loaded": True}


def _guess(obs, name):
    g = obs["guesses"]
    return g.get(name) if isinstance(g, dict) else None


def _run_names(case, cr):
    return cr.get("names") or case["names"]


def to_model(case, obs):
    if not isinstance(obs, dict) or obs.get("error"):
        return None
    runs = []
    for r, o in zip(case["runs"], obs["runs"]):
        n = _run_names(case, r)
        runs.append({"args": r["args"], "guess_from": _guess(obs, n[0]), "guess_to": _guess(obs, n[1]), "to_loaded": len(o["loaders"]) > 1})
    return {"s": "cli", "runs": runs}


def expect(case, obs):
    """Observed parser per file + options, in the model's vocabulary."""
    out = []
    for r, cr in zip(obs["runs"], case["runs"]):
        ld = r["loaders"]
        err = r["err"]
        if not ld:
            # get_filetype failed for one of the files: main reports which
            def cls(msg):
                if "Could not determine the filetype" in msg:
                    return "ERR:unknown-type"
                if "Unsupported MIME type" in msg:
                    return "ERR:unsupported-mime"
                return "ERR:?"
            # main() resolves from first; if from fails we cannot observe `to`
            which = _run_names(case, cr)[0] in err
            if which:
                out.append({"from": cls(err), "to": None, "opts": r["opts"], "printer": r["printer"]})
            else:
                out.append({"from": None, "to": cls(err), "opts": r["opts"], "printer": r["printer"]})
            continue
        f = ld[0][0]
        t = ld[1][0] if len(ld) > 1 else None
        out.append({"from": f, "to": t, "opts": r["opts"], "printer": r["printer"]})
    return {"runs": out}


def _text_of(spec):
    return spec["text"] if isinstance(spec, dict) and "text" in spec else None


def monitor(case, obs):
    hits = []
    if not isinstance(obs, dict) or obs.get("error"):
        return [{"prop": "C14", "key": "harness-error", "what": repr(obs)[:300]}]
    runs = obs["runs"]
    for i, j in case.get("equiv", []):
        a, b = runs[i], runs[j]
        if (a["rc"], a["out"], a["exc"]) != (b["rc"], b["out"], b["exc"]):
            hits.append({"prop": "C14", "key": "alias-mismatch", "what": f"equivalent spellings differ: {case['runs'][i]['argv']} -> rc={a['rc']} exc={a['exc']} vs {case['runs'][j]['argv']} -> rc={b['rc']} exc={b['exc']}"})
    for r, cr in zip(runs, case["runs"]):
        a = cr["args"]
        names = _run_names(case, cr)
        for pos, prefix in ((0, "from"), (1, "to")):
            want = a.get(prefix + "_type")
            if a.get(prefix + "_mime"):
                want = next((t for t, ms in TYPES.items() if a[prefix + "_mime"] in ms), None)
            if want and len(r["loaders"]) > pos and r["loaders"][pos][0] != want:
                hits.append({"prop": "C14", "key": f"explicit-type-ignored:{prefix}", "what": f"{cr['argv']}: file {pos + 1} was parsed as {r['loaders'][pos][0]}, explicitly requested {want}"})
            if want and not r["loaders"] and not r["exc"] and names[pos] in r["err"] and "Error:" in r["err"]:
                hits.append({"prop": "C14", "key": f"explicit-type-rejected:{prefix}", "what": f"{cr['argv']}: explicit type given but no parser was invoked: {r['err'][:120]}"})
        # the two join flags are independent of each other: -jl is join_lists only, -jd is join_dict_items only, -j is both
        wantp = [bool(a.get("j") or a.get("jl")), bool(a.get("j") or a.get("jd"))]
        if r.get("printer") is not None and r["printer"] != wantp and not r["exc"] and r["rc"] in (0, 1) and r["loaders"]:
            hits.append({"prop": "C14", "key": "join-flags", "what": f"{cr['argv']}: printer options (join_lists, join_dict_items) = {r['printer']}, the flags say {wantp}"})
    # C02 (exit status half): when both files were read by JSON-compatible loaders, status 0 iff equal as data
    from harness.streams.script import data_eq
    for r, cr in zip(runs, case["runs"]):
        try:
            docs = [json.loads(_text_of(case["files"][n])) for n in _run_names(case, cr)]
            de = data_eq(docs[0], docs[1])
        except Exception:
            continue
        ld = [x[0] for x in r["loaders"]]
        if len(ld) >= 1 and all(x in ("json", "json5", "yaml") for x in ld) and not r["exc"] and "Error" not in r["err"]:
            if de and r["rc"] != 0:
                hits.append({"prop": "C02", "key": "equal-but-exit-nonzero", "what": f"{cr['argv']}: documents are equal as data but the command exits with {r['rc']}"})
            if not de and r["rc"] != 1:
                hits.append({"prop": "C02", "key": "differ-but-exit-zero", "what": f"{cr['argv']}: documents differ but the command exits with {r['rc']}"})
    l = obs.get("lib")
    if l is not None:
        a = runs[0]
        av = case["runs"][0]["argv"]
        mode = "-e" if "-e" in av else ("-d" if "-d" in av else "full")
        if a["exc"] is None and l.get("exc") is None and (a["rc"], a["out"]) != (l["rc"], l["out"]):
            what = "exit status" if a["out"] == l["out"] else "text"
            hits.append({"prop": "C14", "key": f"cli-vs-library:{mode}:{what}", "what": f"{av}: command gives rc={a['rc']} and {len(a['out'])} chars, library gives rc={l['rc']} and {len(l['out'])} chars"})
        elif (a["exc"] is None) != (l.get("exc") is None):
            hits.append({"prop": "C14", "key": f"cli-vs-library:{mode}:exception", "what": f"{av}: command exc={a['exc']} rc={a['rc']}, library exc={l.get('exc')} rc={l['rc']}"})
        for rr in obs.get("real") or []:
            if rr.get("timeout"):
                hits.append({"prop": "C14", "key": "real-process:timeout", "what": f"{rr['argv']}: no result within 60 s"})
            elif l.get("exc") is None and not rr["tb"] and (rr["rc"], rr["out"]) != (l["rc"], l["out"]):
                st = "no-status" if "--no-status" in rr["argv"] else "status-on"
                hits.append({"prop": "C14", "key": f"cli-vs-library:real-stdout:{st}", "what": f"python -m graphtage --no-color {' '.join(rr['argv'])} (stdout a pipe): rc={rr['rc']} text {rr['out'][:80]!r}; library: rc={l['rc']} text {l['out'][:80]!r}"})
        # C05 ("any setting of progress, status ... output yields the same ... script"): the real process with and without
        # status output prints the same diff and ends with the same status
        reals = [rr for rr in (obs.get("real") or []) if not rr.get("timeout") and not rr.get("tb")]
        on = [rr for rr in reals if "--no-status" not in rr["argv"]]
        off = [rr for rr in reals if "--no-status" in rr["argv"]]
        if on and off and (on[0]["rc"], on[0]["out"]) != (off[0]["rc"], off[0]["out"]):
            hits.append({"prop": "C05", "key": "status-changes-printed-script", "what": f"python -m graphtage {' '.join(on[0]['argv'])}: with status output rc={on[0]['rc']} text {on[0]['out'][:100]!r}; with --no-status rc={off[0]['rc']} text {off[0]['out'][:100]!r}"})
    return hits


def classify(case, obs):
    a = case["runs"][0]["args"]
    def k(prefix):
        return "mime" if a.get(prefix + "_mime") else ("type:" + a[prefix + "_type"] if a.get(prefix + "_type") else "guess")
    lib = "-"
    if isinstance(obs, dict) and obs.get("lib") is not None:
        l = obs["lib"]
        lib = "exc" if l.get("exc") else ("diff" if l.get("loaded") and l["out"].strip() else ("loaded-empty" if l.get("loaded") else "load-error"))
    return f"{case.get('tag', '')}:from={k('from')},to={k('to')},lib={lib}"


def nontrivial(case, obs):
    return True


def shrink(case):
    """fewer runs (keeping the pairs named in `equiv`), no real-process part"""
    out = []
    if case.get("real"):
        out.append(dict(case, real=False))
    if len(case["runs"]) > 2:
        for i, j in case.get("equiv", []):
            out.append(dict(case, runs=[case["runs"][i], case["runs"][j]], equiv=[[0, 1]], lib=case.get("lib") and i == 0))
    if len(case["runs"]) > 1 and not case.get("equiv"):
        out.append(dict(case, runs=case["runs"][:1]))
    return out

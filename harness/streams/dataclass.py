"""Stream `dataclass` (C01, C03; monitor only): `graphtage.dataclasses.DataClassNode` — the container the pickle / AST node
classes are made of (`graphtage.ast`, `graphtage.pydiff`) and that library users subclass.  Two node classes with the same
slot NAMES, declared in the same or in a different order (the guards of `DataClassEdit` compare names as a set), are
diffed; C01 is stated on the real edit: every slot of the first node is accounted for exactly once, paired with the slot
of the SAME NAME of the second node; C03: the reported cost is the sum of the slot edits; equal content costs 0.

Case: {"slots": [names in class A's order], "perm": [B's order as indices], "fa": {name: doc}, "ta": {name: doc}}"""
import json

from . import script as S

NAME = "dataclass"

NAMES = ["name", "value", "args", "body", "kw", "target"]


def gen(rng, tier):
    cases = []
    n = 80 if tier == "quick" else 1500
    for i in range(n):
        k = rng.randint(1, 4)
        slots = rng.sample(NAMES, k)
        perm = list(range(k))
        if i % 2:
            rng.shuffle(perm)
        fa = {s: S.gen_doc(rng, 2) for s in slots}
        ta = {s: (S.mutate(rng, fa[s]) if rng.random() < 0.6 else fa[s]) for s in slots}
        if i % 7 == 0:
            ta = dict(fa)
        cases.append({"slots": slots, "perm": perm, "fa": fa, "ta": ta})
    return cases


def _classes(slots, perm):
    import graphtage
    from graphtage.dataclasses import DataClassNode
    from graphtage.tree import TreeNode
    A = type("NodeA", (DataClassNode,), {"__annotations__": {s: TreeNode for s in slots}})
    B = type("NodeB", (DataClassNode,), {"__annotations__": {slots[i]: TreeNode for i in perm}})
    return A, B


def impl(case):
    import graphtage
    from graphtage import json as gj
    from graphtage.printer import DEFAULT_PRINTER
    DEFAULT_PRINTER.quiet = True
    A, B = _classes(case["slots"], case["perm"])
    a = A(**{s: gj.build_tree(case["fa"][s]) for s in case["slots"]})
    b = B(**{s: gj.build_tree(case["ta"][s]) for s in case["slots"]})
    e = a.edits(b)
    S._full(e)
    fa = {id(v): k for k, v in a.items()}
    tb = {id(v): k for k, v in b.items()}
    subs = []
    from graphtage.tree import CompoundEdit
    if isinstance(e, CompoundEdit) and type(e).__name__ == "DataClassEdit":
        for s in e.edits():
            S._full(s)
            subs.append([fa.get(id(s.from_node)), tb.get(id(s.to_node)), S._ub(s), S._val(s.from_node), S._val(s.to_node)])
    d = a.diff(b)
    return {"kind": type(e).__name__, "cost": S._ub(e), "subs": subs, "edited_cost": int(d.edited_cost()), "eq": bool(a == b)}


def monitor(case, obs):
    if not isinstance(obs, dict):
        return [{"prop": p, "key": "bad-observation", "what": repr(obs)[:200]} for p in ("C01", "C03")]
    if obs.get("error"):
        return [{"prop": p, "key": "internal-error:" + str(obs.get("exc", obs["error"])), "what": f"{obs.get('exc')}: {obs.get('msg', '')}"} for p in ("C01", "C03")]
    hits = []
    slots = case["slots"]
    shown = f"slots {slots} (second class declares them as {[slots[i] for i in case['perm']]}): {json.dumps(case['fa'])[:150]} -> {json.dumps(case['ta'])[:150]}"
    same = all(S.data_eq(case["fa"][s], case["ta"][s]) is not False for s in slots)
    if obs["kind"] == "DataClassEdit":
        froms = sorted(x[0] or "?" for x in obs["subs"])
        if froms != sorted(slots):
            hits.append({"prop": "C01", "key": "dataclass:slots-not-accounted-once", "what": f"{shown}: the slot edits start from {froms}"})
        for f, t, c, fv, tv in obs["subs"]:
            if f != t:
                hits.append({"prop": "C01", "key": "dataclass:slot-paired-with-another-slot", "what": f"{shown}: slot '{f}' is edited into slot '{t}'"})
                break
        if isinstance(obs["cost"], int) and all(isinstance(x[2], int) for x in obs["subs"]) and obs["cost"] != sum(x[2] for x in obs["subs"]):
            hits.append({"prop": "C03", "key": "dataclass:reported-ne-sum", "what": f"{shown}: reported {obs['cost']}, slot edits sum to {sum(x[2] for x in obs['subs'])}"})
    if isinstance(obs["cost"], int):
        if obs["cost"] != obs["edited_cost"]:
            hits.append({"prop": "C03", "key": "dataclass:views-differ", "what": f"{shown}: edit reports {obs['cost']}, annotated tree {obs['edited_cost']}"})
    else:
        hits.append({"prop": "C03", "key": "dataclass:non-definitive", "what": f"{shown}: fully refined edit reports {obs['cost']}"})
    return hits


def classify(case, obs):
    ordered = case["perm"] == sorted(case["perm"])
    return f"{len(case['slots'])}-slots:{'same-order' if ordered else 'other-order'}:{obs.get('kind') if isinstance(obs, dict) else '?'}"


def nontrivial(case, obs):
    return len(case["slots"]) > 1

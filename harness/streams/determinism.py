"""Stream `determinism` (C07): the command line on a pair of documents; the worker is started several times
with different PYTHONHASHSEED values (see `extra` in harness/props/c07.py) and each case is also run twice in the
same process; stdout bytes and exit status must all agree.  Also: diff() must not alter the trees it is given.

Two kinds of cases:
  * generated JSON documents (`f`, `t`) with the matching / layout / mode options;
  * FILE cases (`kind`, `docset`): the matrix stream's documents (harness/streams/matrix.py `content`) of every input type - XML, HTML,
    CSV, YAML, plist (XML and binary), pickle (plain data and pickled objects), JSON, JSON5 - under `-e`, `-d`, every `-f` output
    format, `--html`, `--color`, `-j`, `-k`, `--dict-strategy match`, `--match-if` / `--match-unless`, so that the hash-seed /
    order-of-invocation / repeated-call comparisons pass through every loader, every edit class and every formatter.  A run that ends in
    an internal error (the recorded C13 findings D11 / D18) is compared like any other outcome (same exception class, same partial
    output) but is not itself reported here - that is C13's business."""
import base64, json

NAME = "determinism"

OPTS = [[], ["-k"], ["--dict-strategy", "match"], ["-l"], ["-ll"], ["-j"], ["-k", "-j"], ["-e"], ["-d"], ["--color"], ["-k", "--color"]]


MATCH_OPTS = [["--match-if", "len(str(from)) >= len(str(to))"], ["--match-unless", "str(from) < str(to)"],
              ["--match-if", "from == to", "-d"], ["--match-unless", "len(str(to)) > 12", "-e"]]
FILE_DOCSETS = {"json": [0, 1, 3, 4], "json5": [1, 3], "yaml": [0, 1, 3, 4], "csv": [0, 1, 3, 4], "xml": [0, 1, 3, 4, 5], "html": [0, 3, 4, 5],
                "plist": [0, 1, 3, 4], "pickle": [0, 1, 3, 7, 8]}
FILE_DOCSETS_QUICK = {"json": [1, 3], "json5": [3], "yaml": [1, 3], "csv": [1, 3], "xml": [0, 3, 4], "html": [4, 5], "plist": [1, 3], "pickle": [1, 7, 8]}


# shrunk inputs of genuine findings (kept so that they stay visible whatever the seed draws)
FORCED_FILE = [
    # -e prints repr(edit); a Replace of the plist ROOT (forced here by --match-unless) prints PLISTNode's default repr, which contains
    # the object's memory address: the output differs between two calls in one process, between processes and between hash seeds
    {"kind": "plist", "docset": 3, "argv": ["--match-unless", "len(str(to)) > 12", "-e"]},
]


def file_cases(rng, tier):
    """every input type x its document sets x (-e, -d, and drawn output formats / printers / matching options)"""
    from harness.streams import matrix
    fmts = [f for f in matrix.FORMATS if f]
    out = []
    docsets = FILE_DOCSETS_QUICK if tier == "quick" else FILE_DOCSETS
    out += [dict(c) for c in FORCED_FILE]
    for kind in matrix.INPUTS:
        for ds in docsets[kind]:
            argvs = [["-e"], ["-d"]] if tier == "quick" else [[], ["-e"], ["-d"]]
            pool = [["--html"], ["--color"], ["-j"], ["-k"], ["--dict-strategy", "match"], ["-d", "--color"], ["-e", "-k"], ["--html", "-d"]] + MATCH_OPTS
            pool += [["-f", f] for f in fmts] + [["-d", "-f", f] for f in fmts]
            slow = kind == "pickle" and ds in (7, 8)          # pickled objects: 1 - 2 s per case
            argvs += rng.sample(pool, (0 if slow else 2) if tier == "quick" else 12)
            for a in argvs:
                out.append({"kind": kind, "docset": ds, "argv": a})
        out.append({"kind": kind, "docset": docsets[kind][-1], "argv": rng.choice([[], ["--html"], ["-j"]]), "same": True})
    return out


def gen(rng, tier):
    from harness.streams.script import gen_doc, mutate, FORCED
    n = 60 if tier == "quick" else 600
    cases = file_cases(rng, tier)
    for f, t in FORCED[:12]:
        cases.append({"f": f, "t": t, "argv": rng.choice(OPTS)})
    # the same coloured comparison 320 times in one process (defect D17 needed about 248 colour printers)
    cases.append({"f": {"a": [1, 2, "x"], "b": True}, "t": {"a": [1, 3, "xy"], "c": None}, "argv": ["--color"], "many": 320})
    cases.append({"f": [1, 2, 3], "t": [1, 3], "argv": ["--color", "-e"], "many": 320})
    # documents rich in mappings with many keys missing on either side (set/dict iteration order matters there)
    keys = ["alpha", "beta", "gamma", "delta", "eps", "zeta", "eta", "theta", "iota", "kappa", "lam", "mu"]
    for _ in range(n // 3):
        a = {k: rng.choice([1, "x", [1, 2], {"q": 1}, None, True]) for k in rng.sample(keys, rng.randint(2, 8))}
        b = {k: rng.choice([1, "x", [1, 3], {"q": 2}, None, False]) for k in rng.sample(keys, rng.randint(2, 8))}
        cases.append({"f": a, "t": b, "argv": rng.choice(OPTS)})
        cases.append({"f": [a, b], "t": [b, a, a], "argv": rng.choice(OPTS)})
    # large mappings (more than 8x8 entries) on both sides
    for _ in range(max(4, n // 10)):
        ks = ["k%02d" % i for i in range(14)]
        a = {k: rng.choice([1, 2, "x", "yy", [1], None]) for k in rng.sample(ks, rng.randint(9, 13))}
        b = {k: rng.choice([1, 3, "x", "yz", [2], None]) for k in rng.sample(ks, rng.randint(9, 13))}
        cases.append({"f": a, "t": b, "argv": rng.choice([[], ["-j"], ["--dict-strategy", "match"], ["-k"]])})
    # equal-valued leaves of different types against the same targets (hidden memoisation across calls shows here)
    for v in (1, True, 1.0, 0, False, 0.0, "1", "True"):
        for w in (True, 12, "1", 1, None):
            cases.append({"f": [v, 7], "t": [w, 12], "argv": []})
    # deeply nested documents (outcomes that depend on interpreter-global limits must not depend on what ran before)
    def nest(d, leaf):
        x = leaf
        for _ in range(d):
            x = [x]
        return x
    for d, ext in ((60, "json"), (100, "json5"), (120, "json"), (100, "yaml"), (230, "json"), (90, "json5")):
        cases.append({"f": nest(d, 1), "t": nest(d, 2), "argv": [], "ext": ext})
    for _ in range(n):
        a = gen_doc(rng, maxd=4)
        b = mutate(rng, a) if rng.random() < 0.8 else gen_doc(rng)
        cases.append({"f": a, "t": b, "argv": rng.choice(OPTS)})
    # the engine cuts the list into contiguous chunks, one worker each: mix slow (pickled objects, deep nesting) and fast cases
    rng.shuffle(cases)
    return cases


def _snapshot(node, depth=0, ann=False):
    """Deep structural snapshot of a tree: class, payload, public flags, parent identity, child order
    (ann: also the edit annotations of an edited tree)."""
    from graphtage import LeafNode
    d = {"cls": type(node).__name__, "parent": id(node.parent) if node.parent is not None else None,
         "attrs": sorted((k, repr(v)[:80]) for k, v in node.__dict__.items()
                         if isinstance(v, (bool, int, str, float, type(None))) and not k.startswith("_") and k != "removed")}   # "_x" = caches (_total_size)
    if isinstance(node, LeafNode):
        d["obj"] = repr(node.object)
    if ann:
        d["ann"] = [bool(getattr(node, "removed", False)), len(getattr(node, "inserted", []) or []), id(getattr(node, "matched_to", None)),
                    [id(e) for e in getattr(node, "edit_list", [])], id(getattr(node, "edit", None))]
    d["children"] = [(id(c), _snapshot(c, depth + 1, ann)) for c in node.children()]
    return d


def _impl_file(case):
    import hashlib, os, shutil, tempfile
    import graphtage
    from harness import clirun
    from harness.streams import matrix
    kind, ds = case["kind"], case["docset"]
    ext = {"pickle": "pkl"}.get(kind, kind)
    a = matrix.content(kind, 1, ds)
    b = a if case.get("same") else matrix.content(kind, 2, ds)
    files = {"a." + ext: {"b64": base64.b64encode(a).decode()}, "b." + ext: {"b64": base64.b64encode(b).decode()}}
    argv = ["--from-" + kind, "--to-" + kind, "--no-status"] + case["argv"] + ["a." + ext, "b." + ext]
    many = int(case.get("many", 2))
    rs = clirun.run_case(files, [{"argv": argv}] * many)
    r1 = rs[0]
    # the first later call that differs from the first one (the 2nd for ordinary cases; "many": the same command a few
    # hundred times in ONE process - state that accumulates per call, e.g. one colorama wrapper per colour printer)
    r2 = next((r for r in rs[1:] if (r["rc"], r["out"], r["exc"]) != (r1["rc"], r1["out"], r1["exc"])), rs[-1])
    mutated = None
    # purity on the trees of this input type: diff() / get_all_edits() must not alter them
    d = tempfile.mkdtemp(prefix="gtverif_")
    try:
        clirun.write_files(files, d)
        o = graphtage.BuildOptions(allow_key_edits="-k" not in case["argv"])
        ft = graphtage.FILETYPES_BY_TYPENAME[kind]
        A, B = ft.build_tree(os.path.join(d, "a." + ext), o), ft.build_tree(os.path.join(d, "b." + ext), o)
        sa, sb = _snapshot(A), _snapshot(B)
        dd = A.diff(B)
        list(A.get_all_edits(B))
        if _snapshot(A) != sa:
            mutated = "from"
        elif _snapshot(B) != sb:
            mutated = "to"
        else:
            sd = _snapshot(dd, ann=True)
            dd.diff(A)
            if _snapshot(dd, ann=True) != sd:
                mutated = "diff-result"
    except Exception as e:
        mutated = None if r1["exc"] else "EXC:" + type(e).__name__     # a document the command itself fails on: C13's business
    finally:
        shutil.rmtree(d, ignore_errors=True)
    return {"rc": r1["rc"], "exc": r1["exc"], "sha": hashlib.sha256(r1["out"].encode("utf-8", "surrogatepass")).hexdigest(),
            "len": len(r1["out"]), "head": r1["out"][:300], "twice_same": (r1["rc"], r1["out"], r1["exc"]) == (r2["rc"], r2["out"], r2["exc"]),
            "mutated": mutated}


def impl(case):
    import hashlib
    import graphtage
    from graphtage import json as gj
    from harness import clirun
    if "kind" in case:
        return _impl_file(case)
    ext = case.get("ext", "json")
    files = {"a." + ext: {"text": json.dumps(case["f"])}, "b." + ext: {"text": json.dumps(case["t"])}}
    argv = ["--no-status"] + case["argv"] + ["a." + ext, "b." + ext]
    many = int(case.get("many", 2))
    rs = clirun.run_case(files, [{"argv": argv}] * many)
    r1 = rs[0]
    # the first later call that differs from the first one (the 2nd for ordinary cases; "many": the same command a few
    # hundred times in ONE process - state that accumulates per call, e.g. one colorama wrapper per colour printer)
    r2 = next((r for r in rs[1:] if (r["rc"], r["out"], r["exc"]) != (r1["rc"], r1["out"], r1["exc"])), rs[-1])
    printers_exc = None
    if many > 2:
        # the library route: that many colour printers on ONE unchanged sys.stdout, then a write through it
        import io, sys
        from graphtage.printer import Printer
        saved = (sys.stdout, sys.stderr)
        try:
            sys.stdout, sys.stderr = io.StringIO(), io.StringIO()
            try:
                for _ in range(many):
                    Printer(ansi_color=True)
                sys.stdout.write("x")
                sys.stderr.write("x")
            except BaseException as e:      # RecursionError
                printers_exc = type(e).__name__
        finally:
            sys.stdout, sys.stderr = saved
    # purity: diff() must not alter its inputs
    av = case["argv"]
    strat = av[av.index("--dict-strategy") + 1] if "--dict-strategy" in av else ("none" if "-k" in av else "auto")
    o = graphtage.BuildOptions(allow_key_edits=strat != "none", auto_match_keys=strat == "auto",
                               allow_list_edits="-l" not in av, allow_list_edits_when_same_length="-ll" not in av)
    mutated = None
    if "ext" in case:      # deep-nesting cases: the purity snapshot itself would exhaust the stack
        # ... but an ABORTED comparison must leave the trees as they were, too: the parent links along the spine
        try:
            A, B = gj.build_tree(case["f"], o), gj.build_tree(case["t"], o)

            def spine(n, k=120):
                out = []
                for _ in range(k):
                    kids = list(n.children())
                    if not kids:
                        break
                    out.append((id(n), [id(c.parent) for c in kids]))
                    n = kids[-1]
                return out
            sa, sb = spine(A), spine(B)
            try:
                A.diff(B)
            except RecursionError:
                pass
            if spine(A) != sa:
                mutated = "from (parent links after an aborted diff)"
            elif spine(B) != sb:
                mutated = "to (parent links after an aborted diff)"
        except RecursionError:
            pass
        except Exception as e:
            mutated = "EXC:" + type(e).__name__
        return {"rc": r1["rc"], "exc": r1["exc"], "sha": hashlib.sha256(r1["out"].encode("utf-8", "surrogatepass")).hexdigest(),
                "len": len(r1["out"]), "head": r1["out"][:300], "twice_same": (r1["rc"], r1["out"], r1["exc"]) == (r2["rc"], r2["out"], r2["exc"]),
                "mutated": mutated}
    A, B = gj.build_tree(case["f"], o), gj.build_tree(case["t"], o)
    sa, sb = _snapshot(A), _snapshot(B)
    try:
        d = A.diff(B)
        list(A.get_all_edits(B))
        if _snapshot(A) != sa:
            mutated = "from"
        elif _snapshot(B) != sb:
            mutated = "to"
        else:
            # a diff result is itself a tree: comparing IT against a third document must not alter it either
            C3 = gj.build_tree([case["t"], case["f"]], o)
            sd = _snapshot(d, ann=True)
            d.diff(C3)
            if _snapshot(d, ann=True) != sd:
                mutated = "diff-result"
    except Exception as e:
        mutated = "EXC:" + type(e).__name__
    return {"rc": r1["rc"], "exc": r1["exc"], "sha": hashlib.sha256(r1["out"].encode("utf-8", "surrogatepass")).hexdigest(),
            "len": len(r1["out"]), "head": r1["out"][:300], "twice_same": (r1["rc"], r1["out"], r1["exc"]) == (r2["rc"], r2["out"], r2["exc"]),
            "mutated": mutated, "printers_exc": printers_exc}


def key_suffix(case, obs):
    """Makes the keys of the comparisons specific: input type and mode for file cases; and the one recognisable cause - an object's
    default repr (with its memory address) written to the output - gets a key of its own."""
    import re
    head = obs.get("head", "") if isinstance(obs, dict) else ""
    if re.search(r" object at 0x[0-9a-fA-F]+>", head):
        return ":address-in-output:" + case.get("kind", "json")
    if "kind" in case:
        mode = "edits" if "-e" in case["argv"] else "digest" if "-d" in case["argv"] else "full"
        return ":" + case["kind"] + ":" + mode
    return ""


def monitor(case, obs):
    if not isinstance(obs, dict) or obs.get("error"):
        return [{"prop": "C07", "key": "harness-error:" + str(obs.get("exc") if isinstance(obs, dict) else ""), "what": repr(obs)[:300]}]
    hits = []
    if obs["exc"] and "ext" not in case and "kind" not in case:
        # (deep-nesting cases may legitimately end in the interpreter's recursion limit: what matters for C07 is
        # that the outcome is the same whatever ran before, which the seed / order comparisons check)
        hits.append({"prop": "C07", "key": "internal-error:" + obs["exc"], "what": f"command raised {obs['exc']}"})
    if not obs["twice_same"]:
        hits.append({"prop": "C07", "key": "repeat-differs" + key_suffix(case, obs), "what": "two invocations in one process produced different output or exit status; first output starts " + repr(obs.get("head", "")[:160])})
    if obs["mutated"]:
        hits.append({"prop": "C07", "key": "inputs-mutated:" + str(obs["mutated"]), "what": f"diff()/get_all_edits() altered the {obs['mutated']} tree it was given"})
    if obs.get("printers_exc"):
        hits.append({"prop": "C07", "key": "many-colour-printers:" + str(obs["printers_exc"]), "what": f"after creating {case.get('many')} colour printers in one process a write to sys.stdout raises {obs['printers_exc']}: the process keeps state from one comparison to the next"})
    return hits


def classify(case, obs):
    if "kind" in case:
        a = case["argv"]
        fmt = a[a.index("-f") + 1] if "-f" in a else case["kind"]
        rest = " ".join(x for x in a if x.startswith("-") and x != "-f")
        return f"file:{case['kind']}->{fmt}:docset{case['docset']}:opts={rest}" + (":crashes(C13)" if isinstance(obs, dict) and obs.get("exc") else "")
    return "opts=" + " ".join(case["argv"])


def nontrivial(case, obs):
    return isinstance(obs, dict) and obs.get("rc") == 1

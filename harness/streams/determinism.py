"""Stream `determinism` (C07): the command line on a pair of JSON documents; the worker is started several times
with different PYTHONHASHSEED values (see `extra` in harness/props/c07.py) and each case is also run twice in the
same process; stdout bytes and exit status must all agree.  Also: diff() must not alter the trees it is given."""
import json

NAME = "determinism"

OPTS = [[], ["-k"], ["--dict-strategy", "match"], ["-l"], ["-ll"], ["-j"], ["-k", "-j"], ["-e"], ["-d"], ["--color"], ["-k", "--color"]]


def gen(rng, tier):
    from harness.streams.script import gen_doc, mutate, FORCED
    n = 60 if tier == "quick" else 600
    cases = []
    for f, t in FORCED[:12]:
        cases.append({"f": f, "t": t, "argv": rng.choice(OPTS)})
    # documents rich in mappings with many keys missing on either side (set/dict iteration order matters there)
    keys = ["alpha", "beta", "gamma", "delta", "eps", "zeta", "eta", "theta", "iota", "kappa", "lam", "mu"]
    for _ in range(n // 3):
        a = {k: rng.choice([1, "x", [1, 2], {"q": 1}, None, True]) for k in rng.sample(keys, rng.randint(2, 8))}
        b = {k: rng.choice([1, "x", [1, 3], {"q": 2}, None, False]) for k in rng.sample(keys, rng.randint(2, 8))}
        cases.append({"f": a, "t": b, "argv": rng.choice(OPTS)})
        cases.append({"f": [a, b], "t": [b, a, a], "argv": rng.choice(OPTS)})
    # large mappings (more than 8x8 entries) on both sides
    for _ in range(max(4, n // 10)):
        ks = ["k%02d" % i for i in range(14)]
        a = {k: rng.choice([1, 2, "x", "yy", [1], None]) for k in rng.sample(ks, rng.randint(9, 13))}
        b = {k: rng.choice([1, 3, "x", "yz", [2], None]) for k in rng.sample(ks, rng.randint(9, 13))}
        cases.append({"f": a, "t": b, "argv": rng.choice([[], ["-j"], ["--dict-strategy", "match"], ["-k"]])})
    # equal-valued leaves of different types against the same targets (hidden memoisation across calls shows here)
    for v in (1, True, 1.0, 0, False, 0.0, "1", "True"):
        for w in (True, 12, "1", 1, None):
            cases.append({"f": [v, 7], "t": [w, 12], "argv": []})
    # deeply nested documents (outcomes that depend on interpreter-global limits must not depend on what ran before)
    def nest(d, leaf):
        x = leaf
        for _ in range(d):
            x = [x]
        return x
    for d, ext in ((60, "json"), (100, "json5"), (120, "json"), (100, "yaml"), (230, "json"), (90, "json5")):
        cases.append({"f": nest(d, 1), "t": nest(d, 2), "argv": [], "ext": ext})
    for _ in range(n):
        a = gen_doc(rng, maxd=4)
        b = mutate(rng, a) if rng.random() < 0.8 else gen_doc(rng)
        cases.append({"f": a, "t": b, "argv": rng.choice(OPTS)})
    return cases


def _snapshot(node, depth=0, ann=False):
    """Deep structural snapshot of a tree: class, payload, public flags, parent identity, child order
    (ann: also the edit annotations of an edited tree)."""
    from graphtage import LeafNode
    d = {"cls": type(node).__name__, "parent": id(node.parent) if node.parent is not None else None,
         "attrs": sorted((k, repr(v)[:80]) for k, v in node.__dict__.items()
                         if isinstance(v, (bool, int, str, float, type(None))) and not k.startswith("_") and k != "removed")}   # "_x" = caches (_total_size)
    if isinstance(node, LeafNode):
        d["obj"] = repr(node.object)
    if ann:
        d["ann"] = [bool(getattr(node, "removed", False)), len(getattr(node, "inserted", []) or []), id(getattr(node, "matched_to", None)),
                    [id(e) for e in getattr(node, "edit_list", [])], id(getattr(node, "edit", None))]
    d["children"] = [(id(c), _snapshot(c, depth + 1, ann)) for c in node.children()]
    return d


def impl(case):
    import hashlib
    import graphtage
    from graphtage import json as gj
    from harness import clirun
    ext = case.get("ext", "json")
    files = {"a." + ext: {"text": json.dumps(case["f"])}, "b." + ext: {"text": json.dumps(case["t"])}}
    argv = ["--no-status"] + case["argv"] + ["a." + ext, "b." + ext]
    r1, r2 = clirun.run_case(files, [{"argv": argv}, {"argv": argv}])
    # purity: diff() must not alter its inputs
    o = graphtage.BuildOptions(allow_key_edits="-k" not in case["argv"])
    mutated = None
    if "ext" in case:      # deep-nesting cases: the purity snapshot itself would exhaust the stack
        return {"rc": r1["rc"], "exc": r1["exc"], "sha": hashlib.sha256(r1["out"].encode("utf-8", "surrogatepass")).hexdigest(),
                "len": len(r1["out"]), "head": r1["out"][:300], "twice_same": (r1["rc"], r1["out"], r1["exc"]) == (r2["rc"], r2["out"], r2["exc"]),
                "mutated": None}
    A, B = gj.build_tree(case["f"], o), gj.build_tree(case["t"], o)
    sa, sb = _snapshot(A), _snapshot(B)
    try:
        d = A.diff(B)
        list(A.get_all_edits(B))
        if _snapshot(A) != sa:
            mutated = "from"
        elif _snapshot(B) != sb:
            mutated = "to"
        else:
            # a diff result is itself a tree: comparing IT against a third document must not alter it either
            C3 = gj.build_tree([case["t"], case["f"]], o)
            sd = _snapshot(d, ann=True)
            d.diff(C3)
            if _snapshot(d, ann=True) != sd:
                mutated = "diff-result"
    except Exception as e:
        mutated = "EXC:" + type(e).__name__
    return {"rc": r1["rc"], "exc": r1["exc"], "sha": hashlib.sha256(r1["out"].encode("utf-8", "surrogatepass")).hexdigest(),
            "len": len(r1["out"]), "head": r1["out"][:300], "twice_same": (r1["rc"], r1["out"], r1["exc"]) == (r2["rc"], r2["out"], r2["exc"]),
            "mutated": mutated}


def monitor(case, obs):
    if not isinstance(obs, dict) or obs.get("error"):
        return [{"prop": "C07", "key": "harness-error:" + str(obs.get("exc") if isinstance(obs, dict) else ""), "what": repr(obs)[:300]}]
    hits = []
    if obs["exc"] and "ext" not in case:
        # (deep-nesting cases may legitimately end in the interpreter's recursion limit: what matters for C07 is
        # that the outcome is the same whatever ran before, which the seed / order comparisons check)
        hits.append({"prop": "C07", "key": "internal-error:" + obs["exc"], "what": f"command raised {obs['exc']}"})
    if not obs["twice_same"]:
        hits.append({"prop": "C07", "key": "repeat-differs", "what": "two invocations in one process produced different output or exit status"})
    if obs["mutated"]:
        hits.append({"prop": "C07", "key": "inputs-mutated:" + str(obs["mutated"]), "what": f"diff()/get_all_edits() altered the {obs['mutated']} tree it was given"})
    return hits


def classify(case, obs):
    return "opts=" + " ".join(case["argv"])


def nontrivial(case, obs):
    return isinstance(obs, dict) and obs.get("rc") == 1

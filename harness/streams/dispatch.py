"""Stream `dispatch` (C13): the formatter dispatch `graphtage.formatter.get_formatter` for EVERY
(formatter instance, node or edit class) pair, plain and Edited variants — exhaustive (the space is finite)."""
NAME = "dispatch"


def gen(rng, tier):
    # the space is enumerated inside the worker (it depends on /repo's registry); one case = one root formatter
    return [{"root": i} for i in range(16)]


def _paths(f, prefix=()):
    yield list(prefix), f
    for i, s in enumerate(f.sub_formatters):
        yield from _paths(s, prefix + (i,))


def _classes():
    import graphtage
    from graphtage import tree as T
    import graphtage.pydiff, graphtage.dataclasses, graphtage.xml, graphtage.csv, graphtage.plist, graphtage.yaml, graphtage.json, graphtage.pickle  # noqa

    def subs(c, seen):
        for s in c.__subclasses__():
            if s not in seen:
                seen.append(s)
                subs(s, seen)
        return seen
    nodes = [c for c in subs(T.TreeNode, []) if not c.__name__.startswith("Edited")]
    edits = subs(graphtage.edits.AbstractEdit, [])
    return nodes, edits


def _attr_name(h, k):
    """the attribute name under which the handler was found (a function installed with setattr keeps its own
    __name__, e.g. JSONFormatter.print_XMLElement = _json_print_XMLElement)"""
    for c in k.mro():
        name = "print_" + c.__name__
        if getattr(h.__self__, name, None) == h:
            return name
    return h.__name__


def impl(case):
    from graphtage import formatter as F
    import inspect
    roots = list(F.FORMATTERS)
    if case["root"] >= len(roots):
        return {"n_roots": len(roots), "rows": []}
    nodes, edits = _classes()
    rows = []
    for path, inst in _paths(roots[case["root"]]):
        for c in nodes + edits:
            variants = [(c, False)]
            if c in nodes and not inspect.isabstract(c):
                try:
                    variants.append((c.edited_type(), True))
                except Exception:
                    pass
            for k, edited in variants:
                h = F.get_formatter(k, base_formatter=inst)
                rows.append([path, c.__name__, edited, [type(h.__self__).__name__, _attr_name(h, k)] if h is not None else None])
    return {"n_roots": len(roots), "rows": rows}


def to_model(case, obs):
    if not isinstance(obs, dict) or obs.get("error") or not obs["rows"]:
        return None
    return {"s": "dispatch_all", "root": case["root"], "queries": [[r[0], r[1], r[2]] for r in obs["rows"]]}


def expect(case, obs):
    return [r[3] for r in obs["rows"]]


def monitor(case, obs):
    if isinstance(obs, dict) and obs.get("error"):
        return [{"prop": "C13", "key": "dispatch-harness-error:" + str(obs.get("exc")), "what": str(obs.get("msg"))[:300]}]
    return []


def classify(case, obs):
    return "root%d:%d-pairs" % (case["root"], len(obs.get("rows", [])) if isinstance(obs, dict) else 0)


def nontrivial(case, obs):
    return isinstance(obs, dict) and bool(obs.get("rows"))

"""Stream `editmatrix`: the greedy Levenshtein matrix of graphtage.levenshtein.EditDistance on ARBITRARY cost
matrices (model: GtModel.EditMatrix.solve / rows / trimLens / initialBounds).

A case is
    {"from_keys": [k...], "to_keys": [k...],      node identities: two nodes compare == iff their keys are equal
     "from_sizes": [...], "to_sizes": [...],      total_size of every node
     "penalty": 0|1,                              insert_remove_penalty
     "cells": [[...]...],                         len(to) x len(from): cost of from[c].edits(to[r]) (a Match)
     "drive": "edits"|"tighten"|"bounds"}         how the edit is driven to completion

`impl` builds fake leaf nodes (subclass of graphtage.LeafNode, `edits()` returns Match(self, other, table[r][c])),
wraps them in ListNodes, instantiates the REAL EditDistance directly and drives it.  The `costs` / `path_costs`
numpy tables are read from a second instance whose `_cleanup` is hooked to copy them just before they are freed.
"""
NAME = "editmatrix"

DRIVES = ("edits", "tighten", "bounds")


# ------------------------------------------------------------------------------------------------ generator

def _cells(rng, m, n, mode, rem, ins):
    rows = []
    for r in range(m):
        row = []
        for c in range(n):
            if mode == "tiny":
                x = rng.randint(0, 2)
            elif mode == "big":
                x = rng.randint(0, 40)
            elif mode == "zero":
                x = 0 if rng.random() < 0.6 else rng.randint(0, 2)
            else:  # "near": around min(ins, rem): below / equal / above
                base = min(ins[r], rem[c])
                x = max(0, base + rng.choice([-2, -1, -1, 0, 0, 1, 2]))
            row.append(x)
        rows.append(row)
    return rows


def _one(rng, max_dim=7, trim=False):
    n = rng.randint(0, max_dim)
    m = rng.randint(0, max_dim)
    if rng.random() < 0.25:
        m = n  # square matrices are where diagonals matter most
    penalty = rng.randint(0, 1)
    smode = rng.choice(["zero", "unit", "small", "big"])

    def size():
        if smode == "zero":
            return rng.choice([0, 0, 1])
        if smode == "unit":
            return 1
        if smode == "small":
            return rng.randint(0, 2)
        return rng.randint(0, 30)
    fs = [size() for _ in range(n)]
    ts = [size() for _ in range(m)]
    rem = [s + penalty for s in fs]
    ins = [s + penalty for s in ts]
    mode = rng.choice(["tiny", "tiny", "near", "near", "big", "zero"])
    cells = _cells(rng, m, n, mode, rem, ins)
    if trim:
        # few distinct keys so that prefixes / suffixes (and inner coincidences) are shared
        k = rng.randint(1, 3)
        fk = [rng.randint(0, k) for _ in range(n)]
        tk = [rng.randint(0, k) for _ in range(m)]
        r = rng.random()
        if r < 0.4 and n and m:      # force a common prefix
            p = rng.randint(1, min(n, m))
            tk[:p] = fk[:p]
        if 0.2 < r < 0.7 and n and m:  # force a common suffix
            s = rng.randint(1, min(n, m))
            tk[m - s:] = fk[n - s:]
        # equal nodes have equal sizes (same key => same node value)
        ksz = {}
        for i, key in enumerate(fk):
            fs[i] = ksz.setdefault(key, fs[i])
        for i, key in enumerate(tk):
            ts[i] = ksz.setdefault(key, ts[i])
    else:
        fk = list(range(n))
        tk = list(range(100, 100 + m))
    return {"from_keys": fk, "to_keys": tk, "from_sizes": fs, "to_sizes": ts, "penalty": penalty,
            "cells": cells, "drive": rng.choice(DRIVES)}


def _edge_cases():
    out = []
    # empty sides, singletons, all-tie matrices
    for n in range(0, 4):
        for m in range(0, 4):
            for pen in (0, 1):
                for sz in (0, 1):
                    for x in (0, 1, 2):
                        out.append({"from_keys": list(range(n)), "to_keys": list(range(100, 100 + m)),
                                    "from_sizes": [sz] * n, "to_sizes": [sz] * m, "penalty": pen,
                                    "cells": [[x] * n for _ in range(m)], "drive": DRIVES[(n + m + x) % 3]})
    # fully equal sequences (everything is shared prefix): the matrix is 1x1
    for n in range(0, 4):
        out.append({"from_keys": list(range(n)), "to_keys": list(range(n)), "from_sizes": [2] * n, "to_sizes": [2] * n,
                    "penalty": 1, "cells": [[0] * n for _ in range(n)], "drive": "tighten"})
    return out


def gen(rng, tier):
    quick = tier == "quick"
    cases = _edge_cases()
    for _ in range(1500 if quick else 30000):
        cases.append(_one(rng))
    for _ in range(500 if quick else 10000):
        cases.append(_one(rng, trim=True))
    for _ in range(60 if quick else 600):
        cases.append(_one(rng, max_dim=rng.choice([12, 20, 40])))
    return cases


# ------------------------------------------------------------------------------------------------ implementation

def _build(case):
    from graphtage import LeafNode, ListNode
    from graphtage.edits import Match
    table = case["cells"]

    class FakeLeaf(LeafNode):
        def __init__(self, key, size, idx, side):
            super().__init__(key)
            self._sz = size
            self.idx = idx
            self.side = side

        def calculate_total_size(self):
            return self._sz

        def edits(self, other):
            assert self.side == "from" and other.side == "to"
            return Match(self, other, table[other.idx][self.idx])

    fl = ListNode([FakeLeaf(k, s, i, "from") for i, (k, s) in enumerate(zip(case["from_keys"], case["from_sizes"]))])
    tl = ListNode([FakeLeaf(k, s, i, "to") for i, (k, s) in enumerate(zip(case["to_keys"], case["to_sizes"]))])
    return fl, tl


def _drive(ed, how):
    if how == "tighten":
        n = 0
        while ed.tighten_bounds():
            n += 1
            if n > 100000:
                raise RuntimeError("tighten_bounds does not terminate")
    elif how == "bounds":
        # observer style: read bounds() around every step (this builds the script as soon as the matrix is complete)
        n = 0
        ed.bounds()
        while ed.tighten_bounds():
            ed.bounds()
            n += 1
            if n > 100000:
                raise RuntimeError("tighten_bounds does not terminate")
    return list(ed.edits())


def _script(edits):
    from graphtage.edits import Insert, Remove
    out = []
    for e in edits:
        cost = [int(e.bounds().lower_bound), int(e.bounds().upper_bound)]
        if isinstance(e, Remove):
            out.append(["left", None, e.from_node.idx, cost])
        elif isinstance(e, Insert):
            out.append(["up", e.to_insert.idx, None, cost])
        else:
            out.append(["diag", e.to_node.idx, e.from_node.idx, cost])
    return out


def impl(case):
    from graphtage.levenshtein import EditDistance
    fl, tl = _build(case)
    ed = EditDistance(fl, tl, fl.children(), tl.children(), insert_remove_penalty=case["penalty"])
    ib = ed.initial_bounds
    obs = {"initial_bounds": [int(ib.lower_bound), int(ib.upper_bound)],
           "prefix": len(ed.shared_prefix), "suffix": len(ed.reversed_shared_suffix)}
    obs["script"] = _script(_drive(ed, case["drive"]))
    b = ed.bounds()
    obs["bounds"] = [int(b.lower_bound), int(b.upper_bound)]
    obs["script_again"] = _script(list(ed.edits())) == obs["script"]
    obs["tighten_after"] = bool(ed.tighten_bounds())

    # second instance: same class with an observation hook on _cleanup to read the tables before they are freed
    snap = {}

    class Hooked(EditDistance):
        def _cleanup(self):
            if self.path_costs is not None and not isinstance(self.costs, dict):
                snap["costs"] = [[int(x) for x in row] for row in self.costs]
                snap["path_costs"] = [[int(x) for x in row] for row in self.path_costs]
            super()._cleanup()

    fl2, tl2 = _build(case)
    ed2 = Hooked(fl2, tl2, fl2.children(), tl2.children(), insert_remove_penalty=case["penalty"])
    s2 = _script(_drive(ed2, "edits"))
    if ed2.path_costs is not None and not isinstance(ed2.costs, dict):
        snap["costs"] = [[int(x) for x in row] for row in ed2.costs]
        snap["path_costs"] = [[int(x) for x in row] for row in ed2.path_costs]
    obs["hooked_same_script"] = s2 == obs["script"]
    obs["costs"] = snap.get("costs")
    obs["path_costs"] = snap.get("path_costs")
    return obs


# ------------------------------------------------------------------------------------------------ model / expectation

def to_model(case, obs):
    if not isinstance(obs, dict) or obs.get("error"):
        return None
    d = dict(case)
    d["s"] = NAME
    d.pop("drive", None)
    return d


def _located(script):
    """[kind, r, c] with (r, c) = number of to / from elements consumed before the move."""
    r = c = 0
    out = []
    for kind, ti, fi, _ in script:
        out.append([kind, r, c])
        if kind in ("diag", "up"):
            r += 1
        if kind in ("diag", "left"):
            c += 1
    return out


def expect(case, obs):
    if not isinstance(obs, dict) or obs.get("error"):
        return obs
    return {"prefix": obs["prefix"], "suffix": obs["suffix"], "script": _located(obs["script"]),
            "move_costs": [s[3][1] for s in obs["script"]], "bounds": obs["bounds"],
            "initial_bounds": obs["initial_bounds"], "costs": obs["costs"], "path_costs": obs["path_costs"]}


# ------------------------------------------------------------------------------------------------ monitor

def _hit(key, what):
    return {"prop": "C11", "key": key, "what": what}


def monitor(case, obs):
    if not isinstance(obs, dict):
        return [_hit("matrix-crash", "no observation")]
    if obs.get("error"):
        return [_hit("matrix-crash:" + str(obs.get("exc", obs["error"])), "EditDistance raised/hung: " + str(obs.get("msg", ""))[:200])]
    hits = []
    n, m = len(case["from_keys"]), len(case["to_keys"])
    script = obs["script"]
    # every from / to element is consumed exactly once, in order, by the move that names it
    r = c = 0
    for kind, ti, fi, cost in script:
        if kind in ("diag", "up") and ti != r:
            hits.append(_hit("matrix-order", f"move {kind} names to-element {ti} at row position {r}"))
            break
        if kind in ("diag", "left") and fi != c:
            hits.append(_hit("matrix-order", f"move {kind} names from-element {fi} at column position {c}"))
            break
        if cost[0] != cost[1]:
            hits.append(_hit("matrix-nonfinal-subedit", f"sub-edit {kind} has non-definitive bounds {cost}"))
        if kind in ("diag", "up"):
            r += 1
        if kind in ("diag", "left"):
            c += 1
    else:
        if (r, c) != (m, n):
            hits.append(_hit("matrix-incomplete", f"script consumes {c}/{n} from-elements and {r}/{m} to-elements"))
    trimmed_empty = obs["prefix"] + obs["suffix"] == n == m
    if not trimmed_empty:
        total = sum(s[3][1] for s in script)
        if obs["bounds"] != [total, total]:
            hits.append(_hit("matrix-total", f"final bounds {obs['bounds']} but the script costs {total}"))
        ub = sum(case["from_sizes"]) + sum(case["to_sizes"]) + case["penalty"] * (n + m)
        if obs["bounds"][1] > ub:
            hits.append(_hit("matrix-upper", f"final cost {obs['bounds'][1]} exceeds remove-all/insert-all {ub}"))
        if obs["tighten_after"]:
            hits.append(_hit("matrix-tighten-after", "tighten_bounds() returned True after completion"))
    # a DIAG is only taken when strictly cheaper than both the insert and the remove it replaces (outside the trimmed ends)
    p, s = obs["prefix"], obs["suffix"]
    for k, (kind, ti, fi, cost) in enumerate(script):
        if kind == "diag" and p <= k < len(script) - s:
            i = case["to_sizes"][ti] + case["penalty"]
            d = case["from_sizes"][fi] + case["penalty"]
            if not (cost[1] < i and cost[1] < d):
                hits.append(_hit("matrix-diag-not-cheaper", f"match of cost {cost[1]} chosen though insert={i}, remove={d}"))
                break
    if not obs["script_again"]:
        hits.append(_hit("matrix-unstable", "edits() yields a different script when called again"))
    if not obs["hooked_same_script"]:
        hits.append(_hit("matrix-drive-dependent", f"script differs between drive={case['drive']} and plain edits()"))
    return hits


def classify(case, obs):
    n, m = len(case["from_keys"]), len(case["to_keys"])
    if not isinstance(obs, dict) or obs.get("error"):
        return "error"
    kinds = {s[0] for s in obs["script"]}
    shape = "empty" if n == 0 or m == 0 else ("sq" if n == m else "rect")
    big = "L" if max(n, m) > 7 else "S"
    trim = "trim" if obs["prefix"] + obs["suffix"] else "notrim"
    return f"{shape}{big}/{trim}/" + "+".join(sorted(kinds))


def nontrivial(case, obs):
    return bool(case["from_keys"]) and bool(case["to_keys"])


def shrink(case):
    n, m = len(case["from_keys"]), len(case["to_keys"])
    for c in range(n):
        d = dict(case)
        d["from_keys"] = case["from_keys"][:c] + case["from_keys"][c + 1:]
        d["from_sizes"] = case["from_sizes"][:c] + case["from_sizes"][c + 1:]
        d["cells"] = [row[:c] + row[c + 1:] for row in case["cells"]]
        yield d
    for r in range(m):
        d = dict(case)
        d["to_keys"] = case["to_keys"][:r] + case["to_keys"][r + 1:]
        d["to_sizes"] = case["to_sizes"][:r] + case["to_sizes"][r + 1:]
        d["cells"] = case["cells"][:r] + case["cells"][r + 1:]
        yield d
    for r in range(m):
        for c in range(n):
            if case["cells"][r][c] > 0:
                d = dict(case)
                d["cells"] = [list(row) for row in case["cells"]]
                d["cells"][r][c] -= 1
                yield d

"""Stream `expr` (property C19, model layer L7): graphtage.expressions parse + Expression.eval.

A case is
    {"kind": "str" | "rpn", "expr": <expression text>, "mut": [<RPN mutation>...],
     "env": {"vars": [[name, value]...], "sentinels": [{"id", "attrs": [[n, value]...], "meths": [[n, kind]...]}]}}
Values are tagged lists:  ["i",5] ["b",true] ["s","x"] ["n"] ["l",[..]] ["t",[..]] ["d",[[k,v]..]] ["S",id]
["M",id,name] (callable attribute object) ["gen"] (a fresh generator object: the evaluator refuses its members, format
fields traverse it) ["s?"] (a str whose text is not modelled: rendered from a generator / frame / code object / namespace).

`impl` evaluates every case twice on fresh environments:
  1. PRISTINE: nothing in graphtage is patched; the sentinel objects' `__getattribute__` is the tripwire.
     The monitor's underscore-read verdict comes from this run only.
  2. INSTRUMENTED: `get_member`, the module-level name `getattr`, `Expression.get_value` and every
     `Operator.execute` are wrapped (and restored afterwards) to log what the evaluator itself does; this
     feeds the correspondence with the Lean model and the name-resolution part of the monitor.
Both runs must end in the same result class, otherwise the observation carries `"diverged"`.
"""
import builtins, json, re, sys, types

NAME = "expr"
ENV = {"VERIF_CASE_TIMEOUT": "6"}

# the whitelist as documented in the module docstring at the time the property was written
DOC_WHITELIST = ["abs", "all", "any", "ascii", "bin", "bool", "bytearray", "bytes", "chr", "complex", "dict",
                 "enumerate", "filter", "float", "frozenset", "hash", "hex", "id", "int", "iter", "len", "list",
                 "map", "max", "min", "oct", "ord", "round", "set", "slice", "sorted", "str", "sum", "tuple", "zip"]

MODEL_EXC = {"TypeError", "ZeroDivisionError", "IndexError", "KeyError", "AttributeError", "ValueError",
             "ParseError", "RuntimeError"}
BIG = 1 << 40

# ---------------------------------------------------------------------------------------------------------
# sentinel objects (worker side)

_LAMS = None         # code object of each Operator.execute lambda -> operator name
_REC = None          # active recorder (None = hooks are transparent)
_SID = {}            # id(obj) -> sentinel id
_MINFO = {}          # id(M instance) -> (sentinel id, name, kind, payload)


class Sentinel:
    """Object whose attribute reads are all reported to the active recorder."""

    def __getattribute__(self, name):
        rec = _REC
        if rec is not None:
            rec.on_read(self, name, sys._getframe(1))
        return object.__getattribute__(self, name)

    def __repr__(self):
        return "<S%d>" % _SID.get(id(self), 0)


def _gen_fn(_hidden=41, item=2):
    """the generator behind every ["gen"] value; its frame has locals `_hidden`, `item`, the globals of this module
    (among them the private `_REC`, `_SID`, `__builtins__`) and the interpreter's builtins"""
    yield 1
    yield 2


class M:
    """Callable attribute of a sentinel; keeps no state on the instance."""

    def __getattribute__(self, name):
        rec = _REC
        if rec is not None:
            rec.on_read(self, name, sys._getframe(1))
        return object.__getattribute__(self, name)

    def __call__(self, *args):
        sid, name, kind, payload = _MINFO[id(self)]
        if kind == "const":
            if args:
                raise TypeError("%s() takes 1 positional argument but %d were given" % (name, 1 + len(args)))
            return payload
        if kind == "ident":
            if len(args) != 1:
                raise TypeError("%s() takes 2 positional arguments" % name)
            return args[0]
        if kind == "pair":
            if len(args) != 2:
                raise TypeError("%s() takes 3 positional arguments" % name)
            return (args[0], args[1])
        if kind == "gen":
            if len(args) != 1:
                raise TypeError("%s() takes 2 positional arguments" % name)
            return _gen_fn()
        raise RuntimeError(kind)

    def __repr__(self):
        sid, name, _, _ = _MINFO[id(self)]
        return "<S%d.%s>" % (sid, name)


class Env:
    def __init__(self, desc):
        self.desc = desc
        self.sent = {}
        self.keep = []
        for sd in desc.get("sentinels", []):
            s = Sentinel()
            _SID[id(s)] = sd["id"]
            self.sent[sd["id"]] = s
        self.meth = {}
        for sd in desc.get("sentinels", []):
            for n, kind in sd.get("meths", []):
                m = M()
                self.meth[(sd["id"], n)] = m
                self.keep.append(m)
        for sd in desc.get("sentinels", []):
            s = self.sent[sd["id"]]
            for n, kind in sd.get("meths", []):
                m = self.meth[(sd["id"], n)]
                payload = self.value(kind[1]) if kind[0] == "const" else None
                _MINFO[id(m)] = (sd["id"], n, kind[0], payload)
                object.__setattr__(s, n, m)
            for n, v in sd.get("attrs", []):
                object.__setattr__(s, n, self.value(v))
        self.locals = {n: self.value(v) for n, v in desc.get("vars", [])}
        self.desc = desc

    def value(self, v):
        t = v[0]
        if t == "i":
            return int(v[1])
        if t == "b":
            return bool(v[1])
        if t == "s":
            # in some environments every string is an instance of a str SUBCLASS (same value, same behaviour: the
            # evaluator must treat it as the string it is)
            return _StrSub(v[1]) if self.desc.get("strsub") else v[1]
        if t == "n":
            return None
        if t == "l":
            return [self.value(x) for x in v[1]]
        if t == "t":
            return tuple(self.value(x) for x in v[1])
        if t == "d":
            return {self.value(k): self.value(x) for k, x in v[1]}
        if t == "S":
            return self.sent[v[1]]
        if t == "M":
            return self.meth[(v[1], v[2])]
        if t == "gen":
            return _gen_fn()
        raise ValueError(v)

    def close(self):
        for s in self.sent.values():
            _SID.pop(id(s), None)
        for m in self.keep:
            _MINFO.pop(id(m), None)


# ---------------------------------------------------------------------------------------------------------
# real tree nodes (worker side): `from` / `to` bound as graphtage.constraints does for --match-if / --match-unless

def _node_getattribute(self, name):
    rec = _REC
    if rec is not None and name.startswith("_"):
        rec.on_read(self, name, sys._getframe(1))
    return object.__getattribute__(self, name)


class NodeEnv:
    """`from` / `to` are nodes of trees built by graphtage.json.build_tree (bind = "nodes", what MatchIf passes) or
    their to_obj() values (bind = "objs", what MatchUnless passes).  While the environment is open, every
    underscore attribute read on ANY TreeNode goes through the recorder."""

    @staticmethod
    def build(builder, doc):
        """builder "json": graphtage.json.build_tree(doc); "pyobj": graphtage.pydiff.build_tree(<python object described
        by doc>) — custom objects and nested containers; "ast": graphtage.pydiff.ast_to_tree(ast.parse(doc)) — the
        graphtage.ast data-class nodes (Assignment, Call, Subscript, Import, PyAlias, PyObjAttribute …)."""
        if builder == "pyobj":
            from graphtage import pydiff
            return pydiff.build_tree(_py_value(doc))
        if builder == "ast":
            import ast
            from graphtage import pydiff
            return pydiff.ast_to_tree(ast.parse(doc))
        from graphtage import json as gjson
        return gjson.build_tree(doc)

    def __init__(self, case):
        from graphtage.tree import TreeNode
        self.TreeNode = TreeNode
        ft = self.build(case.get("builder", "json"), case["docs"][0])
        tt = self.build(case.get("builder", "json"), case["docs"][1])
        fn = list(ft.dfs())
        tn = list(tt.dfs())
        sel = case.get("sel", [0, 0])
        f, t = fn[sel[0] % len(fn)], tn[sel[1] % len(tn)]
        self.nodes = fn + tn
        if case.get("bind") == "objs":
            self.locals = {"from": f.to_obj(), "to": t.to_obj()}
        else:
            self.locals = {"from": f, "to": t}
        self.desc = {"vars": [], "sentinels": []}
        self.hooked = "__getattribute__" not in TreeNode.__dict__
        if self.hooked:
            TreeNode.__getattribute__ = _node_getattribute

    def close(self):
        if self.hooked and self.TreeNode.__dict__.get("__getattribute__") is _node_getattribute:
            del self.TreeNode.__getattribute__


class _PyThing:
    """a small custom class for graphtage.pydiff.build_tree"""


def _py_value(d):
    """["obj", {attr: value}] -> instance of a custom class, ["tuple", [..]] -> tuple, JSON otherwise"""
    if isinstance(d, list) and len(d) == 2 and d[0] == "obj" and isinstance(d[1], dict):
        o = _PyThing()
        for k, v in d[1].items():
            setattr(o, k, _py_value(v))
        return o
    if isinstance(d, list) and len(d) == 2 and d[0] == "tuple" and isinstance(d[1], list):
        return tuple(_py_value(x) for x in d[1])
    if isinstance(d, list):
        return [_py_value(x) for x in d]
    if isinstance(d, dict):
        return {k: _py_value(v) for k, v in d.items()}
    return d


def make_env(case):
    return NodeEnv(case) if case.get("kind") == "node" else Env(case["env"])


_IMMUTABLE_SCALARS = (type(None), bool, int, float, complex, str, bytes, range, type(Ellipsis), type(NotImplemented))
_CODE_LIKE = (type, types.FunctionType, types.BuiltinFunctionType, types.MethodType, types.MethodWrapperType,
              types.WrapperDescriptorType, types.MethodDescriptorType, types.ModuleType, property, staticmethod, classmethod)


def _identity_meaningful(o, TreeNode):
    """Is "`o` IS the object stored under a private attribute" evidence that private state was handed out?

    No for objects that CPython shares between unrelated values or whose sharing cannot be observed: None, bools,
    numbers, strings/bytes (interned / cached), tuples and frozensets (immutable: a reference cannot be told from a
    copy, and `SequenceNode.children()` legitimately returns the very tuple kept in `_children`), classes, functions,
    modules.  No for tree nodes: `parent`, `children()`, `key`, `value`, `matched_to` … are documented accessors whose
    purpose is to return the node that is also stored in `_parent` / `_children`; a node is a handle whose own state is
    only reachable through `get_member`, i.e. under the underscore rule.  Yes for everything else: the mutable private
    CONTAINER itself (`_children` HashableCounter / dict / list, `_edit_modifiers` list, any other mutable object)."""
    if isinstance(o, _IMMUTABLE_SCALARS) or isinstance(o, (tuple, frozenset)) or isinstance(o, _CODE_LIKE):
        return False
    if isinstance(o, TreeNode):
        return False
    return True


class PrivIndex:
    """The private state of a set of tree nodes: for every node N, the entries of N's instance `__dict__` whose name
    starts with an underscore (read with `object.__getattribute__`, the tripwire is not involved), and `N.__dict__`
    itself."""

    def __init__(self, TreeNode):
        self.TreeNode = TreeNode
        self.nodes = {}         # id(node) -> node
        self.names = {}         # underscore instance-attribute name -> [node, ...]
        self.dicts = {}         # id(node.__dict__) -> node
        self.objs = {}          # id(identity-meaningful private value) -> (node, name)

    def add(self, n):
        if id(n) in self.nodes or not isinstance(n, self.TreeNode):
            return
        self.nodes[id(n)] = n
        try:
            d = object.__getattribute__(n, "__dict__")
        except Exception:
            return
        self.dicts[id(d)] = n
        for k, v in list(d.items()):
            if isinstance(k, str) and k.startswith("_"):
                self.names.setdefault(k, []).append(n)
                if _identity_meaningful(v, self.TreeNode):
                    self.objs.setdefault(id(v), (n, k))

    def value_of(self, name, v):
        """does some indexed node store exactly `v` under `name`?"""
        for n in self.names.get(name, ()):
            try:
                if object.__getattribute__(n, "__dict__").get(name, self) is v:
                    return True
            except Exception:
                pass
        return False


def find_exposures(value, index, max_objects=3000, max_depth=5):
    """THE EXPOSURE RULE.  Walk everything reachable from `value` through mappings (keys and values), dict views
    (`items()` / `keys()` / `values()`), sequences (lists, tuples, deques, …) and sets (iterators and generators are
    not consumed: they are inspected when the expression materialises them — every operator result is checked, so
    `list(from.iter_state())` is seen at the `list(...)` step), to depth `max_depth`; strings / bytes are not entered,
    and tree nodes are not entered (see `_identity_meaningful`).
    An exposure is
      (I)   an object that IS (identity) the `__dict__` of an indexed node;                      -> ("dict", "__dict__")
      (II)  an object that IS (identity) a value stored under an underscore attribute of an indexed node, for objects
            whose identity is meaningful (`_identity_meaningful`: mutable non-node objects);     -> ("object", name)
      (III) a NAMED PAIR (k, v) — a mapping item, or a 2-element tuple/list inside an iterable — whose k is a string
            starting with "_" that is an underscore instance-attribute name of an indexed node: the private namespace
            of a node handed out by name.  Whether v is the very value the node stores is reported ("pair" when it is,
            "name" when only the name matches) but both count.                                    -> ("pair"|"name", k)
    Returns the set of (kind, name).  Documents of the stream never use a node's private attribute names as keys, so
    (III) cannot be triggered by document data (`to_obj()` results)."""
    import collections, collections.abc
    found = set()
    seen = set()
    todo = [(value, 0)]
    budget = max_objects
    TreeNode = index.TreeNode

    def pair(k, v):
        if isinstance(k, str) and k.startswith("_") and k in index.names:
            found.add(("pair" if index.value_of(k, v) else "name", k))

    while todo and budget > 0:
        o, depth = todo.pop()
        budget -= 1
        if isinstance(o, (str, bytes, bytearray)) or isinstance(o, _IMMUTABLE_SCALARS):
            continue
        if id(o) in seen:
            continue
        seen.add(id(o))
        if id(o) in index.dicts and object.__getattribute__(index.dicts[id(o)], "__dict__") is o:
            found.add(("dict", "__dict__"))
        hit = index.objs.get(id(o))
        if hit is not None:
            try:
                if object.__getattribute__(hit[0], "__dict__").get(hit[1]) is o:
                    found.add(("object", hit[1]))
            except Exception:
                pass
        if isinstance(o, TreeNode) or isinstance(o, _CODE_LIKE) or depth >= max_depth:
            continue
        try:
            if isinstance(o, collections.abc.Mapping):
                for k, v in list(o.items())[:400]:
                    pair(k, v)
                    todo.append((k, depth + 1))
                    todo.append((v, depth + 1))
            elif isinstance(o, (collections.abc.Sequence, collections.abc.Set, collections.abc.MappingView, collections.deque)):
                for x in list(o)[:400]:
                    if isinstance(x, (tuple, list)) and len(x) == 2:
                        pair(x[0], x[1])
                    todo.append((x, depth + 1))
        except Exception:
            continue
    return found


# ---------------------------------------------------------------------------------------------------------
# canonical description of Python values (worker side)

def _safe_fns():
    import graphtage.expressions as E
    return getattr(E, "_safe_format", None), getattr(E, "_safe_format_map", None)


def _format_kind(a):
    """("sf", name) for str.format / _safe_format (and the _map variants), ("sm", self, name) for their bound /
    partial forms, None otherwise."""
    import functools
    sf, sfm = _safe_fns()
    if a is str.format or (sf is not None and a is sf):
        return ("sf", "format")
    if a is str.format_map or (sfm is not None and a is sfm):
        return ("sf", "format_map")
    if isinstance(a, types.BuiltinMethodType) and type(getattr(a, "__self__", None)) is str \
            and a.__name__ in ("format", "format_map"):
        return ("sm", a.__self__, a.__name__)
    if type(a) is functools.partial and not a.keywords and len(a.args) == 1 and type(a.args[0]) is str:
        if sf is not None and a.func is sf:
            return ("sm", a.args[0], "format")
        if sfm is not None and a.func is sfm:
            return ("sm", a.args[0], "format_map")
    return None


def _is_format_callable(a):
    return _format_kind(a) is not None


_OPAQUE_STRS = None      # id(str) -> str : results of format calls whose text is not modelled (instrumented run only)


def canon(v, depth=0):
    """Tagged description; anything outside the modelled host becomes ["?", type name]."""
    import graphtage.expressions as E
    if depth > 12:
        return ["?", "deep"]
    if v is None:
        return ["n"]
    t = type(v)
    if t is bool:
        return ["b", v]
    if t is int:
        return ["i", v]
    if t is str:
        if _OPAQUE_STRS is not None and _OPAQUE_STRS.get(id(v)) is v:
            return ["s?"]
        if not v.isprintable() or any(0xD800 <= ord(c) <= 0xDFFF for c in v):
            return ["?", "str-unprintable"]
        return ["s", v]
    if t is list:
        return ["l", [canon(x, depth + 1) for x in v]]
    if t is tuple:
        return ["t", [canon(x, depth + 1) for x in v]]
    if t is dict:
        return ["d", [[canon(k, depth + 1), canon(x, depth + 1)] for k, x in v.items()]]
    if t is Sentinel:
        return ["S", _SID.get(id(v), 0)]
    if t is M:
        sid, name, _, _ = _MINFO[id(v)]
        return ["M", sid, name]
    if isinstance(v, E.Token):
        return _tok_result(v)
    fk = _format_kind(v)
    if fk is not None:
        if fk[0] == "sf":
            return ["sf", fk[1]]
        s = canon(fk[1], depth + 1)
        if s[0] == "s":
            return ["sm", s[1], fk[2]]
        return ["?", "strmeth-unprintable"]
    if t is types.GeneratorType:
        return ["gen"]
    name = getattr(v, "__name__", None) if isinstance(v, (type, types.BuiltinFunctionType)) else None
    if isinstance(name, str) and E.DEFAULT_GLOBALS.get(name) is v and getattr(builtins, name, None) is v:
        return ["bi", name]
    return ["?", t.__name__]


def has_tag(c, tags):
    if not isinstance(c, list) or not c:
        return False
    if c[0] in tags:
        return True
    if c[0] in ("l", "t"):
        return any(has_tag(x, tags) for x in c[1])
    if c[0] == "d":
        return any(has_tag(k, tags) or has_tag(x, tags) for k, x in c[1])
    return False


def _tok_result(t):
    import graphtage.expressions as E
    if isinstance(t, E.FixedSizeCollection):
        return ["tok", "fsc", ""]
    if isinstance(t, E.OperatorToken):
        return ["tok", "op", t.op.name]
    if isinstance(t, E.IntegerToken):
        return ["tok", "int", t.raw_token]
    if isinstance(t, E.FloatToken):
        return ["tok", "float", t.raw_token]
    if isinstance(t, E.StringToken):
        return ["tok", "str", t.raw_token]
    if isinstance(t, E.IdentifierToken):
        return ["tok", "id", t.name]
    return ["tok", "other", t.raw_token]


def ser_token(t):
    import graphtage.expressions as E
    if isinstance(t, E.FixedSizeCollection):
        return ["fsc", t.size, t.container_type.__name__]
    if isinstance(t, E.OperatorToken):
        return ["op", t.op.name]
    if isinstance(t, E.NumericToken):
        if isinstance(t, E.IntegerToken) and type(t.value) is int:
            return ["int", t.raw_token, t.value]
        return ["float", t.raw_token]
    if isinstance(t, E.StringToken):
        return ["str", t.raw_token]
    if isinstance(t, E.IdentifierToken):
        return ["id", t.name, t.offset]
    return ["other", t.raw_token]


def de_token(j):
    import graphtage.expressions as E
    k = j[0]
    if k == "fsc":
        return E.FixedSizeCollection(j[1], tuple if j[2] == "tuple" else list, 0)
    if k == "op":
        op = E.Operator[j[1]]
        if op is E.Operator.GETITEM:
            return E.OpenBracket(0, is_list=False)
        if op is E.Operator.FUNCTION_CALL:
            return E.FunctionCall(0)
        return E.OperatorToken(op, 0)
    if k == "int":
        return E.IntegerToken(j[1], j[2], 0)
    if k == "float":
        return E.FloatToken(j[1], float(j[1]), 0)
    if k == "str":
        return E.StringToken(j[1], 0)
    if k == "id":
        return E.IdentifierToken(j[1], j[2])
    return E.Comma(0)


# ---------------------------------------------------------------------------------------------------------
# tripwire classification

def _reaches_format(o, depth=0):
    """Does a callee / argument structure contain str.format or str.format_map (also inside lazy iterators)?"""
    if depth > 5:
        return False
    if _is_format_callable(o):
        return True
    if isinstance(o, (list, tuple, set, frozenset)):
        return any(_reaches_format(x, depth + 1) for x in o)
    if isinstance(o, dict):
        return any(_reaches_format(x, depth + 1) for x in o.values())
    if isinstance(o, (map, filter, zip, enumerate)) or type(o).__name__ in ("callable_iterator", "list_iterator", "tuple_iterator", "reversed"):
        try:
            red = o.__reduce__()
            return _reaches_format(red[1], depth + 1)
        except Exception:
            return False
    return False


def _callee_name(a):
    mod = getattr(a, "__module__", None)
    name = getattr(a, "__qualname__", None) or getattr(a, "__name__", None)
    if isinstance(name, str):
        return (mod + "." if isinstance(mod, str) else "") + name
    return "instance-of-" + type(a).__name__


class Recorder:
    def __init__(self):
        import graphtage.expressions as E
        self.E = E
        self.file = E.__file__
        global _LAMS
        if _LAMS is None:       # first recorder is always created while nothing is patched
            _LAMS = {op.execute.__code__: op.name for op in E.Operator}
        self.lam = _LAMS
        self.trip = []          # [{name, sid, key, what}]
        self.classchecks = 0
        self.all_reads = []     # (canon(obj), name, frame function) for every hooked read
        self.busy = False
        self.last_callee = None
        self.internal = 0       # underscore reads made by graphtage's own code (methods of the objects themselves)
        self.dict_reads = []    # names of graphtage functions that read a node's __dict__ during the evaluation
        import os
        self.pkg = os.path.dirname(E.__file__) + os.sep

    def on_read(self, obj, name, frame):
        if self.busy:
            return
        self.busy = True
        try:
            self._on_read(obj, name, frame)
        finally:
            self.busy = False

    def _on_read(self, obj, name, frame):
        fn = frame.f_code.co_name
        infile = frame.f_code.co_filename == self.file
        if name.startswith("_") and not infile:
            # a read made (directly or through library code) by a function of the graphtage package other than the
            # expression evaluator: the object's own implementation using its own private state
            g = frame
            while g is not None and g.f_code.co_filename != self.file:
                if g.f_code.co_filename.startswith(self.pkg):
                    key = self._name_driven(obj, name, g, frame)
                    if key is not None:
                        self.trip.append({"obj": canon(obj), "name": name, "key": key, "frame": g.f_code.co_name})
                        return
                    self.internal += 1
                    if name == "__dict__" and len(self.dict_reads) < 20:
                        self.dict_reads.append(g.f_code.co_name)
                    return
                g = g.f_back
        ref = canon(obj)
        if len(self.all_reads) < 2000:
            self.all_reads.append([ref, name, fn if infile else "<outside>"])
        if not name.startswith("_"):
            return
        self.last_callee = None
        key = self._classify(obj, name, frame, fn, infile)
        if key is None:
            self.classchecks += 1
            return
        ent = {"obj": ref, "name": name, "key": key, "frame": fn}
        if self.last_callee:
            ent["callee"] = self.last_callee
        self.trip.append(ent)

    _INS = {}

    @classmethod
    def _literal_access(cls, frame, name):
        """Is the instruction `frame` is executing an attribute access with the name written in the source
        (`self._children`), as opposed to a call such as getattr(self, slot) that got the name as a value?"""
        ins = cls._current_instruction(frame)
        return ins is not None and ins[0] in ("LOAD_ATTR", "LOAD_METHOD", "LOAD_SUPER_ATTR") and ins[1] == name

    @classmethod
    def _current_instruction(cls, frame):
        """(opname, argval) of the instruction the frame is executing; f_lasti may point into the inline cache
        entries that follow a specialised instruction, which belong to the instruction before them."""
        import bisect, dis
        code = frame.f_code
        tab = cls._INS.get(code)
        if tab is None:
            ins = [(i.offset, i.opname, i.argval) for i in dis.get_instructions(code)]
            tab = ([i[0] for i in ins], ins)
            cls._INS[code] = tab
        k = bisect.bisect_right(tab[0], frame.f_lasti) - 1
        if k < 0:
            return None
        return tab[1][k][1], tab[1][k][2]

    def _name_driven(self, obj, name, g, frame):
        """An underscore read made by graphtage's own code is the object's business — unless the NAME came from the
        expression: the evaluator issued `a[b]` (or a call) and the attribute that is read is the very string it
        passed.  That is a public API doing name-driven attribute lookup (an unrestricted getattr)."""
        via = g.f_code.co_name
        while g is not None and g.f_code not in self.lam:
            g = g.f_back
        if g is None:
            return None
        opname = self.lam[g.f_code]
        b = g.f_locals.get("b")
        if opname in ("GETITEM", "TERNARY_CONDITIONAL"):
            if isinstance(b, str) and b == name and not self._literal_access(frame, name):
                return "getitem-reads-underscore-attribute"
            return None
        if opname == "FUNCTION_CALL" and isinstance(b, (tuple, list)):
            if any(isinstance(x, str) and x == name for x in b) and not self._literal_access(frame, name):
                return "call-reads-named-underscore-attribute:" + _callee_name(g.f_locals.get("a"))
        return None

    def _classify(self, obj, name, frame, fn, infile):
        E = self.E
        if infile and fn in ("get_value", "eval", "get_member", "_safe_format", "_safe_format_map"):
            if fn == "get_member":
                m = frame.f_locals.get("member")
                if isinstance(m, E.IdentifierToken) and m.name == name and frame.f_locals.get("obj") is obj:
                    return "evaluator-getattr-underscore"
            if name == "__class__":
                return None         # isinstance(value, <some class>) asking the runtime for the object's class
            cur = self._current_instruction(frame)
            if cur is not None and cur[0].startswith("FORMAT_"):
                # an f-string of an error message is being rendered: repr() of e.g. tuple[<obj>] (types.GenericAlias)
                # asks its arguments for __origin__ / __args__ / __qualname__ / __module__
                return None
            return "evaluator-direct-read"
        g = frame
        while g is not None and g.f_code not in self.lam:
            g = g.f_back
        if g is None:
            return "outside-operator:" + fn
        opname = self.lam[g.f_code]
        if opname == "FUNCTION_CALL":
            a = g.f_locals.get("a")
            b = g.f_locals.get("b")
            self.last_callee = _callee_name(a)
            if g is frame and obj is a and name in ("__qualname__", "__module__", "__name__"):
                # CPython formatting "Value after * must be an iterable" / "... is not callable" messages asks the
                # callee for its name (_PyObject_FunctionStr); the text only ends up in the exception message
                return None
            if _reaches_format(a) or _reaches_format(b):
                fk = _format_kind(a)
                fmt = None
                if fk is not None and fk[0] == "sm":
                    fmt = fk[1]
                elif fk is not None and isinstance(b, (tuple, list)) and b and type(b[0]) is str:
                    fmt = b[0]
                if fmt is not None:
                    top, nested = _fmt_attr_names(fmt)
                    if name in nested and name not in top:
                        return "format-nested-field-attribute"
                return "format-field-attribute"
            if isinstance(a, types.BuiltinFunctionType) and getattr(a, "__self__", None) is builtins \
                    and a.__name__ not in DOC_WHITELIST:
                # a builtin that is not whitelisted was obtained as a VALUE (e.g. gi_frame.f_builtins['getattr'])
                return "reflective-builtin"
            return "call:" + _callee_name(a)
        if opname == "MEMBER_ACCESS":
            return "evaluator-getattr-underscore"
        if opname in ("GETITEM", "TERNARY_CONDITIONAL"):
            return "getitem-reads-underscore-attribute"
        return "operator:" + opname


# ---------------------------------------------------------------------------------------------------------
# str.format: is a call inside the modelled class?

_REF = re.compile(r"^([A-Za-z0-9_]*)((?:\.[A-Za-z0-9_]+|\[(?:(?![\]\[{}!:])[ -~])+\])*)(?:!([rs]))?$")
_STEP = re.compile(r"\.([A-Za-z0-9_]+)|\[([^\]]+)\]")
_SPEC_OK = re.compile(r"^[<>^]?[1-9][0-9]?$")


def _parse_ref(text):
    m = _REF.match(text)
    if not m:
        return None
    name, path, conv = m.group(1), m.group(2) or "", m.group(3)
    if name.isdigit() and len(name) > 6:
        return None
    steps = []
    for st in _STEP.finditer(path):
        if st.group(2) is not None and st.group(2).isdigit() and len(st.group(2)) > 6:
            return None
        steps.append((st.group(1), st.group(2)))
    return (name, steps, conv)


def _parse_fmt(fmt):
    """[(ref, spec pieces)] for the format strings of the modelled class, else None.  A field is
    `{ref}` or `{ref:spec}`, ref = name(.attr|[key])*(!r|!s)?, spec = literal characters and nested `{ref}`."""
    out = []
    i, n = 0, len(fmt)
    while i < n:
        c = fmt[i]
        if c == "{":
            if fmt[i + 1:i + 2] == "{":
                i += 2
                continue
            depth, j = 0, i + 1
            while j < n:
                if fmt[j] == "{":
                    depth += 1
                elif fmt[j] == "}":
                    if depth == 0:
                        break
                    depth -= 1
                j += 1
            else:
                return None
            refpart, sep, specpart = fmt[i + 1:j].partition(":")
            ref = _parse_ref(refpart)
            if ref is None:
                return None
            spec, lit, k = [], "", 0
            while k < len(specpart):
                ch = specpart[k]
                if ch == "{":
                    e = specpart.find("}", k)
                    if e < 0 or "{" in specpart[k + 1:e]:
                        return None
                    r = _parse_ref(specpart[k + 1:e])
                    if r is None:
                        return None
                    if lit:
                        spec.append(lit)
                        lit = ""
                    spec.append(r)
                    k = e + 1
                elif ch == "}" or not (" " <= ch <= "~"):
                    return None
                else:
                    lit += ch
                    k += 1
            if lit:
                spec.append(lit)
            out.append((ref, spec))
            i = j + 1
        elif c == "}":
            if fmt[i + 1:i + 2] == "}":
                i += 2
                continue
            return None
        else:
            i += 1
    return out


_OPAQUE = ("?", "sm", "sf", "bi", "f", "tok")

# What the Lean host (Model/ExprHost.lean: genAttr / frameAttr / codeAttr) says a PUBLIC attribute of a reflective
# object is.  The simulation below uses it only to know which abstract value the model continues with; whether the
# attribute really exists / what really happens is decided by the real run and compared with the model's answer.
_CODE_ATTRS = ["co_argcount", "co_cellvars", "co_code", "co_consts", "co_exceptiontable", "co_filename", "co_firstlineno",
               "co_flags", "co_freevars", "co_kwonlyargcount", "co_lines", "co_linetable", "co_lnotab", "co_name", "co_names",
               "co_nlocals", "co_positions", "co_posonlyargcount", "co_qualname", "co_stacksize", "co_varnames", "replace"]
REFL_ATTR = {
    "gen": {"gi_frame": "frame", "gi_code": "code", "gi_running": "val", "gi_suspended": "val", "gi_yieldfrom": "val",
            "close": "opq", "send": "opq", "throw": "opq"},
    "frame": {"f_globals": "nsG", "f_locals": "nsL", "f_builtins": "nsB", "f_code": "code", "f_back": "val", "f_trace": "val",
              "f_trace_lines": "val", "f_trace_opcodes": "val", "f_lasti": "opq", "f_lineno": "opq", "clear": "opq"},
    "code": {n: "opq" for n in _CODE_ATTRS},
}
_FMT_LAST = {"opaque": False}


class _Stop(Exception):
    """The real call stops here; .modelled says whether the Lean host stops the same way."""
    def __init__(self, modelled):
        self.modelled = modelled


def _fresh_generator(o):
    import inspect
    try:
        return type(o) is types.GeneratorType and inspect.getgeneratorstate(o) == "GEN_CREATED"
    except Exception:
        return False


def _sim_ref(ref, st, pos, mapping):
    """string.Formatter: auto numbering, _SafeFormatter.get_field, convert_field — on the real objects, with the
    tripwire off.  Returns (the (converted) object, kind) where kind is None for a value the host describes exactly
    and "gen" / "frame" / "code" / "nsG" / "nsL" / "nsB" / "opq" for what the host treats abstractly (text rendered
    from it is not modelled); raises _Stop where the real call raises or leaves the host."""
    name, steps, conv = ref
    if name == "" and not steps:
        if st["auto"] is False:
            raise _Stop(True)       # ValueError
        key = st["auto"]
        st["auto"] += 1
    elif name.isdigit() and not steps:
        if st["auto"]:
            raise _Stop(True)       # ValueError
        st["auto"] = False
        key = int(name)
    else:
        key = int(name) if name.isdigit() else name
    if any(a is not None and a.startswith("_") for a, _ in steps):
        raise _Stop(True)           # ParseError from _SafeFormatter.get_field
    try:
        if isinstance(key, int):
            obj = pos[key]
        else:
            if mapping is None:
                raise _Stop(True)   # KeyError
            obj = mapping[key]
    except _Stop:
        raise
    except Exception:
        raise _Stop(True)
    kind = None
    frame = None
    if type(obj) is types.GeneratorType:
        if not _fresh_generator(obj):
            raise _Stop(False)      # a started / finished generator: gi_frame may be None, outside the host
        kind = "gen"
    for attr, k in steps:
        if kind == "opq":
            raise _Stop(False)      # members / items of an object the host does not describe
        if attr is not None:
            if type(obj) is Sentinel:
                d = object.__getattribute__(obj, "__dict__")
                if attr in d:
                    obj = d[attr]
                    if type(obj) is types.GeneratorType:
                        if not _fresh_generator(obj):
                            raise _Stop(False)
                        kind = "gen"
                    continue
            if kind in REFL_ATTR:
                nk = REFL_ATTR[kind].get(attr)
                if nk is None:
                    raise _Stop(True)       # the host answers AttributeError; the real run decides
                try:
                    nxt = getattr(obj, attr)
                except Exception:
                    raise _Stop(True)       # compared: the host says the attribute exists
                if kind == "gen" and attr == "gi_frame" or nk == "frame":
                    frame = nxt
                obj, kind = nxt, (None if nk == "val" else nk)
                continue
            try:
                object.__getattribute__(obj, attr) if type(obj) in (Sentinel, M) else getattr(obj, attr)
            except AttributeError:
                raise _Stop(True)   # the real call raises AttributeError here
            except Exception:
                raise _Stop(False)
            raise _Stop(False)      # attribute exists but is not part of the host description
        else:
            kk = int(k) if k.isdigit() else k
            try:
                nxt = obj[kk]
            except Exception:
                raise _Stop(True)
            if kind in ("nsG", "nsL", "nsB"):
                if kind == "nsG" and kk == "__builtins__" and frame is not None and nxt is frame.f_builtins:
                    obj, kind = nxt, "nsB"
                else:
                    obj, kind = nxt, "opq"
            else:
                obj = nxt
                if type(obj) is types.GeneratorType:
                    if not _fresh_generator(obj):
                        raise _Stop(False)
                    kind = "gen"
    if kind is None:
        c = canon(obj)
        if has_tag(c, _OPAQUE):
            raise _Stop(False)
        if has_tag(c, ("gen",)):
            kind = "holds-gen"      # a list / tuple / dict of the host with a generator inside: its repr is not modelled
    if conv == "r":
        return (repr(obj) if kind is None else obj), ("text" if kind else None)
    if conv == "s":
        return (str(obj) if kind is None else obj), ("text" if kind else None)
    return obj, kind


def _fmt_modelled(fmt, args, mapping, env):
    """True iff `_safe_format(fmt, *args)` (mapping is None) / `_safe_format_map(fmt, mapping)` stays inside the
    Lean host.  Mirrors string.Formatter._vformat + _SafeFormatter.get_field just far enough to know where the
    real call stops.  Side result: _FMT_LAST["opaque"] — does a field render text the host does not model (then a
    successful call is compared as ["s?"], "some str")."""
    _FMT_LAST["opaque"] = False
    fields = _parse_fmt(fmt)
    if fields is None:
        return False
    st = {"auto": 0}                # auto_arg_index: an int, or False
    pos = list(args) if mapping is None else []
    opaque = False
    try:
        for ref, spec in fields:
            obj, kind = _sim_ref(ref, st, pos, mapping)
            text = ""
            for piece in spec:
                if isinstance(piece, str):
                    text += piece
                else:
                    o2, k2 = _sim_ref(piece, st, pos, mapping)
                    if k2 is not None:
                        return False    # a format spec computed from unmodelled text
                    text += format(o2, "")
            if kind is not None:
                opaque = True
            if text:
                if not _SPEC_OK.match(text):
                    return False
                if kind == "text":
                    continue            # a converted (!r / !s) value is a str: padded
                if kind in ("gen", "frame", "code", "nsG", "nsL", "nsB"):
                    _FMT_LAST["opaque"] = False
                    return True         # TypeError: unsupported format string passed to generator.__format__ …
                if kind == "opq":
                    return False
                if type(obj) in (str, int):
                    continue
                if obj is None or type(obj) in (list, tuple, dict, Sentinel, M):
                    return True     # TypeError: unsupported format string passed to …
                return False
    except _Stop as e:
        return e.modelled
    _FMT_LAST["opaque"] = opaque
    return True


def _fmt_attr_names(fmt):
    """(attribute names used by top-level fields, attribute names used by fields nested in a format spec)."""
    top, nested, depth = [], [], 0
    for ch in fmt:
        if ch == "{":
            depth += 1
        elif ch == "}":
            depth = max(0, depth - 1)
        (top if depth <= 1 else nested).append(ch if depth else " ")
    f = lambda t: set(re.findall(r"\.([A-Za-z0-9_]+)", "".join(t)))
    return f(top), f(nested)


# ---------------------------------------------------------------------------------------------------------
# which operator applications are inside the modelled host?

_CMP = ("LESS_THAN", "GREATER_THAN", "LESS_THAN_EQUAL", "GREATER_THAN_EQUAL")
_ARITH = ("MULTIPLICATION", "ADDITION", "SUBTRACTION", "BITWISE_LEFT_SHIFT", "BITWISE_RIGHT_SHIFT", "INT_DIVISION",
          "REMAINDER", "BITWISE_AND", "BITWISE_OR", "BITWISE_XOR", "UNARY_MINUS", "BITWISE_NOT", "DIVISION")


def _ints(c):
    if c[0] == "i":
        yield c[1]
    elif c[0] in ("l", "t"):
        for x in c[1]:
            yield from _ints(x)


def _seq_len(c):
    return len(c[1]) if c[0] in ("l", "t", "s") else 0


def step_modelled(op, raw_args, cargs, outcome, env):
    """None if the step is inside the modelled host, else a short reason."""
    _FMT_LAST["opaque"] = False
    for c in cargs:
        if has_tag(c, ("?",)):
            return "arg-outside-host"
        if has_tag(c, ("s?",)):
            return "unmodelled-text-operand"
    if outcome[0] == "ok":
        if has_tag(outcome[1], ("?",)):
            return "result-outside-host"
    elif outcome[1] not in MODEL_EXC:
        return "exception-" + outcome[1]
    if op == "FUNCTION_CALL" and len(cargs) == 2:
        a, b = cargs
        if a[0] == "bi":
            return "call-of-builtin"
        if b[0] == "gen":
            return "star-of-generator"
        if a[0] in ("sm", "sf"):
            if has_tag(b, ("sm", "sf", "bi", "tok")):
                return "format-of-opaque"
            fa, fb = raw_args
            try:
                args = list(fb)
            except Exception:
                return None         # TypeError in both worlds
            if a[0] == "sf":
                if not args or type(args[0]) is not str:
                    return None
                fmt, args = args[0], args[1:]
            else:
                fmt = _format_kind(fa)[1]
            if a[-1] == "format":
                ok = _fmt_modelled(fmt, args, None, env)
            else:
                if len(args) != 1:
                    return None
                ok = _fmt_modelled(fmt, None, args[0], env)
            return None if ok else "format-outside-class"
        return None
    if op in _ARITH:
        for c in cargs:
            for i in _ints(c):
                if abs(i) > BIG:
                    return "big-int"
        if outcome[0] == "ok":
            for i in _ints(outcome[1]):
                if abs(i) > BIG * BIG:
                    return "big-int"
        if op == "BITWISE_LEFT_SHIFT" and len(cargs) == 2 and cargs[1][0] in ("i", "b") and int(cargs[1][1]) > 64:
            return "big-shift"
        if op == "MULTIPLICATION" and len(cargs) == 2:
            for x, y in (cargs, cargs[::-1]):
                if x[0] in ("l", "t", "s") and y[0] in ("i", "b") and int(y[1]) * max(1, _seq_len(x)) > 256:
                    return "big-repeat"
    if op == "REMAINDER" and cargs and cargs[0][0] == "s":
        return "str-percent"
    if op in _CMP and len(cargs) == 2 and cargs[0][0] == cargs[1][0] and cargs[0][0] in ("l", "t"):
        return "sequence-ordering"
    if op == "BITWISE_OR" and len(cargs) == 2 and cargs[0][0] == "d" and cargs[1][0] == "d":
        return "dict-merge"
    if op in ("EQUALS", "NOT_EQUAL", "IN") and any(has_tag(c, ("sm", "gen")) for c in cargs):
        return "identity-equality"
    if op in ("EQUALS", "NOT_EQUAL", "IN", "GETITEM", "TERNARY_CONDITIONAL") and any(has_tag(c, ("tok",)) for c in cargs):
        return "token-operand"
    if any(c[0] == "tok" for c in cargs[:1]) or (op != "MEMBER_ACCESS" and any(c[0] == "tok" for c in cargs)):
        return "token-operand"
    return None


# ---------------------------------------------------------------------------------------------------------
# impl

def _build_expression(case):
    import graphtage.expressions as E
    if case.get("kind") == "toks":      # an explicit RPN token list, no parser involved
        return E.Expression([de_token(j) for j in case["tokens"]])
    ex = E.parse(case["expr"])
    if case.get("kind") == "rpn":
        toks = list(ex.tokens)
        for mu in case.get("mut", []):
            n = len(toks)
            if mu[0] == "del" and n:
                del toks[mu[1] % n]
            elif mu[0] == "dup" and n:
                toks.insert(mu[1] % n, toks[mu[1] % n])
            elif mu[0] == "swap" and n:
                i, j = mu[1] % n, mu[2] % n
                toks[i], toks[j] = toks[j], toks[i]
            elif mu[0] == "ins":
                toks.insert(mu[1] % (n + 1), de_token(mu[2]))
            elif mu[0] == "size" and n:
                k = mu[1] % n
                if isinstance(toks[k], E.FixedSizeCollection):
                    toks[k] = E.FixedSizeCollection(mu[2], toks[k].container_type, toks[k].offset)
        ex = E.Expression(toks)
    return ex


def _exc_class(e):
    return type(e).__name__


def _run_pristine(case):
    global _REC
    env = make_env(case)
    rec = Recorder()
    out = {}
    try:
        try:
            ex = _build_expression(case)
        except Exception as e:
            out["parse"] = _exc_class(e)
            return out, rec
        out["parse"] = "ok"
        _REC = rec
        try:
            r = ex.eval(locals=env.locals)
            _REC = None
            out["res"] = ["ok", canon(r)]
        except Exception as e:
            _REC = None
            out["res"] = ["exc", _exc_class(e)]
        return out, rec
    finally:
        _REC = None
        env.close()


def _run_instrumented(case):
    global _REC
    import graphtage.expressions as E
    env = make_env(case)
    rec = Recorder()
    global _OPAQUE_STRS
    import string as _stringmod
    log = {"reads": [], "names": [], "bad_names": [], "steps": [], "why": None, "exposed": [], "fmt_refl": [], "refl_ns": None}
    nodes = getattr(env, "nodes", None)
    opaque_strs = {}

    REFL = tuple(set(getattr(E, "_REFLECTIVE_TYPES", ())) | {types.FrameType, types.CodeType, types.TracebackType,
                 types.GeneratorType, types.CoroutineType, types.AsyncGeneratorType, types.ModuleType})
    saved_get_field = _stringmod.Formatter.__dict__.get("get_field")

    def logged_get_field(self, field_name, args, kwargs):
        """string.Formatter.get_field (CPython 3.12) verbatim, plus a record of every step taken on or below an
        object of _REFLECTIVE_TYPES (monitor `format-traverses-reflective`)."""
        import _string
        first, rest = _string.formatter_field_name_split(field_name)
        obj = self.get_value(first, args, kwargs)
        chain, first_attr, below = [], None, False
        for is_attr, i in rest:
            prev = obj
            if is_attr:
                obj = getattr(obj, i)
            else:
                obj = obj[i]
            if isinstance(prev, REFL) or below:
                if not below and not is_attr:
                    continue        # an index step on a reflective object cannot succeed; not a member read
                if first_attr is None:
                    first_attr = str(i)
                    if isinstance(prev, types.GeneratorType) and log["refl_ns"] is None:
                        try:
                            fr = prev.gi_frame
                            log["refl_ns"] = {"g": sorted(k for k in fr.f_globals if isinstance(k, str)),
                                              "l": sorted(k for k in fr.f_locals if isinstance(k, str)),
                                              "b": sorted(k for k in fr.f_builtins if isinstance(k, str)),
                                              "gb": fr.f_globals.get("__builtins__") is fr.f_builtins}
                        except Exception:
                            pass
                below = True
                chain.append(("%s.%s" % (type(prev).__name__, i)) if is_attr else "[%s]" % (i,))
        if first_attr is not None and len(log["fmt_refl"]) < 6:
            log["fmt_refl"].append({"first": first_attr, "field": str(field_name)[:200], "chain": " -> ".join(chain)[:300],
                                    "reached": type(obj).__name__})
        return obj, first

    index = None
    ever_seen = set()
    if nodes is not None:
        index = PrivIndex(env.TreeNode)
        for n in nodes:
            index.add(n)

    def shallow(o):
        yield o
        if isinstance(o, (tuple, list)):
            yield from o[:50]

    def check_exposure(opname, args, r):
        """Attribution of an exposure (see find_exposures) to the operator application that CREATED it: the result
        exposes something that none of its operands already exposed.  An application that involves a tree node
        directly (the receiver of the method / attribute / subscript, or an argument) is judged against its own
        operands only, so a second exposing method in the same expression is reported under its own key; an
        application on plain values (`dict(z)`, `z.copy()`, `list(zip(z.keys(), z.values()))`) can only pass on what
        an earlier step exposed and is reported only for exposures that no earlier step of this evaluation showed."""
        if index is None:
            return
        callee = args[0] if args else None
        inputs = list(args)
        if opname == "FUNCTION_CALL":
            owner = getattr(callee, "__self__", None)
            if owner is not None:
                inputs.append(owner)
            import functools
            if type(callee) is functools.partial:
                inputs += list(callee.args)
        direct = False
        for x in inputs:
            for y in shallow(x):
                if isinstance(y, env.TreeNode):
                    direct = True
                    index.add(y)
        for y in shallow(r):
            index.add(y)        # new nodes (copy(), make_edited()): their private containers are private too
        got = find_exposures(r, index)
        if not got:
            return
        derived = set()
        for x in inputs:
            derived |= find_exposures(x, index)
        new = got - derived
        if not direct:
            new = new - ever_seen
        ever_seen.update(got)
        if new:
            how = opname
            if opname == "FUNCTION_CALL":
                how = "method:" + str(getattr(callee, "__name__", type(callee).__name__))
            elif opname == "MEMBER_ACCESS" and len(args) == 2 and hasattr(args[1], "name"):
                how = "attribute:" + str(args[1].name)
            if not any(e["how"] == how for e in log["exposed"]):
                log["exposed"].append({"how": how, "keys": sorted({n for _, n in new})[:6],
                                       "kinds": sorted({k for k, _ in new})})

    saved = {"get_member": E.get_member, "get_value": E.Expression.__dict__["get_value"],
             "exec": {op: op.execute for op in E.Operator}}
    had_getattr = "getattr" in E.__dict__
    orig_get_member = E.get_member
    orig_get_value = E.Expression.get_value

    def rec_getattr(obj, name, *default):
        # getattr calls of the evaluator itself (get_member); the step-by-step traversal of a replacement field inside
        # _SafeFormatter.get_field (since /repo dfac3bc) is the formatter's, which the model logs on the host side
        if sys._getframe(1).f_code.co_name != "get_field":
            log["reads"].append([canon(obj), name, True])
        return getattr(obj, name, *default)

    def wrapped_get_member(obj, member):
        if not isinstance(member, E.Token):
            log["reads"].append([canon(member), "offset", False])
        return orig_get_member(obj, member)

    def wrapped_get_value(token, locals, globals):
        r = orig_get_value(token, locals, globals)
        if isinstance(token, E.IdentifierToken):
            nm = token.name
            log["names"].append(nm)
            in_loc = nm in locals
            ok = (in_loc and locals[nm] is r) or \
                 (not in_loc and nm in DOC_WHITELIST and getattr(builtins, nm, None) is r)
            if not ok:
                log["bad_names"].append(nm)
        return r

    def make_exec(op, orig):
        def wrapper(*args):
            cargs = [canon(a) for a in args]
            try:
                r = orig(*args)
            except Exception as e:
                why = step_modelled(op.name, args, cargs, ["exc", _exc_class(e)], env)
                log["steps"].append(op.name)
                if why and not log["why"]:
                    log["why"] = why
                raise
            check_exposure(op.name, args, r)
            why = step_modelled(op.name, args, cargs, ["ok", canon(r)], env)
            if not why and _FMT_LAST["opaque"] and type(r) is str:
                opaque_strs[id(r)] = r      # from here on canon(r) is ["s?"]: text rendered from a reflective object
            _FMT_LAST["opaque"] = False
            log["steps"].append(op.name)
            if why and not log["why"]:
                log["why"] = why
            return r
        return wrapper

    out = {}
    try:
        try:
            ex = _build_expression(case)
        except Exception as e:
            out["parse"] = _exc_class(e)
            return out, log
        out["parse"] = "ok"
        out["tokens"] = [ser_token(t) for t in ex.tokens]
        E.get_member = wrapped_get_member
        E.getattr = rec_getattr
        E.Expression.get_value = staticmethod(wrapped_get_value)
        for op in E.Operator:
            op.execute = make_exec(op, saved["exec"][op])
        _stringmod.Formatter.get_field = logged_get_field
        _OPAQUE_STRS = opaque_strs
        _REC = rec
        try:
            r = ex.eval(locals=env.locals)
            _REC = None
            out["res_abs"] = ["ok", canon(r)]
            _OPAQUE_STRS = None
            out["res"] = ["ok", canon(r)]
        except Exception as e:
            _REC = None
            out["res"] = ["exc", _exc_class(e)]
            out["res_abs"] = out["res"]
        return out, log
    finally:
        _REC = None
        _OPAQUE_STRS = None
        if saved_get_field is not None:
            _stringmod.Formatter.get_field = saved_get_field
        E.get_member = saved["get_member"]
        if not had_getattr and "getattr" in E.__dict__:
            del E.getattr
        E.Expression.get_value = saved["get_value"]
        for op, f in saved["exec"].items():
            op.execute = f
        env.close()


_PRISTINE_GLOBALS = None


def worker_init():
    global _PRISTINE_GLOBALS
    import graphtage.expressions as E
    _PRISTINE_GLOBALS = dict(E.DEFAULT_GLOBALS)


def _state_probe(where):
    """Module-level state that must not change between evaluations: DEFAULT_GLOBALS is exactly the documented
    whitelist (bound to the builtins of those names), and `from` / `to` do not resolve when they are not given.
    Leaks are reported and then removed, so that every case starts from the same state."""
    global _PRISTINE_GLOBALS
    import graphtage.expressions as E
    if _PRISTINE_GLOBALS is None:
        _PRISTINE_GLOBALS = dict(E.DEFAULT_GLOBALS)
    probs = []
    keys = sorted(E.DEFAULT_GLOBALS)
    if keys != sorted(DOC_WHITELIST):
        probs.append({"kind": "globals-mutated", "where": where,
                      "extra": sorted(set(keys) - set(DOC_WHITELIST)), "missing": sorted(set(DOC_WHITELIST) - set(keys))})
    else:
        wrong = [k for k in keys if E.DEFAULT_GLOBALS[k] is not getattr(builtins, k, None)]
        if wrong:
            probs.append({"kind": "globals-mutated", "where": where, "rebound": wrong})
    for nm in ("from", "to"):
        try:
            E.parse(nm).eval()
        except Exception:
            continue
        probs.append({"kind": "name-outside-whitelist", "where": where, "name": nm})
    if probs:
        E.DEFAULT_GLOBALS.clear()
        E.DEFAULT_GLOBALS.update(_PRISTINE_GLOBALS)
    return probs


# ---------------------------------------------------------------------------------------------------------
# sequences of evaluations and the constraints path (MatchIf / MatchUnless as __main__ drives them)

def _eval_plain(text, env_desc):
    """parse + eval on a fresh sentinel environment, nothing patched; canonical result."""
    env = Env(env_desc)
    try:
        import graphtage.expressions as E
        try:
            return ["ok", canon(E.parse(text).eval(locals=env.locals))]
        except Exception as e:
            return ["exc", _exc_class(e)]
    finally:
        env.close()


def _run_seq(case):
    """Evaluate the expressions in the given order and then in reverse order, in the same process, without
    resetting anything in between; every expression must give the same result both times."""
    exprs = case["exprs"]
    state, first, second = [], {}, {}
    for idx in range(len(exprs)):
        first[idx] = _eval_plain(exprs[idx], case["env"])
        state += _state_probe("after #%d %r" % (idx, exprs[idx]))
    for idx in reversed(range(len(exprs))):
        second[idx] = _eval_plain(exprs[idx], case["env"])
        state += _state_probe("after (reverse order) #%d %r" % (idx, exprs[idx]))
    diff = [[exprs[i], first[i], second[i]] for i in range(len(exprs)) if _noaddr(first[i]) != _noaddr(second[i])]
    return {"parse": "ok", "kind": "seq", "results": [first[i] for i in range(len(exprs))], "order_diff": diff,
            "state": state, "nsteps": len(exprs)}


def _constraints_once(docs, match_if, match_unless, log):
    """What graphtage.__main__ does for --match-if / --match-unless, on two JSON documents."""
    import graphtage.expressions as E
    from graphtage import json as gjson
    from graphtage.constraints import MatchIf, MatchUnless
    try:
        mi = E.parse(match_if) if match_if else None
        mu = E.parse(match_unless) if match_unless else None
    except Exception as e:
        return ["parse-exc", _exc_class(e)]
    try:
        from_tree = gjson.build_tree(docs[0])
        to_tree = gjson.build_tree(docs[1])
        for node in from_tree.dfs():
            if mi is not None:
                MatchIf.apply(node, mi)
            if mu is not None:
                MatchUnless.apply(node, mu)
        edits = list(from_tree.get_all_edits(to_tree))
        return ["ok", sorted(type(e).__name__ for e in edits)]
    except Exception as e:
        return ["exc", _exc_class(e)]


def _run_constraints(case):
    import graphtage.expressions as E
    jobs = case["jobs"]                 # [[match_if or None, match_unless or None], ...]
    log = {"names": [], "bad_names": [], "under": [], "evals": 0, "raised": 0}
    orig_get_value = E.Expression.get_value
    saved_gv = E.Expression.__dict__["get_value"]
    orig_eval = E.Expression.eval
    had_getattr = "getattr" in E.__dict__

    def rec_getattr(obj, name, *default):
        if isinstance(name, str) and name.startswith("_"):
            log["under"].append([type(obj).__name__, name])
        return getattr(obj, name, *default)

    def wrapped_get_value(token, locals, globals):
        r = orig_get_value(token, locals, globals)
        if isinstance(token, E.IdentifierToken):
            nm = token.name
            log["names"].append(nm)
            in_loc = nm in locals
            ok = (in_loc and locals[nm] is r) or \
                 (not in_loc and nm in DOC_WHITELIST and getattr(builtins, nm, None) is r)
            if not ok:
                log["bad_names"].append(nm)
        return r

    def wrapped_eval(self, locals=None, globals=None):
        log["evals"] += 1
        try:
            return orig_eval(self, locals=locals, globals=globals)
        except Exception:
            log["raised"] += 1
            raise

    state, first, second = [], {}, {}
    E.getattr = rec_getattr
    E.Expression.get_value = staticmethod(wrapped_get_value)
    E.Expression.eval = wrapped_eval
    try:
        for idx, (mi, mu) in enumerate(jobs):
            first[idx] = _constraints_once(case["docs"], mi, mu, log)
            state += _state_probe("after constraints job #%d if=%r unless=%r" % (idx, mi, mu))
        for idx in reversed(range(len(jobs))):
            mi, mu = jobs[idx]
            second[idx] = _constraints_once(case["docs"], mi, mu, log)
            state += _state_probe("after (reverse order) constraints job #%d if=%r unless=%r" % (idx, mi, mu))
    finally:
        if not had_getattr and "getattr" in E.__dict__:
            del E.getattr
        E.Expression.get_value = saved_gv
        E.Expression.eval = orig_eval
    diff = [[jobs[i], first[i], second[i]] for i in range(len(jobs)) if first[i] != second[i]]
    return {"parse": "ok", "kind": "constraints", "results": [first[i] for i in range(len(jobs))], "order_diff": diff,
            "state": state, "names": sorted(set(log["names"])), "bad_names": sorted(set(log["bad_names"])),
            "under": log["under"][:5], "evals": log["evals"], "raised": log["raised"], "nsteps": log["evals"]}


def _noaddr(x):
    """canonical text without memory addresses: hex addresses in reprs, and the huge ints id() / hash() return"""
    return re.sub(r"(?<![0-9.])-?[0-9]{12,}(?![0-9])", "<addr>", re.sub(r"0x[0-9a-fA-F]+", "0x", json.dumps(x)))


def _shape(x):
    """a canonical result with every str replaced by ["s?"] (used when text was rendered from reflective objects:
    frame reprs, namespace reprs … legitimately differ between two evaluations)"""
    if isinstance(x, list):
        if len(x) == 2 and x[0] == "s":
            return ["s?"]
        return [_shape(y) for y in x]
    return x


def _trim_res(r, n=400):
    """the observation keeps a sample of very long result strings only"""
    def go(x):
        if isinstance(x, list):
            if len(x) == 2 and x[0] == "s" and isinstance(x[1], str) and len(x[1]) > n:
                return ["s", x[1][:n] + "…[%d chars]" % len(x[1])]
            return [go(y) for y in x]
        return x
    return go(r)


def impl(case):
    _state_probe("before the case")        # start from a clean module state (leaks belong to the case that made them)
    if case.get("kind") == "seq":
        return _run_seq(case)
    if case.get("kind") == "constraints":
        return _run_constraints(case)
    p, rec = _run_pristine(case)
    state = _state_probe("after the pristine evaluation")
    obs = {"parse": p["parse"], "state": state}
    if p["parse"] != "ok":
        return obs
    i, log = _run_instrumented(case)
    state += _state_probe("after the instrumented evaluation")
    # the same expression once more, AFTER the other run: cross-evaluation state would change the answer
    again = _eval_plain(case["expr"], case["env"]) if case.get("kind", "str") == "str" else None
    if case.get("kind") == "node" and not log["why"]:
        log["why"] = "real-tree-nodes"
    # text rendered from frames / namespaces (reprs of live objects) legitimately differs between evaluations; decided by
    # the recorded traversal, or — for a formatter that does not go through string.Formatter.get_field — by the text
    refl = bool(log.get("fmt_refl")) or bool(re.search(r"\b(gi_|f_globals|f_locals|f_builtins|f_code|f_back|co_)", case.get("expr") or ""))
    same = (lambda a, b: _shape(a) == _shape(b)) if refl else (lambda a, b: _noaddr(a) == _noaddr(b))
    if again is not None and not same(again, p["res"]):
        obs["order_diff"] = [[case["expr"], _trim_res(p["res"]), _trim_res(again)]]
    state += _state_probe("after the repeated evaluation")
    obs["res"] = _trim_res(p["res"]) if (refl or case.get("kind") == "node") else p["res"]
    if log.get("fmt_refl"):
        obs["fmt_refl"] = log["fmt_refl"]
        obs["refl_ns"] = log.get("refl_ns")
    if i.get("res_abs") is not None and i.get("res_abs") != i.get("res"):
        obs["res_abs"] = i["res_abs"]
    obs["tokens"] = i.get("tokens", [])
    obs["trip"] = rec.trip
    obs["classchecks"] = rec.classchecks
    obs["reads"] = log["reads"]
    obs["names"] = log["names"]
    obs["bad_names"] = log["bad_names"]
    obs["exposed"] = [{"how": e["how"], "keys": e["keys"], "kinds": e.get("kinds", [])} for e in log["exposed"][:8]]
    obs["internal_reads"] = rec.internal
    obs["dict_reads"] = sorted(set(rec.dict_reads))
    obs["nsteps"] = len(log["steps"])
    obs["ops"] = sorted(set(log["steps"]))
    why = log["why"]
    if i.get("parse") != "ok" or not same(i.get("res"), p["res"]):
        obs["diverged"] = {"pristine": _trim_res(p.get("res")), "instrumented": _trim_res(i.get("res", i.get("parse")))}
    if not why:
        if p["res"][0] == "ok" and has_tag(p["res"][1], ("?",)):
            why = "final-outside-host"
        elif p["res"][0] == "exc" and p["res"][1] not in MODEL_EXC:
            why = "exception-" + p["res"][1]
        elif len(json.dumps(obs["tokens"])) > 20000:
            why = "too-large"
    obs["unmodelled"] = why
    return obs


# ---------------------------------------------------------------------------------------------------------
# model side

def _model_value(v):
    if v[0] in ("l", "t"):
        return [v[0], [_model_value(x) for x in v[1]]]
    if v[0] == "d":
        return ["d", [[_model_value(k), _model_value(x)] for k, x in v[1]]]
    return v


def to_model(case, obs):
    if obs.get("parse") != "ok" or obs.get("unmodelled") or obs.get("diverged") or obs.get("error"):
        return None
    if case.get("kind") in ("seq", "constraints", "node"):
        return None
    env = case["env"]
    sents = []
    for sd in env.get("sentinels", []):
        attrs = [[n, _model_value(v)] for n, v in sd.get("attrs", [])]
        # callable attributes are ordinary instance attributes holding an M object; setattr order: methods first
        meths = [[n, ["M", sd["id"], n]] for n, _ in sd.get("meths", [])]
        merged = {}
        for n, v in meths + attrs:
            merged[n] = v
        sents.append({"id": sd["id"], "attrs": [[n, v] for n, v in merged.items()],
                      "meths": [[n, ([k[0], _model_value(k[1])] if k[0] == "const" else [k[0]])] for n, k in sd.get("meths", [])]})
    m = {"s": "expr", "tokens": obs["tokens"], "locals": [[n, _model_value(v)] for n, v in env.get("vars", [])],
         "sentinels": sents}
    if obs.get("refl_ns"):
        # the key sets of the namespaces of the generator's frame: part of the host description, like `sentinels`
        m["refl"] = obs["refl_ns"]
    return m


def expect(case, obs):
    host = [[t["obj"][1], t["name"]] for t in obs["trip"] if t["key"] in ("format-field-attribute", "format-nested-field-attribute") and t["obj"][0] == "S"]
    return {"res": obs.get("res_abs", obs["res"]), "reads": obs["reads"], "host": host, "names": obs["names"]}


# ---------------------------------------------------------------------------------------------------------
# monitor

def monitor(case, obs):
    hits = []
    if obs.get("error"):
        return hits
    label = case.get("expr") or json.dumps(case.get("exprs") or case.get("jobs"))
    for pr in obs.get("state", []):
        if pr["kind"] == "globals-mutated":
            hits.append({"prop": "C19", "key": "globals-mutated",
                         "what": "DEFAULT_GLOBALS is no longer the documented whitelist %s (%s): %s" % (
                             pr["where"], label, json.dumps({k: v for k, v in pr.items() if k not in ("kind", "where")}))})
        else:
            hits.append({"prop": "C19", "key": "name-outside-whitelist",
                         "what": "identifier %r resolves although it was not given, %s (%s)" % (pr["name"], pr["where"], label)})
    for d in obs.get("order_diff", [])[:1]:
        hits.append({"prop": "C19", "key": "cross-evaluation-state",
                     "what": "%s gives %s first and %s when evaluated again after other expressions" % (
                         json.dumps(d[0]), json.dumps(d[1]), json.dumps(d[2]))})
    for u in obs.get("under", [])[:1]:
        hits.append({"prop": "C19", "key": "evaluator-getattr-underscore",
                     "what": "constraints path: get_member issued getattr(%s, %r) (%s)" % (u[0], u[1], label)})
    if case.get("kind") in ("seq", "constraints"):
        for n in obs.get("bad_names", []):
            hits.append({"prop": "C19", "key": "name-outside-whitelist",
                         "what": "constraints path resolved identifier %r which is neither from/to nor a documented whitelisted builtin, or not from the given locals (%s)" % (n, label)})
        return hits
    if case.get("meta") == "api-dump-failed":
        hits.append({"prop": "C19", "key": "harness-api-sweep-unavailable",
                     "what": "the public API of the node classes of the tree under test could not be listed (subprocess "
                             "`_api_dump` failed): the deterministic exposure sweep did not run"})
    if obs.get("parse") != "ok":
        return hits
    seen = set()
    for t in obs.get("trip", []):
        if t["key"] in seen:
            continue
        seen.add(t["key"])
        hits.append({"prop": "C19", "key": t["key"],
                     "what": "evaluating %r read underscore attribute %r of %s (mechanism: %s, innermost frame %s%s)" % (
                         case["expr"], t["name"], json.dumps(t["obj"]), t["key"], t.get("frame"),
                         ", callee " + t["callee"] if t.get("callee") else "")})
    seen_e = set()
    for ex in obs.get("exposed", []):
        if ex["how"].startswith("method:"):
            key = "public-method-exposes-private:" + ex["how"][7:]
        elif ex["how"].startswith("attribute:"):
            key = "public-attribute-exposes-private:" + ex["how"][10:]
        else:
            key = "private-state-exposed:" + ex["how"]
        if key in seen_e:
            continue
        seen_e.add(key)
        hits.append({"prop": "C19", "key": key,
                     "what": "evaluating %r obtained private state of a tree node through its public API, no underscore "
                             "access by the evaluator: private attribute names %s, exposure kinds %s (dict = the node's "
                             "__dict__ itself, object = the private mutable container itself, pair = name paired with the "
                             "stored value, name = private attribute name as a mapping key / first element of a pair)" % (
                                 case["expr"], json.dumps(ex["keys"]), json.dumps(ex.get("kinds", [])))})
    seen_f = set()
    for fr in obs.get("fmt_refl", []):
        key = "format-traverses-reflective:" + fr["first"]
        if key in seen_f:
            continue
        seen_f.add(key)
        r = obs.get("res", ["?"])
        shown = json.dumps(r[1] if r[0] == "ok" else r)[:300]
        hits.append({"prop": "C19", "key": key,
                     "what": "evaluating %r: the format field {%s} read members of reflective objects that get_member refuses "
                             "(%s; reached a %s); _SafeFormatter.get_field vets underscore attribute names only. Result: %s" % (
                                 case["expr"], fr["field"], fr["chain"], fr["reached"], shown)})
    for n in sorted(set(obs.get("bad_names", []))):
        hits.append({"prop": "C19", "key": "name-outside-whitelist",
                     "what": "evaluating %r resolved identifier %r which is neither a given variable nor a documented whitelisted builtin" % (case["expr"], n)})
    if obs.get("diverged"):
        hits.append({"prop": "C19", "key": "harness-instrumentation-diverged",
                     "what": "pristine and instrumented evaluation differ: %s" % json.dumps(obs["diverged"])})
    return hits


def classify(case, obs):
    if obs.get("error"):
        return "worker-error"
    if case.get("kind") == "seq":
        return "seq/n=%d/%s" % (len(case["exprs"]), "+".join(sorted({r[0] if r[0] == "ok" else r[1] for r in obs["results"]})))
    if case.get("kind") == "constraints":
        ev = obs.get("evals", 0)
        return "constraints/jobs=%d/evals=%s/raised=%s" % (len(case["jobs"]), "0" if ev == 0 else "1-9" if ev < 10 else "10+",
                                                         "none" if not obs.get("raised") else "all" if obs["raised"] == ev else "some")
    if obs.get("parse") != "ok":
        return "parse:" + obs["parse"]
    if case.get("kind") == "node":
        r = obs["res"]
        ir = obs.get("internal_reads", 0)
        return "node-%s-%s/%s/own-private-reads=%s%s%s%s" % (case.get("builder", "json"), case.get("bind", "nodes"), "ok" if r[0] == "ok" else r[1],
                                                      "0" if ir == 0 else "1-9" if ir < 10 else "10+",
                                                      "/dict-read-by:" + "+".join(obs["dict_reads"]) if obs.get("dict_reads") else "",
                                                      "/EXPOSED" if obs.get("exposed") else "",
                                                      "/format-walks-reflective" if obs.get("fmt_refl") else "")
    tag = "modelled" if not obs.get("unmodelled") else "monitor-only(" + obs["unmodelled"] + ")"
    r = obs["res"]
    res = "ok" if r[0] == "ok" else r[1]
    trip = "+".join(sorted({t["key"] for t in obs.get("trip", [])})) or "no-trip"
    n = obs.get("nsteps", 0)
    size = "0" if n == 0 else "1-3" if n <= 3 else "4-8" if n <= 8 else "9+"
    refl = ""
    if obs.get("fmt_refl"):
        ra = obs.get("res_abs") or r
        refl = "/format-walks-%s->%s%s" % (obs["fmt_refl"][0]["first"], obs["fmt_refl"][0]["reached"],
                                           "/text-not-modelled" if has_tag(ra[1] if ra[0] == "ok" else [], ("s?",)) else "")
    return "%s/%s/%s/ops=%s/%s%s" % (case.get("kind", "str"), tag, res, size, trip, refl)


def nontrivial(case, obs):
    return obs.get("parse") == "ok" and obs.get("nsteps", 0) > 0


# ---------------------------------------------------------------------------------------------------------
# generator

PUB = ["pub", "val", "child", "items", "name", "data"]
PRIV = ["_priv", "__secret", "_x", "_child"]
DUNDER = ["__class__", "__dict__", "__init__", "__doc__", "__getattribute__", "__mro__", "__globals__", "__builtins__"]
STR_METHODS = ["format", "format_map", "upper", "join", "startswith", "count", "strip", "mro", "keys", "get", "real", "imag",
               "numerator", "denominator", "offset", "gi_frame", "f_builtins", "f_globals", "f_back", "gi_code", "append", "copy"]
ODD = ["pub-1", "a-b", "x-_priv", "9lives", "été", "＿priv", "from", "to"]
NONWL = ["getattr", "eval", "exec", "type", "open", "vars", "dir", "object", "format", "globals", "locals", "print",
         "isinstance", "setattr", "compile", "input", "super", "range", "repr", "callable", "__import__", "__builtins__",
         "None", "True", "False", "self", "unknown"]
BINOPS = ["*", "/", "//", "%", "+", "-", "<<", ">>", " in ", "<", ">", "<=", ">=", "==", "!=", "&", "^", "|", " and ", " or "]


def _rand_scalar(rng):
    r = rng.random()
    if r < 0.35:
        return ["i", rng.choice([0, 1, 2, 3, 5, 7, -1, -3, 10, 255, 100])]
    if r < 0.45:
        return ["b", rng.random() < 0.5]
    if r < 0.55:
        return ["n"]
    return ["s", rng.choice(["", "a", "ab", "SECRET", "x y", "{0}", "{0._priv}", "it's", 'q"q', "back\\slash", "über"])]


def _rand_value(rng, depth, sids):
    r = rng.random()
    if depth <= 0 or r < 0.5:
        if sids and rng.random() < 0.25:
            return ["S", rng.choice(sids)]
        return _rand_scalar(rng)
    if r < 0.68:
        return ["l", [_rand_value(rng, depth - 1, sids) for _ in range(rng.randint(0, 3))]]
    if r < 0.84:
        return ["t", [_rand_value(rng, depth - 1, sids) for _ in range(rng.randint(0, 3))]]
    keys = rng.sample([["s", "a"], ["s", "b"], ["s", "_k"], ["i", 0], ["i", 1], ["s", "key"]], rng.randint(0, 3))
    return ["d", [[k, _rand_value(rng, depth - 1, sids)] for k in keys]]


def gen_env(rng):
    ns = rng.choice([1, 1, 2, 2, 3])
    sids = list(range(1, ns + 1))
    sents = []
    for sid in sids:
        attrs = []
        for n in rng.sample(PUB, rng.randint(1, 4)):
            attrs.append([n, _rand_value(rng, 2, sids)])
        for n in rng.sample(PRIV, rng.randint(1, 3)):
            attrs.append([n, rng.choice([["s", "SECRET%d" % sid], ["i", 40 + sid], ["S", rng.choice(sids)], ["l", [["s", "SECRET"]]]])])
        if rng.random() < 0.15:
            attrs.append(["offset", ["i", 3]])
        if rng.random() < 0.3:
            attrs.append(["child", ["S", rng.choice(sids)]])
        meths = []
        if rng.random() < 0.7:
            meths.append(["m0", ["const", _rand_scalar(rng)]])
        if rng.random() < 0.5:
            meths.append(["priv0", ["const", ["s", "SECRET%d" % sid]]])
        if rng.random() < 0.7:
            meths.append(["id1", ["ident"]])
        if rng.random() < 0.5:
            meths.append(["pair2", ["pair"]])
        if rng.random() < 0.3:
            meths.append(["gen1", ["gen"]])
        sents.append({"id": sid, "attrs": attrs, "meths": meths})
    names = ["x", "y", "from", "to", "l", "d", "n", "s", "t"]
    vars_ = [["x", ["S", 1]]]
    if ns > 1:
        vars_.append(["y", ["S", 2]])
    if rng.random() < 0.6:
        vars_.append(["from", ["S", rng.choice(sids)]])
        vars_.append(["to", rng.choice([["S", rng.choice(sids)], _rand_value(rng, 2, sids)])])
    vars_.append(["l", ["l", [_rand_value(rng, 1, sids) for _ in range(rng.randint(0, 4))]]])
    vars_.append(["t", ["t", [_rand_value(rng, 1, sids) for _ in range(rng.randint(0, 3))]]])
    vars_.append(["d", ["d", [[["s", "a"], ["S", 1]], [["s", "b"], _rand_value(rng, 1, sids)], [["i", 0], _rand_scalar(rng)]][:rng.randint(0, 3)]]])
    vars_.append(["n", ["i", rng.choice([0, 1, 2, 5, -2])]])
    vars_.append(["s", ["s", rng.choice(["abc", "", "{0._priv}", "{a._priv}", "{0.pub}"])]])
    strsub = rng.random() < 0.25
    if rng.random() < 0.3:
        vars_.append(["g", ["gen"]])
        if rng.random() < 0.5:
            vars_.append(["dg", ["d", [[["s", "g"], ["gen"]], [["s", "a"], ["S", 1]]]]])
    if rng.random() < 0.1:
        vars_.append(["len", ["i", 7]])          # a local that shadows a whitelisted builtin
    if rng.random() < 0.1:
        vars_.append(["getattr", ["s", "shadow"]])  # a local with a non-whitelisted builtin's name
    desc = {"vars": vars_, "sentinels": sents}
    if strsub:
        desc["strsub"] = True
    return desc, [v[0] for v in vars_]


class _StrSub(str):
    """an instance of a str subclass (e.g. what many libraries hand out for annotated or marked-up text)"""
    __slots__ = ()


class G:
    def __init__(self, rng, varnames, envdesc):
        self.rng = rng
        self.vars = varnames
        self.env = envdesc
        self.attrs = sorted({n for sd in envdesc["sentinels"] for n, _ in sd["attrs"]} |
                            {n for sd in envdesc["sentinels"] for n, _ in sd["meths"]})

    def quote(self, s):
        q = self.rng.choice("'\"")
        return q + s.replace("\\", "\\\\").replace(q, "\\" + q) + q

    def member(self):
        """what follows the '.': usually a bare name, sometimes a parenthesised one (the parser accepts `x.(name)`)"""
        n = self.member_name()
        r = self.rng.random()
        if r < 0.10:
            return "(" + n + ")"
        if r < 0.14:
            return "((" + n + "))"
        if r < 0.16:
            return "( " + n + " )"
        return n

    def member_name(self):
        r = self.rng.random()
        if r < 0.45 and self.attrs:
            return self.rng.choice(self.attrs)
        if r < 0.6:
            return self.rng.choice(PRIV + DUNDER)
        if r < 0.85:
            return self.rng.choice(STR_METHODS)
        if r < 0.93:
            return self.rng.choice(ODD)
        return self.rng.choice(PUB)

    def fmt_field(self):
        rng = self.rng
        first = rng.choice(["0", "0", "0", "1", "", "", "a", "b", "key", "2", "x"])
        path = ""
        for _ in range(rng.choice([0, 1, 1, 1, 2, 3])):
            r = rng.random()
            if r < 0.65:
                path += "." + rng.choice((self.attrs or PUB) + PRIV + PRIV + DUNDER[:3] + ["pub", "real", "nope"])
            else:
                path += "[" + rng.choice(["0", "1", "-1", "a", "b", "_k", "key", "7"]) + "]"
        conv = rng.choice(["", "", "", "!r", "!s", "!a", ""])
        spec = ""
        r = rng.random()
        if r < 0.12:
            spec = ":" + rng.choice([">5", "<4", "^7", "3", ">12", "05", "x", ">>3", ""])
        elif r < 0.40:
            spec = ":" + rng.choice(["", ">", "<", "^", ">", "1"]) + self.nested_field() + rng.choice(["", "", "", "0", "x"])
        elif r < 0.44:
            spec = ":" + self.nested_field() + self.nested_field()
        elif r < 0.46:
            spec = ":>{1:>{2}}"
        return "{" + first + path + conv + spec + "}"

    def nested_field(self):
        """a replacement field inside a format spec (no spec of its own)"""
        rng = self.rng
        first = rng.choice(["1", "1", "0", "", "", "a", "b", "o", "2", "n"])
        path = ""
        for _ in range(rng.choice([0, 0, 1, 1, 2])):
            if rng.random() < 0.75:
                path += "." + rng.choice((self.attrs or PUB) + PRIV + PRIV + PRIV + DUNDER[:2] + ["pub", "nope"])
            else:
                path += "[" + rng.choice(["0", "1", "a", "b", "_k"]) + "]"
        return "{" + first + path + rng.choice(["", "", "", "!s", "!r"]) + "}"

    def fmt_string(self):
        rng = self.rng
        parts = []
        for _ in range(rng.choice([1, 1, 2, 3])):
            r = rng.random()
            if r < 0.7:
                parts.append(self.fmt_field())
            elif r < 0.8:
                parts.append(rng.choice(["{{", "}}", "{", "}", "{0", "0}"]))
            else:
                parts.append(rng.choice(["a", " ", "=", "it's", "-"]))
        return "".join(parts)

    def literal(self):
        rng = self.rng
        r = rng.random()
        if r < 0.35:
            return rng.choice(["0", "1", "2", "3", "7", "10", "255", "0x1F", "0o17", "0b101", "1_0", "007", "99999999999999999999"])
        if r < 0.45:
            return rng.choice(["1e3", "1e-3", "inf", "nan", "2E2", "infinity", "0x", "0b2", "0o9"])
        if r < 0.7:
            return self.quote(rng.choice(["", "a", "ab", "key", "_k", "b", "x y", "{0}", "SECRET", "über", "it's"]))
        if r < 0.85:
            return self.quote(self.fmt_string())
        return self.quote(rng.choice(PRIV + ["format", "pub"]))

    def name(self):
        rng = self.rng
        r = rng.random()
        if r < 0.6:
            return rng.choice(self.vars)
        if r < 0.8:
            return rng.choice(DOC_WHITELIST)
        if r < 0.93:
            return rng.choice(NONWL)
        return rng.choice(ODD + PRIV + DUNDER[:2])

    def atom(self, d):
        rng = self.rng
        r = rng.random()
        if r < 0.4:
            return self.name()
        if r < 0.7:
            return self.literal()
        if r < 0.8 and d > 0:
            return "[" + ", ".join(self.expr(d - 1) for _ in range(rng.randint(0, 3))) + "]"
        if r < 0.9 and d > 0:
            n = rng.randint(0, 3)
            inner = ", ".join(self.expr(d - 1) for _ in range(n))
            return "(" + inner + ("," if n == 1 and rng.random() < 0.5 else "") + ")"
        return self.name()

    def postfix(self, d):
        rng = self.rng
        e = self.atom(d)
        for _ in range(rng.choice([0, 0, 1, 1, 2, 3])):
            r = rng.random()
            if r < 0.5:
                e = e + rng.choice([".", ".", ".", " . "]) + self.member()
            elif r < 0.56:
                e = e + "[" + self.quote(rng.choice(PRIV + DUNDER[:2] + ["pub"])) + "]"
            elif r < 0.7 and d > 0:
                e = e + "[" + self.expr(d - 1) + "]"
            elif r < 0.9 and d > 0:
                e = e + "(" + ", ".join(self.expr(d - 1) for _ in range(rng.choice([0, 1, 1, 2, 2, 3]))) + ")"
            elif d > 0:
                e = "(" + e + ")"
        return e

    def expr(self, d):
        rng = self.rng
        r = rng.random()
        if d <= 0 or r < 0.45:
            return self.postfix(d)
        if r < 0.75:
            a, b = self.expr(d - 1), self.expr(d - 1)
            if rng.random() < 0.4:
                a, b = "(" + a + ")", "(" + b + ")"
            return a + rng.choice(["", " "]) + rng.choice(BINOPS) + rng.choice(["", " "]) + b
        if r < 0.83:
            return rng.choice(["-", "+", "~", "not "]) + self.expr(d - 1)
        if r < 0.9:
            return self.expr(d - 1) + " ? " + self.expr(d - 1) + " : " + self.expr(d - 1)
        return "(" + self.expr(d - 1) + ")"

    # ---- mostly well-typed expressions (evaluate without error most of the time) ----
    def pub_attrs(self, sid, want):
        sd = [x for x in self.env["sentinels"] if x["id"] == sid][0]
        return [n for n, v in sd["attrs"] if not n.startswith("_") and v[0] in want]

    def v_int(self, d):
        rng = self.rng
        r = rng.random()
        if d <= 0 or r < 0.35:
            c = ["n", str(rng.choice([0, 1, 2, 3, 7, 10, 255])), "0x1F", "0b101"]
            a = self.pub_attrs(1, ("i",))
            if a:
                c += ["x." + rng.choice(a)]
            if any(m[0] == "id1" for m in self.env["sentinels"][0]["meths"]):
                c += ["x.id1(" + str(rng.randint(0, 9)) + ")"]
            return rng.choice(c)
        if r < 0.7:
            op = rng.choice(["+", "-", "*", "&", "|", "^"])
            return "(" + self.v_int(d - 1) + " " + op + " " + self.v_int(d - 1) + ")"
        if r < 0.8:
            return "(" + self.v_int(d - 1) + rng.choice([" // ", " % "]) + str(rng.choice([1, 2, 3, 7, -2])) + ")"
        if r < 0.88:
            return "(" + self.v_int(d - 1) + rng.choice([" << ", " >> "]) + str(rng.randint(0, 5)) + ")"
        if r < 0.94:
            return "(" + rng.choice(["-", "~", "+"]) + self.v_int(d - 1) + ")"
        return "(" + self.v_bool(d - 1) + " ? " + self.v_int(d - 1) + " : " + self.v_int(d - 1) + ")"

    def v_str(self, d):
        rng = self.rng
        r = rng.random()
        if d <= 0 or r < 0.4:
            c = [self.quote(rng.choice(["", "a", "ab", "key", "x y", "it's"])), "s"]
            a = self.pub_attrs(1, ("s",))
            if a:
                c += ["x." + rng.choice(a)]
            return rng.choice(c)
        if r < 0.6:
            return "(" + self.v_str(d - 1) + " + " + self.v_str(d - 1) + ")"
        if r < 0.7:
            return "(" + self.v_str(d - 1) + " * " + str(rng.randint(0, 3)) + ")"
        if r < 0.9:
            fs = rng.choice(["{0}", "{}-{}", "{0!r}", "{1}{0}", "<{0}>", "{0}{{}}", "{0[0]}"])
            if fs == "{0[0]}":
                return "(" + self.quote(fs) + ".format([" + self.v_int(d - 1) + "]))"
            return "(" + self.quote(fs) + ".format((" + self.v_int(d - 1) + "), (" + self.v_str(d - 1) + ")))"
        return "(" + self.v_str(d - 1) + ")[0 ? 0 : 0]" if False else "(" + self.v_bool(d - 1) + " ? " + self.v_str(d - 1) + " : " + self.v_str(d - 1) + ")"

    def v_bool(self, d):
        rng = self.rng
        r = rng.random()
        if d <= 0 or r < 0.3:
            return "(" + self.v_int(0) + rng.choice([" < ", " > ", " <= ", " >= ", " == ", " != "]) + self.v_int(0) + ")"
        if r < 0.5:
            return "(" + self.v_int(d - 1) + rng.choice([" < ", " >= ", " == ", " != "]) + self.v_int(d - 1) + ")"
        if r < 0.6:
            return "(" + self.v_str(d - 1) + rng.choice([" == ", " != ", " < ", " in "]) + self.v_str(d - 1) + ")"
        if r < 0.7:
            return "(not " + self.v_bool(d - 1) + ")"
        if r < 0.9:
            return "(" + self.v_bool(d - 1) + rng.choice([" and ", " or "]) + self.v_bool(d - 1) + ")"
        return "(" + rng.choice(["x", "l", "d", "t", "n", "s"]) + rng.choice([" == ", " != ", " in "]) + rng.choice(["l", "t", "d"]) + ")"

    def valid(self, d):
        rng = self.rng
        r = rng.random()
        if r < 0.3:
            return self.v_int(d)
        if r < 0.55:
            return self.v_bool(d)
        if r < 0.75:
            return self.v_str(d)
        if r < 0.85:
            k = rng.randint(1, 3)
            i = rng.randrange(k)
            o, c = rng.choice([("[", "]"), ("(", ",)" if k == 1 else ")")])
            return "(" + o + ", ".join("(" + self.valid(d - 1) + ")" for _ in range(k)) + c + ")[" + str(i) + "]"
        a = self.pub_attrs(1, ("i", "s", "n", "b", "l", "t", "d", "S"))
        if a:
            return "x." + rng.choice(a)
        return "x"

    # ---- targeted shapes ----
    def format_call(self):
        rng = self.rng
        fs = self.quote(self.fmt_string())
        args = [rng.choice(self.vars + ["x", "x", "1", "'a'", "'ab'", "5", "n"]) for _ in range(rng.choice([0, 1, 1, 1, 2, 2, 3]))]
        r = rng.random()
        if r < 0.4:
            return fs + ".format(" + ", ".join(args) + ")"
        if r < 0.6:
            return "str.format(" + ", ".join([fs] + args) + ")"
        if r < 0.8:
            return fs + ".format_map(" + rng.choice(["d", "d", "x", "l", "n", "t"]) + ")"
        if r < 0.9:
            return "str.format_map(" + fs + ", " + rng.choice(["d", "x"]) + ")"
        return rng.choice(["list", "tuple", "sorted", "any", "''.join"]) + "(map((str.format), [" + fs + "], [" + rng.choice(self.vars) + "]))"

    def member_chain(self):
        rng = self.rng
        e = rng.choice(self.vars)
        if rng.random() < 0.15:
            e = "(" + e + ")"
        for _ in range(rng.randint(1, 4)):
            e += "." + self.member()
        r = rng.random()
        if r < 0.2:
            e += "(" + rng.choice(["", "1", "x", "1, 2", "''"]) + ")"
        elif r < 0.3:
            e = "(" + e + "('')[0])"
        elif r < 0.4:
            e += "[" + rng.choice(["0", "'a'", "n", "'_priv'", "'__dict__'", "'__secret'"]) + "]"
        return e

    def refl_field(self, first):
        """a replacement field that walks from a generator into its frame / code object / namespaces (attribute steps
        by public and underscore names, index steps with plain, underscore and missing keys), sometimes one step
        further than the host describes"""
        rng = self.rng
        path = ""
        a = rng.choice(GEN_ATTRS)
        path += "." + a
        if a == "gi_frame":
            b = rng.choice(FRAME_ATTRS)
            path += "." + b
            if b in NS_KEYS and rng.random() < 0.8:
                k = rng.choice(NS_KEYS[b])
                path += "[" + k + "]"
                if k == "__builtins__" and rng.random() < 0.7:
                    path += "[" + rng.choice(NS_KEYS["f_builtins"]) + "]"
            elif b == "f_code" and rng.random() < 0.7:
                path += "." + rng.choice(CODE_ATTRS)
            elif b == "f_back" and rng.random() < 0.5:
                path += "." + rng.choice(FRAME_ATTRS)
        elif a == "gi_code" and rng.random() < 0.8:
            path += "." + rng.choice(CODE_ATTRS)
        r = rng.random()
        if r < 0.12:
            path += rng.choice([".real", ".keys", ".nope", "[0]", "[a]", "._x", ".__class__", ".gi_frame", ".f_globals"])
        conv = rng.choice(["", "", "", "!r", "!s"])
        spec = rng.choice(["", "", "", "", ":>9", ":<40", ":^{1}", ":x"])
        return "{" + first + path + conv + spec + "}"

    def refl_format(self):
        rng = self.rng
        srcs = [v for v in ("g",) if v in self.vars] + ["(x.gen1(0))"] * (1 if any(m[0] == "gen1" for m in self.env["sentinels"][0]["meths"]) else 0)
        if not srcs:
            srcs = ["g"]
        src = rng.choice(srcs)
        r = rng.random()
        if r < 0.12 and "dg" in self.vars:
            return self.quote(rng.choice(["", "a", "<"]) + self.refl_field("g")) + ".format_map(dg)"
        if r < 0.2:
            return self.quote(self.refl_field("0[0]")) + ".format([" + src + "])"
        if r < 0.3:
            return "str.format(" + self.quote(self.refl_field("0")) + ", " + src + ")"
        if r < 0.4:
            return self.quote(self.refl_field("0") + rng.choice(["", " ", "{1}"]) + self.refl_field(rng.choice(["0", "1"]))) + ".format(" + src + ", " + rng.choice(["g", "5", "'ab'", "x"]) + ")"
        if r < 0.46:
            return "[" + self.quote(self.refl_field("0")) + ".format(" + src + "), " + rng.choice(["1", "'a'", "x"]) + "]"
        if r < 0.5:
            return self.quote(self.refl_field("0")) + ".format(" + src + ")" + rng.choice([" + 'a'", " == 'a'", "[0]", ".upper"])
        return self.quote(self.refl_field("0")) + ".format(" + src + rng.choice(["", "", ", 12", ", n"]) + ")"

    def frame_escape(self):
        rng = self.rng
        src = rng.choice(["g", "(x.gen1(0))", "(y.gen1(1))"])
        b = "((" + src + ".gi_frame." + rng.choice(["f_builtins", "f_builtins", "f_globals"]) + ")[" + \
            self.quote(rng.choice(["getattr", "getattr", "eval", "__import__", "vars", "__builtins__"])) + "])"
        return b + "(" + rng.choice(["x, '_priv'", "x, '__dict__'", "'x._priv'", "x", "'os'"]) + ")"


GEN_ATTRS = ["gi_frame"] * 8 + ["gi_code"] * 3 + ["gi_running", "gi_suspended", "gi_yieldfrom", "close", "send", "throw", "gi_nope", "_gi",
                                                  "__class__", "__next__"]
FRAME_ATTRS = ["f_globals"] * 4 + ["f_locals"] * 3 + ["f_builtins"] * 3 + ["f_code"] * 3 + ["f_back", "f_trace", "f_trace_lines",
              "f_trace_opcodes", "f_lasti", "f_lineno", "clear", "f_nope", "_f", "__class__"]
CODE_ATTRS = ["co_filename", "co_name", "co_qualname", "co_consts", "co_names", "co_varnames", "co_code", "co_argcount", "co_firstlineno",
              "co_flags", "replace", "co_lines", "co_lnotab", "co_nope", "_co", "__class__"]
NS_KEYS = {"f_globals": ["__builtins__", "__builtins__", "__name__", "__file__", "_REC", "_SID", "_gen_fn", "Sentinel", "sys", "json", "nope", "0", "_nope"],
           "f_locals": ["_hidden", "item", "self", "nope", "0", "__class__"],
           "f_builtins": ["getattr", "open", "__import__", "eval", "len", "__build_class__", "nope", "_", "0"]}
# one minimal reproducer per first attribute of a generator (monitor keys format-traverses-reflective:<attr>)
REFL_EDGE = ["'{0.gi_frame}'.format(g)", "'{0.gi_code}'.format(g)", "'{0.gi_running}'.format(g)", "'{0.gi_suspended}'.format(g)",
             "'{0.gi_yieldfrom}'.format(g)", "'{0.close}'.format(g)", "'{0.send}'.format(g)", "'{0.throw}'.format(g)",
             "'{0}'.format(g)", "'{0!r}'.format(g)", "'{0:>9}'.format(g)", "'{0}'.format([g])", "'{0[0]}'.format(g)", "'{0.nope}'.format(g)",
             "'{0._x}'.format(g)", "'{0.__class__}'.format(g)", "'{0.gi_frame.f_code.co_filename}'.format(g)",
             "'{0.gi_frame.f_globals[__builtins__][getattr]}'.format(g)", "'{0.gi_frame.f_globals[__builtins__]}'.format(g)",
             "'{0.gi_frame.f_globals[_REC]}'.format(g)", "'{0.gi_frame.f_globals[__name__]}'.format(g)", "'{0.gi_frame.f_globals[nope]}'.format(g)",
             "'{0.gi_frame.f_globals[0]}'.format(g)", "'{0.gi_frame.f_globals}'.format(g)", "'{0.gi_frame.f_locals}'.format(g)",
             "'{0.gi_frame.f_locals[_hidden]}'.format(g)", "'{0.gi_frame.f_locals[item]:>5}'.format(g)", "'{0.gi_frame.f_builtins[getattr]}'.format(g)",
             "'{0.gi_frame.f_builtins[__import__]}'.format(g)", "'{0.gi_frame.f_builtins[nope]}'.format(g)", "'{0.gi_frame.f_back}'.format(g)",
             "'{0.gi_frame.f_back.f_code}'.format(g)", "'{0.gi_frame.f_lineno}'.format(g)", "'{0.gi_frame.f_lineno:>5}'.format(g)",
             "'{0:>{1.gi_frame.f_lineno}}'.format('ab', g)", "'{0.gi_frame:>5}'.format(g)", "'{0.gi_frame.f_globals:>5}'.format(g)",
             "'{0.gi_frame!r:>90}'.format(g)", "'{0.gi_frame[0]}'.format(g)", "'{0.gi_frame.nope}'.format(g)", "'{0.gi_frame._x}'.format(g)",
             "'{0.gi_frame.f_globals[sys].modules}'.format(g)", "'{0.gi_frame.f_globals.keys}'.format(g)", "'{0.gi_frame.f_trace_lines}'.format(g)",
             "'{0.gi_code.co_consts}'.format(g)", "'{0.gi_code.co_names!r}'.format(g)", "'{0.gi_code.nope}'.format(g)", "'{0.gi_code.__class__}'.format(g)",
             "'{0.gi_code.co_filename.upper}'.format(g)", "str.format('{0.gi_frame.f_code.co_name}', g)", "'{g.gi_frame.f_globals[_REC]}'.format_map(dg)",
             "'{g.gi_code.co_name}{a.pub}'.format_map(dg)", "'{0[0].gi_frame.f_locals}'.format([g])", "'{0.gi_frame.f_code}'.format(x.gen1(0))",
             "'{0.gi_frame.f_globals[__builtins__][getattr]}'.format((x.gen1(0)))", "['{0.gi_frame}'.format(g), 1]", "'{0.gi_frame}'.format(g) + 'a'",
             "'{0.gi_frame}{0.gi_code}{1}'.format(g, 5)", "'{0.pub}{1.gi_frame.f_lasti}'.format(x, g)", "'{0.gi_frame.f_globals[__builtins__][getattr]}{1._priv}'.format(g, x)",
             "list(map((str.format), ['{0.gi_frame}'], [g]))", "'{0.m0.gi_frame}'.format(x)", "'{0.gen1.gi_frame}'.format(x)", "'{0.__self__}'.format(len)",
             "'{0.real}'.format(len)", "'{0.format.__self__}'.format('a')", "'{0.gi_frame.f_globals[__builtins__][getattr]}'.format"]


def _mutate_text(rng, s):
    if not s:
        return s
    for _ in range(rng.choice([1, 1, 2, 3])):
        i = rng.randrange(len(s) + 1)
        r = rng.random()
        if r < 0.3 and s:
            j = min(len(s), i + rng.randint(1, 3))
            s = s[:i] + s[j:]
        elif r < 0.7:
            s = s[:i] + rng.choice(list("()[],.'\"_-+*?: ") + ["._", ".__", " not ", " in ", "()", "[]", "->", "→", "\t", "\\"]) + s[i:]
        elif s:
            j = rng.randrange(len(s))
            k = min(len(s), j + rng.randint(1, 4))
            s = s[:i] + s[j:k] + s[i:]
    return s


EDGE = ["", " ", "x", "x.pub", "x._priv", "x.__class__", "x . _priv", "x.'_priv'", "x.(x)", "x.(x.pub)", "x.(y)", "x.5", "5", "0", "''",
        "'a'", "1.5", "1e3", "[]", "()", "(1,)", "[1, 2][0]", "x + []", "f()", "x.m0()", "x.m0('')[0]", "(x.m0('')[0])", "x.id1(5)",
        "x.pair2(1, 2)", "x.priv0('')[0]", "1 ? 2 : 3", "0 ? 2 : 3", "x ? 'a' : 'b'", "1 : 2", "? 1", "min(1+2, 5)", "min(1, 2)",
        "len(l)", "len", "str", "str.format", "getattr", "getattr(x, '_priv')", "eval('1')", "__import__('os')", "type(x)",
        "'{0._priv}'.format(x)", "str.format('{0.__class__.__mro__}', x)", "'{a._priv}'.format_map(d)", "'{0.__dict__}'.format(x)",
        "'{0.pub}'.format(x)", "'{}{}'.format(1, 2)", "'{}{0}'.format(1)", "'{0}{}'.format(1)", "'{1}'.format(1)", "'{a}'.format(1)",
        "'{0!r}'.format('it\\'s')", "'{0[0]._priv}'.format([x])", "'{0[a]._priv}'.format(d)", "'{0.child._priv}'.format(x)",
        "'{0.m0}'.format(x)", "'{0._priv}'.format", "('{0._priv}'.format)(x)", "s.format(x)", "list(map((str.format), ['{0._priv}'], [x]))",
        "'%s' % x", "'%(a)s' % d", "x == x", "x != y", "x in l", "not x", "-n", "~n", "+x", "n << 70", "n << -1", "1 // 0", "1 % 0", "1 / 0",
        "1 / 2", "'a' * 3", "[1] * 2", "l + l", "t + t", "l < l", "d | d", "'a' < 'b'", "1 < 'a'", "n & 6", "-5 & 3", "-5 | 3", "-5 ^ 3", "-7 // 2",
        "-7 % 3", "7 >> 1", "-7 >> 1", "True", "x.pub-1", "a-b", "1-2", "x.＿priv", "d['a']._priv", "(d['a']).pub", "d['a'].pub", "l[0]", "l[-1]",
        "l[99]", "t[0]", "d['zz']", "d[l]", "'abc'[1]", "'abc'['a']", "x[0]", "n[0]", "x(1)", "1(2)", "x.offset", "x.(l)", "1 and 2", "0 and 2",
        "0 or 'a'", "1 or 2", "[x][0].pub", "(x, y)[1].pub", "x.child.pub", "x.child._priv", "n.real", "n.imag", "str.mro", "dict", "[str, len]",
        "(g.gi_frame.f_builtins)['getattr']", "((g.gi_frame.f_builtins)['getattr'])(x, '_priv')",
        "(((x.gen1(0)).gi_frame.f_builtins)['getattr'])(x, '_priv')", "x,", ",", ")", "(", "]", "x]", "'abc", "0x", "x..y", "x.", ".x", "..",
        "not", "in", "x in", "x not in l", "x is y", "x if y else 1", "lambda: 1", "x ** 2", "x @ y", "1 == 1 == 1", "1 < 2 < 3", "- - 1", "not not 1",
        "a.b.c.d", "x.pub.real.imag", "x . pub", "x\t.\tpub", "'a' 'b'", "1 2", "x y", "[1, 2, 3][1]", "[[1, 2], [3]][0][1]", "([1, 2], 3)[0][1]",
        "{}", "{1: 2}", "x;y", "x # c", "→", "x → y", "len → ('a',)",
        # format specs with nested replacement fields
        "'{0:>{1._priv}}'.format('ab', x)", "str.format('{0:{1._priv}}', 'ab', x)", "'{b:>{a._priv}}'.format_map(d)",
        "'{0:>{1.__class__}}'.format('ab', x)", "'{0:>{1}}'.format('ab', 5)", "'{0:^{1.pub}}'.format('ab', x)", "'{:{}}'.format(5, 3)",
        "'{0:>{1}}'.format(x, 5)", "'{0:>{1}}'.format([1], 5)", "'{0!r:>8}'.format('ab')", "'{0:{1}{2}}'.format('ab', '>', 6)",
        "'{0:>{1:>{2}}}'.format('a', 3, 2)", "'{0:<4}|{1:>4}|{2:^5}'.format('a', 7, 'bc')", "'{0:>{n}}'.format('a')",
        "'{:>{}}{}'.format('a', 3, 'z')", "'{0:{}}'.format('a', 3)", "'{:{1}}'.format('a', 3)", "'{0:>{1.pub}}{1._priv}'.format('a', x)",
        "'{0:05}'.format(7)", "'{0:>3}'.format(True)", "'{0:>3}'.format(n)", "'{b:>{a.pub}}'.format_map(d)", "'{0:{0}}'.format(3)",
        # parenthesised member names
        "x.(_priv)", "x.((_priv))", "(x).(__dict__)", "l[1].(_priv)", "(l[1]).(_priv)", "x.(pub)", "x.((pub))", "(x).(child).(_priv)",
        "x.( _priv )", "x.(child)._priv", "x.(child).(pub)", "d['a'].(_priv)", "(d['a']).((__class__))", "x.(format)", "'{0}'.(format)(1)",
        "str.(format)('{0._priv}', x)", "x.(m0)", "(x.(id1))(3)", "from.(_priv)", "to.((__secret))",
        # subscripts with underscore-named string keys
        "x['_priv']", "x['__dict__']", "d['a']['_priv']", "(x.id1(x))['_priv']", "l[1]['_priv']", "x.child['_priv']", "from['_priv']",
        "to['__secret']", "(x.m0('')[0])['_priv']", "x['pub']", "(x.pair2(x, y))[0]['_priv']", "d['_k']", "(1 ? x : y)['_priv']",
        "x.m0['_priv']", "str['_priv']", "'abc'['_priv']", "[x][0]['__class__']"]

RPN_MUTS = [["del", 0], ["del", 1], ["del", -1], ["dup", 0], ["dup", -1], ["swap", 0, 1], ["swap", -1, -2], ["size", -2, 0],
            ["size", -2, 2], ["size", -2, 3], ["size", -2, -1], ["size", 1, 5], ["ins", 0, ["other", ","]], ["ins", -1, ["other", ","]],
            ["ins", 1, ["id", "_priv", 0]], ["ins", -1, ["id", "_priv", 0]], ["ins", -1, ["op", "MEMBER_ACCESS"]],
            ["ins", 99, ["op", "MEMBER_ACCESS"]], ["ins", 99, ["op", "FUNCTION_CALL"]], ["ins", 99, ["op", "GETITEM"]],
            ["ins", 99, ["fsc", 2, "tuple"]], ["ins", 99, ["fsc", 0, "list"]], ["ins", 0, ["str", "{0._priv}"]],
            ["ins", 99, ["id", "format", 0]], ["ins", 99, ["op", "UNARY_MINUS"]], ["ins", 99, ["op", "TERNARY_CONDITIONAL"]],
            ["ins", 99, ["op", "TERNARY_ELSE"]], ["ins", 99, ["op", "LOGICAL_NOT"]], ["ins", 99, ["int", "5", 5]], ["ins", 99, ["float", "1e3"]]]


TOK_ALPHABET = [["id", "x", 0], ["id", "_priv", 0], ["id", "pub", 0], ["id", "format", 0], ["int", "1", 1], ["str", "{0._priv}"],
                ["fsc", 1, "tuple"], ["fsc", 2, "list"], ["op", "MEMBER_ACCESS"], ["op", "FUNCTION_CALL"], ["op", "GETITEM"],
                ["op", "ADDITION"], ["op", "UNARY_MINUS"], ["op", "TERNARY_ELSE"], ["op", "TERNARY_CONDITIONAL"], ["other", ","]]
TOK_EXTRA = [["id", "unknown", 0], ["id", "len", 0], ["id", "str", 0], ["id", "__class__", 0], ["id", "id1", 0], ["id", "m0", 0],
             ["id", "offset", 0], ["id", "y", 0], ["id", "d", 0], ["id", "l", 0], ["int", "0", 0], ["str", "a"], ["str", "{a._priv}"],
             ["id", "format_map", 0], ["float", "1e3"], ["str", "_priv"], ["str", "__dict__"], ["fsc", 0, "tuple"], ["fsc", 3, "tuple"], ["fsc", -1, "list"],
             ["op", "LOGICAL_NOT"], ["op", "LOGICAL_AND"], ["op", "LOGICAL_OR"], ["op", "EQUALS"], ["op", "IN"], ["op", "UNARY_PLUS"],
             ["op", "BITWISE_NOT"], ["op", "MULTIPLICATION"], ["op", "LESS_THAN"]]
TOK_ENV = {"vars": [["x", ["S", 1]], ["y", ["S", 2]], ["l", ["l", [["i", 1], ["S", 1]]]], ["d", ["d", [[["s", "a"], ["S", 1]]]]]],
           "sentinels": [{"id": 1, "attrs": [["pub", ["i", 5]], ["_priv", ["s", "SECRET1"]], ["format", ["s", "{0._priv}"]]],
                          "meths": [["m0", ["const", ["i", 5]]], ["id1", ["ident"]]]},
                         {"id": 2, "attrs": [["pub", ["S", 1]], ["_priv", ["i", 42]], ["offset", ["i", 3]]], "meths": [["id1", ["ident"]]]}]}


def _tok_text(toks):
    return "RPN: " + " ".join(str(t[1]) if t[0] != "fsc" else "FSC%d%s" % (t[1], t[2][0]) for t in toks)


def _toks_case(toks):
    return {"kind": "toks", "expr": _tok_text(toks), "tokens": toks, "env": TOK_ENV}


def gen_toks(rng, tier):
    import itertools
    out = []
    if tier == "quick":
        for t in TOK_ALPHABET:
            out.append(_toks_case([t]))
        for _ in range(350):
            n = rng.choice([2, 3, 3, 4, 4, 5, 6])
            out.append(_toks_case([rng.choice(TOK_ALPHABET if rng.random() < 0.75 else TOK_EXTRA) for _ in range(n)]))
    else:
        for n in (1, 2, 3):     # exhaustive: every RPN sequence of length <= 3 over the 16-token alphabet
            for combo in itertools.product(TOK_ALPHABET, repeat=n):
                out.append(_toks_case(list(combo)))
        for _ in range(12000):
            n = rng.choice([4, 4, 5, 5, 6, 7, 8])
            out.append(_toks_case([rng.choice(TOK_ALPHABET if rng.random() < 0.7 else TOK_EXTRA) for _ in range(n)]))
    return out


RAISING = ["x.nope", "1 // 0", "unknown", "x._priv", "x.(_priv)", "'{0._priv}'.format(x)", "'{0:>{1._priv}}'.format('ab', x)",
           "from.nope", "to._priv", "from", "l[99]", "x(1)", "(g.gi_frame).f_builtins", "getattr(x, '_priv')", "x.pub.real.nope"]
SUCCEEDING = ["x.pub", "1 + 2", "len", "'{0.pub}'.format(x)", "x == x", "[x][0].pub", "not x", "'{0:>{1}}'.format('ab', 5)", "x.(pub)",
              "str.format", "l", "n * 2"]

DOCS = [[{"a": [1, 2, 3], "b": "x"}, {"a": [1, 2, 4], "b": "y"}],
        [[1, 2, {"k": "v"}], [1, 3, {"k": "w"}, 4]],
        [{"a": {"id": 1, "v": [1, 2]}, "b": {"id": 2, "v": []}}, {"a": {"id": 1, "v": [2]}, "c": {"id": 3, "v": [0]}}],
        [5, "five"], [[], {}], [{"x": None}, {"x": None}]]
C_OK_IF = ["from.total_size == to.total_size", "from == to", "from.is_leaf", "len(from.children('')[0] ? 'ab' : 'abc') > 0", "1", "0 == 1",
           "from.parent == to.parent", "not from.is_leaf", "'{0.total_size}'.format(from) == '1'", "to.total_size > 1"]
C_OK_UNLESS = ["from == to", "from != to", "len(str(from)) > 3", "1 == 1", "0 == 1", "not from", "'{0}'.format(from) == '1'", "[from, to][0] == from"]
C_RAISE = ["from.nope", "from._parent", "to._edit_modifiers", "from.(_parent)", "'{0._parent}'.format(from)", "'{0:>{1._parent}}'.format('ab', from)",
           "1 // 0", "unknown", "from[0]", "from['a'] == to['a']", "from.total_size.nope", "(from.dfs('')[0]).gi_frame", "from.dfs()", "from +",
           "getattr(from, '_parent')", "from.a", "to.id == 1", "from['id'] == to['id']", "x", "to(1)"]


NODE_DOCS = [[{"a": [1, 2, 3], "b": "x"}, {"a": [1, 2, 4], "b": "y"}],
             [[1, 2, {"k": "v"}], [1, 3, {"k": "w"}, 4]],
             [{"a": {"id": 1, "v": [1, 2]}, "b": None}, {"a": {"id": 1, "v": [2]}, "c": True}],
             [5, "five"], [[1.5, "s"], ["s", 2]]]
NODE_EDGE = ["from", "to", "from == to", "from.total_size", "from.parent", "to.parent.parent", "from._parent", "from.(_parent)", "to.__dict__",
             "(from.editable_dict('')[0])", "(from.editable_dict('')[0])['_children']", "(to.editable_dict('')[0]).keys('')[0]",
             "list((from.editable_dict('')[0]))", "len((from.editable_dict('')[0]))", "'{0}'.format((from.editable_dict('')[0]))",
             "((from.make_edited('')[0]).editable_dict('')[0])", "(from.to_obj('')[0])", "(from.children('')[0])", "(from.dfs('')[0])",
             "(from.dfs('')[0]).gi_frame", "list(from.dfs('')[0])", "(list(from.dfs('')[0]))[1]", "((list(from.dfs('')[0]))[1]).parent",
             "'{0._parent}'.format(from)", "'{0:>{1._parent}}'.format('ab', from)", "str.format('{0.parent._children}', to)",
             "'{0.total_size}'.format(from)", "from.diff(to)", "(from.copy('')[0])", "(from.copy('')[0]) == from", "from.edits(to)",
             "from.get_all_edits(to)", "list(from.get_all_edits(to))", "from.is_leaf", "from.edited", "from.container_type", "from.object",
             "from.key", "from.value", "from.items", "(from.items('')[0])", "from.child_indexes", "from.auto_match_keys",
             "from.add_edit_modifier(len)", "from.calculate_total_size('')[0]", "from.all_children_are_leaves('')[0]",
             "from['a']", "from['a'] == to['a']", "from[0]", "len(from)", "from in to", "not from", "hash(from)", "str(from)", "sorted([from, to])",
             "from.print(1)", "from.print_parent_context(1, 2)", "from.init_args('')[0]", "from.make_key_value_pair_node(from, to)",
             "from.from_dict(from)", "(from.__class__)", "from.copy_from(to)", "(from.editable_dict('')[0])['_parent']",
             # the same exposure passed on by plain-value operations must stay attributed to its origin (editable_dict) only
             "dict((from.editable_dict('')[0]))", "(from.editable_dict('')[0]).items('')[0]", "list((from.editable_dict('')[0]).items('')[0])",
             "list(zip((from.editable_dict('')[0]).keys('')[0], (from.editable_dict('')[0]).values('')[0]))",
             "[(from.editable_dict('')[0]), (to.editable_dict('')[0])]", "(from.editable_dict('')[0]).copy('')[0]",
             "tuple((to.editable_dict('')[0]).items('')[0])[0]", "[list(enumerate((from.editable_dict('')[0]).items('')[0]))]",
             "(from.children('')[0])", "from.child_indexes", "[from.parent, from.children('')[0], from.to_obj('')[0]]",
             # format fields walking generators / frames / code objects / namespaces / modules, functions and bound methods
             "'{0.gi_frame.f_code.co_filename}'.format((from.dfs('')[0]))", "'{0.gi_frame.f_globals[__builtins__][getattr]}'.format((from.dfs('')[0]))",
             "'{0.gi_frame.f_locals}'.format((from.dfs('')[0]))", "'{0.gi_frame.f_locals[self]}'.format((from.dfs('')[0]))",
             "'{0.gi_frame.f_locals[self].parent}'.format((to.dfs('')[0]))", "'{0.gi_frame.f_locals[self]._children}'.format((from.dfs('')[0]))",
             "'{0.gi_frame.f_globals[__name__]}'.format((from.dfs('')[0]))", "'{0.gi_frame.f_globals[__spec__].origin}'.format((from.dfs('')[0]))",
             "'{0.gi_frame.f_globals[sys].modules[os].environ[HOME]}'.format((from.dfs('')[0]))", "'{0.gi_frame.f_globals[sys].argv}'.format((from.dfs('')[0]))",
             "'{0.gi_frame.f_globals[TreeNode].parent.fget}'.format((from.dfs('')[0]))", "'{0.gi_frame.f_globals[TreeNode].__dict__}'.format((from.dfs('')[0]))",
             "'{0.gi_frame.f_globals[log].manager.loggerDict}'.format((from.dfs('')[0]))", "'{0.gi_frame.f_builtins[open]}'.format((from.dfs('')[0]))",
             "'{0.gi_code.co_consts}'.format((from.dfs('')[0]))", "'{0.gi_code.co_names}'.format((from.get_all_edits(to)))", "'{0.gi_running}'.format((from.dfs('')[0]))",
             "'{0.gi_frame.f_back}'.format((from.dfs('')[0]))", "'{0.gi_frame._x}'.format((from.dfs('')[0]))", "'{0.gi_frame.f_globals[nope]}'.format((from.dfs('')[0]))",
             "'{0:>{1.gi_frame.f_lineno}}'.format('ab', (from.dfs('')[0]))", "str.format('{0.gi_frame.f_code.co_name}', (to.dfs('')[0]))",
             "'{g.gi_frame.f_globals[_total_size]}'.format_map(dict([['g', (from.dfs('')[0])]]))",
             "'{0.dfs}'.format(from)", "'{0.dfs.__self__}'.format(from)", "'{0.dfs.__func__}'.format(from)", "'{0.dfs.__func__.__globals__}'.format(from)",
             "'{0.dfs.__code__}'.format(from)", "'{0.to_obj.__call__}'.format(from)", "'{0.dfs.gi_frame}'.format(from)", "'{0.children.__self__._children}'.format(from)",
             "'{0.container_type.mro}'.format(from)", "'{0.container_type.__subclasses__}'.format(from)", "'{0.parent.fget}'.format(from)",
             "'{0[_parent]}'.format(from)", "'{0[_children]}'.format(from)", "'{0.total_size.real}'.format(from)", "'{0.edited.__class__}'.format(from)"]


PYOBJ_DOCS = [[["obj", {"a": 1, "b": [1, 2], "_hidden": "s"}], ["obj", {"a": 1, "b": [1, 3], "c": ["obj", {"n": None}]}]],
              [{"k": [1, ["tuple", [2, 3]]], "o": ["obj", {"v": 1}]}, {"k": [1, ["tuple", [2, 4]]], "o": ["obj", {"v": 2, "w": "x"}]}],
              [["obj", {}], 5], [[["obj", {"p": ["obj", {"q": [1]}]}]], [["obj", {"p": 1}]]]]
AST_DOCS = [["x = f(1, k=2)[0]\n", "x = f(1, k=3)[1]\n"], ["from os import path\nx, y = 1, 2\n", "from os import sep as s\nx = 1\n"],
            ["a.b = g(h(1))\n", "a.c = g(1)\n"], ["x = d['k']\n", "x = d['j']\ny = x.z\n"]]
UNDER_KEYS = ["_parent", "__dict__", "_children", "_edit_modifiers", "_SLOTS", "_DataClassNode__hash", "__class__", "_total_size"]
NODE_UNDER_EDGE = ["from['_parent']", "from['__dict__']", "to['_children']", "from['_edit_modifiers']", "from['_SLOTS']", "to['__class__']",
                   "(from.children('')[0])['_parent']", "((from.children('')[0])[0])['_parent']", "(from.parent)['_children']",
                   "(from.copy('')[0])['__dict__']", "(from.make_edited('')[0])['_parent']", "from['_parent']['_children']",
                   "(1 ? from : to)['_parent']", "[from, to][0]['__dict__']", "(list(from.dfs('')[0]))[0]['_parent']",
                   "from['value']", "from['targets']", "from['func']", "from['name']", "from[0]['_parent']", "from['a']['_parent']",
                   "from.value['_parent']", "from.func['__dict__']", "from.targets['_children']", "from.names['_parent']",
                   "from.object['_parent']", "from.attr['__dict__']", "to.slice['_parent']", "from.args['_children']", "from.kwargs['__dict__']"]


def _probe_trees():
    """(builder, docs) of every tree the deterministic API sweep runs on"""
    return [("json", d) for d in NODE_DOCS] + [("pyobj", d) for d in PYOBJ_DOCS] + [("ast", d) for d in AST_DOCS]


def _api_dump():
    """Runs in a subprocess whose `graphtage` is the tree under test (VERIF_REPO): for every node of every probe
    tree, its class, the underscore names of its instance `__dict__`, the underscore DATA names of its class, and
    every public name of its class with the defining function's qualified name and positional parameter counts."""
    import inspect
    out = []
    for pi, (builder, docs) in enumerate(_probe_trees()):
        try:
            tree = NodeEnv.build(builder, docs[0])
            nodes = list(tree.dfs())
        except Exception:
            continue
        for i, n in enumerate(nodes[:15]):
            cls = type(n)
            unames = sorted(k for k in object.__getattribute__(n, "__dict__") if isinstance(k, str) and k.startswith("_"))
            cnames = []
            for k in dir(cls):
                if k.startswith("_") and not (k.startswith("__") and k.endswith("__")):
                    try:
                        v = inspect.getattr_static(cls, k)
                    except Exception:
                        continue
                    if not callable(v) and not isinstance(v, (staticmethod, classmethod, property)):
                        cnames.append(k)
            members = []
            for k in dir(cls):
                if k.startswith("_"):
                    continue
                try:
                    sv = inspect.getattr_static(cls, k)
                except Exception:
                    continue
                f = sv.__func__ if isinstance(sv, (staticmethod, classmethod)) else sv
                if isinstance(sv, property) or not callable(f):
                    q = getattr(getattr(sv, "fget", None), "__qualname__", None) or (cls.__name__ + "." + k)
                    members.append([k, "attr", q, 0, 0])
                    continue
                q = getattr(f, "__qualname__", None) or (cls.__name__ + "." + k)
                req, mx = 1, 2      # unknown signature: try one and two arguments
                try:
                    ps = list(inspect.signature(getattr(n, k)).parameters.values())
                    pos = [p for p in ps if p.kind in (p.POSITIONAL_ONLY, p.POSITIONAL_OR_KEYWORD)]
                    req = len([p for p in pos if p.default is p.empty])
                    mx = len(pos) + (2 if any(p.kind == p.VAR_POSITIONAL for p in ps) else 0)
                except Exception:
                    pass
                members.append([k, "call", q, req, mx])
            out.append({"probe": pi, "sel": i, "cls": cls.__name__, "unames": unames, "cnames": sorted(cnames), "members": members})
    print(json.dumps(out))


_API_CACHE = {}


def node_api():
    """`_api_dump()` of the tree under test, obtained in a subprocess with the workers' PYTHONPATH (the engine process
    may have the installed /repo imported, which is not necessarily the tree under test)."""
    from .. import common as C
    if C.REPO in _API_CACHE:
        return _API_CACHE[C.REPO]
    import subprocess
    res = []
    try:
        p = subprocess.run([C.PY, "-c", "import harness.streams.expr as X; X._api_dump()"], capture_output=True, text=True,
                           cwd=C.VERIF, env=C._worker_env(), timeout=120)
        res = json.loads(p.stdout.strip().splitlines()[-1])
    except Exception:
        res = []
    _API_CACHE[C.REPO] = res
    return res


def node_api_names():
    names = sorted({m[0] for nd in node_api() for m in nd["members"]})
    return names or ["children", "dfs", "editable_dict", "parent", "to_obj", "total_size", "copy", "is_leaf"]


# `__class__` is not swept: isinstance() / type checks inside graphtage's own methods ask the runtime for `__class__` of
# their operands, which the name-driven tripwire cannot tell from getattr(self, '__class__') (see the assumptions)
STD_UNDER = ["__dict__"]


def gen_api_sweep():
    """DETERMINISTIC (no rng): every public member of every node class of the tree under test, identified by the
    function that defines it, is
      * read as an attribute (`from.name`),
      * called without arguments when it accepts that (`(from.name('')[0])`),
      * called with EVERY underscore attribute name (instance `__dict__` names of the receiver, underscore data names
        of its class, `__dict__`) in each of its first two positional parameters, the other parameters
        filled with plain values,
    on a node that really has that private attribute whenever the probe trees contain one."""
    probes = _probe_trees()
    out, done = [], set()

    def case(nd, e):
        b, docs = probes[nd["probe"]]
        c = {"kind": "node", "expr": e, "docs": docs, "sel": [nd["sel"], nd["sel"]]}
        if b != "json":
            c["builder"] = b
        return c

    api = node_api()
    if not api:
        # never silently: without the API listing the sweep is empty and a new exposing method would go unnoticed
        return [{"kind": "node", "expr": "from", "docs": NODE_DOCS[3], "sel": [0, 0], "meta": "api-dump-failed"}]
    # nodes that own a name first: `from.get('_children')` should run on a node that has `_children`
    for own in (True, False):
        for nd in api:
            unames = list(nd["unames"]) if own else list(nd["unames"]) + list(nd["cnames"]) + STD_UNDER
            for nm, kind, qual, req, mx in nd["members"]:
                if (qual, "") not in done:
                    done.add((qual, ""))
                    out.append(case(nd, "from.%s" % nm))
                    if kind == "call" and req == 0:
                        out.append(case(nd, "(from.%s('')[0])" % nm))
                if kind != "call" or mx == 0:
                    continue
                for u in unames:
                    if (qual, u) in done:
                        continue
                    done.add((qual, u))
                    for p in range(min(mx, 2)):
                        n = max(req, p + 1)
                        if n > 4:
                            continue
                        args = ["0"] * n
                        args[p] = "'%s'" % u
                        out.append(case(nd, "from.%s(%s)" % (nm, ", ".join(args))))
    return out


def gen_nodes(rng, tier):
    out = gen_api_sweep()
    api = node_api_names()
    def case(e, bind=None, builder=None):
        builder = builder or rng.choice(["json", "json", "pyobj", "ast", "ast"])
        docs = rng.choice(NODE_DOCS if builder == "json" else PYOBJ_DOCS if builder == "pyobj" else AST_DOCS)
        c = {"kind": "node", "expr": e, "docs": docs, "sel": [rng.randint(0, 14), rng.randint(0, 14)]}
        if builder != "json":
            c["builder"] = builder
        if bind:
            c["bind"] = bind
        return c
    for e in NODE_EDGE:
        out.append({"kind": "node", "expr": e, "docs": NODE_DOCS[0], "sel": [0, 0]})
        if rng.random() < 0.5:
            out.append(case(e))
        if rng.random() < 0.25:
            out.append(case(e, "objs"))
    # subscripts with underscore-named string keys, on every kind of node (every data-class node type is reached by `sel`)
    for e in NODE_UNDER_EDGE:
        for b in ("json", "pyobj", "ast", "ast"):
            out.append(case(e, builder=b))
    for b, docs_list in (("pyobj", PYOBJ_DOCS), ("ast", AST_DOCS)):
        for docs in docs_list:
            for i in range(0, 15, 1 if tier != "quick" else 3):
                k = rng.choice(UNDER_KEYS)
                out.append({"kind": "node", "builder": b, "docs": docs, "sel": [i, i],
                            "expr": rng.choice(["from['%s']", "to['%s']", "(from.parent)['%s']", "(from.children('')[0])[0]['%s']"]) % k})
    # every public name: as an attribute, as a zero-argument call and as a one-argument call, and what comes back
    reps = 1 if tier == "quick" else 6
    for _ in range(reps):
        for nm in api:
            v = rng.choice(["from", "to"])
            out.append(case("%s.%s" % (v, nm)))
            z = "(%s.%s('')[0])" % (v, nm)
            out.append(case(rng.choice([z, z, "list(%s)" % z, "len(%s)" % z, z + "['_children']", z + "['_parent']", z + ".keys('')[0]",
                                        "dict(%s)" % z, "'{0}'.format(%s)" % z, z + "." + rng.choice(api), z + "[0]",
                                        "(%s.%s('')[0])" % (z, rng.choice(api))])))
            out.append(case("%s.%s(%s)" % (v, nm, rng.choice(["to", "from", "0", "'a'", "len", "from, to", "'_parent'", "'__dict__'"]))))
            out.append(case(rng.choice(["%s.%s['%s']" % (v, nm, rng.choice(UNDER_KEYS)), "%s['%s']" % (z, rng.choice(UNDER_KEYS))])))
    n = 60 if tier == "quick" else 1500
    for _ in range(n):
        v = rng.choice(["from", "to", "(list(from.dfs('')[0]))[%d]" % rng.randint(0, 3)])
        e = v
        for _ in range(rng.randint(1, 3)):
            r = rng.random()
            nm = rng.choice(api + ["_parent", "_children", "__dict__", "nope"])
            if r < 0.4:
                e = e + "." + nm
            elif r < 0.75:
                e = "(" + e + "." + nm + "('')[0])"
            elif r < 0.9:
                e = "(" + e + "." + nm + "(" + rng.choice(["to", "0", "'a'"]) + "))"
            else:
                e = e + "[" + rng.choice(["0", "'a'", "'k'"] + ["'%s'" % k for k in UNDER_KEYS]) + "]"
        out.append(case(e, "objs" if rng.random() < 0.15 else None))
    return out


def gen_stateful(rng, tier):
    out = []
    nseq = 40 if tier == "quick" else 400
    ncon = 50 if tier == "quick" else 500
    for _ in range(nseq):
        env, names = gen_env(rng)
        g = G(rng, names, env)
        exprs = []
        for _ in range(rng.choice([2, 2, 3, 4])):
            r = rng.random()
            exprs.append(rng.choice(RAISING) if r < 0.45 else rng.choice(SUCCEEDING) if r < 0.8 else g.valid(2) if r < 0.9 else g.format_call())
        out.append({"kind": "seq", "exprs": exprs, "env": env})
    for _ in range(ncon):
        docs = rng.choice(DOCS)
        jobs = []
        for _ in range(rng.choice([1, 2, 2, 3])):
            r = rng.random()
            mi = rng.choice(C_RAISE) if r < 0.45 else rng.choice(C_OK_IF) if r < 0.85 else None
            r = rng.random()
            mu = rng.choice(C_RAISE) if r < 0.35 else rng.choice(C_OK_UNLESS) if r < 0.7 else None
            if mi is None and mu is None:
                mi = rng.choice(C_RAISE)
            jobs.append([mi, mu])
        out.append({"kind": "constraints", "docs": docs, "jobs": jobs})
    # every raising expression followed by a probe of the other kind, both matchers
    for e in C_RAISE:
        out.append({"kind": "constraints", "docs": DOCS[0], "jobs": [[e, None], [C_OK_IF[0], None]]})
        out.append({"kind": "constraints", "docs": DOCS[0], "jobs": [[None, e], [None, C_OK_UNLESS[0]]]})
    return out


def random_copy(rng):
    import random
    return random.Random(rng.random())


def _case(rng, text, env=None, kind="str", mut=None):
    if env is None:
        env, _ = gen_env(rng)
    c = {"kind": kind, "expr": text, "env": env}
    if mut:
        c["mut"] = mut
    return c


def gen(rng, tier):
    n = 1500 if tier == "quick" else 40000
    cases = []
    # edge stream: every edge expression over a rich fixed environment and over a random one
    fixed = {"vars": [["x", ["S", 1]], ["y", ["S", 2]], ["l", ["l", [["i", 1], ["S", 1], ["s", "a"]]]], ["t", ["t", [["i", 4], ["S", 2]]]],
                      ["d", ["d", [[["s", "a"], ["S", 1]], [["s", "b"], ["i", 2]], [["i", 0], ["s", "zero"]]]]], ["n", ["i", 5]],
                      ["s", ["s", "{0._priv}"]], ["g", ["gen"]], ["dg", ["d", [[["s", "g"], ["gen"]], [["s", "a"], ["S", 1]]]]],
                      ["from", ["S", 1]], ["to", ["S", 2]]],
             "sentinels": [{"id": 1, "attrs": [["pub", ["i", 5]], ["_priv", ["s", "SECRET1"]], ["__secret", ["i", 41]], ["child", ["S", 2]],
                                                ["items", ["l", [["i", 1], ["S", 2]]]], ["name", ["s", "one"]]],
                            "meths": [["m0", ["const", ["i", 5]]], ["priv0", ["const", ["s", "SECRET1"]]], ["id1", ["ident"]],
                                      ["pair2", ["pair"]], ["gen1", ["gen"]]]},
                           {"id": 2, "attrs": [["pub", ["s", "two"]], ["_priv", ["S", 1]], ["offset", ["i", 3]], ["val", ["n"]]],
                            "meths": [["m0", ["const", ["s", "two"]]], ["id1", ["ident"]], ["gen1", ["gen"]]]}]}
    for e in EDGE + REFL_EDGE:
        cases.append(_case(rng, e, env=fixed))
    # the same environment with every string an instance of a str SUBCLASS: format strings held in variables
    fixed_sub = dict(fixed, strsub=True)
    for e in ["s.format(x)", "s.format_map(d)", "(s).format(x)", "s.format(y, x)", "'{0._priv}'.format(x)", "s", "s + 'a'", "s.upper()", "len(s)",
              "str.format(s, x)"] + [e for e in EDGE if "format" in e][:12]:
        cases.append(_case(rng, e, env=fixed_sub))
    reps = 1 if tier == "quick" else 6
    for _ in range(reps):
        for e in EDGE:
            if rng.random() < 0.5:
                cases.append(_case(rng, e))
            if rng.random() < 0.4:
                cases.append(_case(rng, e, env=fixed, kind="rpn", mut=[rng.choice(RPN_MUTS) for _ in range(rng.choice([1, 1, 2]))]))
    cases += gen_toks(rng, tier)
    cases += gen_stateful(rng, tier)
    cases += gen_nodes(rng, tier)
    n += len(cases)
    while len(cases) < n:
        env, names = gen_env(rng)
        g = G(rng, names, env)
        r = rng.random()
        if r < 0.16:
            text = g.expr(rng.choice([1, 2, 2, 3]))
        elif r < 0.40:
            text = g.valid(rng.choice([1, 2, 2, 3]))
        elif r < 0.54:
            text = g.format_call()
        elif r < 0.70:
            text = g.member_chain()
        elif r < 0.73:
            text = g.frame_escape()
        elif r < 0.80:
            if "g" not in names:
                env = dict(env, vars=env["vars"] + [["g", ["gen"]], ["dg", ["d", [[["s", "g"], ["gen"]], [["s", "a"], ["S", 1]]]]]])
                g = G(rng, names + ["g", "dg"], env)
            text = g.refl_format()
        elif r < 0.84:
            text = g.postfix(2)
        else:
            text = _mutate_text(rng, rng.choice([g.expr(2), g.format_call(), g.member_chain(), rng.choice(EDGE), g.refl_format() if "g" in names else g.format_call()]))
        if len(text) > 300:
            continue
        if rng.random() < 0.15:
            muts = []
            for _ in range(rng.choice([1, 1, 2, 3])):
                m = list(rng.choice(RPN_MUTS))
                if m[0] in ("del", "dup", "size"):
                    m[1] = rng.randint(-6, 6)
                elif m[0] == "swap":
                    m[1], m[2] = rng.randint(-6, 6), rng.randint(-6, 6)
                elif m[0] == "ins":
                    m[1] = rng.randint(0, 12)
                if m[0] == "size":
                    m[2] = rng.choice([0, 1, 2, 3, 4, -1, -2, 9])
                muts.append(m)
            cases.append(_case(rng, text, env=env, kind="rpn", mut=muts))
        else:
            cases.append(_case(rng, text, env=env))
    return cases


def shrink(case):
    if case.get("kind") == "constraints":
        jobs = case["jobs"]
        for i in range(len(jobs)):
            if len(jobs) > 1:
                yield dict(case, jobs=jobs[:i] + jobs[i + 1:])
            for k in (0, 1):
                if jobs[i][k] is not None and jobs[i][1 - k] is not None:
                    nj = list(jobs[i])
                    nj[k] = None
                    yield dict(case, jobs=jobs[:i] + [nj] + jobs[i + 1:])
        for dcs in DOCS[3:]:
            if case["docs"] != dcs:
                yield dict(case, docs=dcs)
        return
    if case.get("kind") == "node":
        e = case["expr"]
        if case.get("builder", "json") == "json" and case.get("docs") != NODE_DOCS[3]:
            yield dict(case, docs=NODE_DOCS[3], sel=[0, 0])
        if case.get("sel") != [0, 0]:
            yield dict(case, sel=[0, 0])
        n = len(e)
        for width in (n // 2, n // 3, n // 4, 8, 4, 2, 1):
            if width > 0:
                for i in range(0, n - width + 1, max(1, width // 2)):
                    yield dict(case, expr=e[:i] + e[i + width:])
        return
    if case.get("kind") == "seq":
        ex = case["exprs"]
        for i in range(len(ex)):
            if len(ex) > 1:
                yield dict(case, exprs=ex[:i] + ex[i + 1:])
        return
    env = case["env"]
    if case.get("kind") == "toks":
        toks = case["tokens"]
        for i in range(len(toks)):
            t2 = toks[:i] + toks[i + 1:]
            yield dict(case, tokens=t2, expr=_tok_text(t2))
        return
    s = case["expr"]
    # 0. a format field that walks into a generator: jump to the minimal reproducer of each member it names
    minimal_env = {"vars": [["g", ["gen"]]], "sentinels": []}
    if re.fullmatch(r"'\{0\.[a-z_]+\}'\.format\(g\)", s) and env == minimal_env and case.get("kind", "str") == "str":
        return      # already the minimal reproducer (corpus/expr/32..39)
    for a in sorted(set(re.findall(r"\.(gi_[a-z]+|close|send|throw)\b", s))):
        yield {"kind": "str", "expr": "'{0.%s}'.format(g)" % a, "env": minimal_env}
    # 1. drop everything of the environment that the text does not mention, in one go
    vars2 = [v for v in env["vars"] if v[0] in s]
    sents2 = [dict(sd, attrs=[a for a in sd["attrs"] if a[0] in s], meths=[m for m in sd["meths"] if m[0] in s])
              for sd in env["sentinels"]]
    small = dict(env, vars=vars2, sentinels=sents2)
    if small != env:
        yield dict(case, env=small)
    if case.get("mut"):
        yield dict(case, kind="str", mut=[])
        for i in range(len(case["mut"])):
            yield dict(case, mut=case["mut"][:i] + case["mut"][i + 1:])
    # 2. cut substrings, big pieces first
    n = len(s)
    seen = set()
    for width in (n // 2, n // 3, n // 4, 8, 4, 2, 1):
        if width <= 0 or width in seen:
            continue
        seen.add(width)
        for i in range(0, n - width + 1, max(1, width // 2)):
            yield dict(case, expr=s[:i] + s[i + width:])
    # 3. single environment pieces
    for i in range(len(env["vars"])):
        yield dict(case, env=dict(env, vars=env["vars"][:i] + env["vars"][i + 1:]))
    for si, sd in enumerate(env["sentinels"]):
        for k in ("attrs", "meths"):
            for i in range(len(sd[k])):
                nsd = dict(sd, **{k: sd[k][:i] + sd[k][i + 1:]})
                yield dict(case, env=dict(env, sentinels=env["sentinels"][:si] + [nsd] + env["sentinels"][si + 1:]))

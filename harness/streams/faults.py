"""Stream `faults` (C20): syntactically corrupted input files, as first and as second file, through the real
command line.  A corruption is kept only if an independent parse of that format rejects it."""
import base64, json, plistlib

NAME = "faults"
MODEL_READY = True

DOCS = [
    {"a": [1, 2.5, True, "x<é>&"], "b": {"c": "d", "e": None}, "f": ""},
    [1, "two", {"k": [False, {"deep": ["x", "y"]}]}, []],
    {"name": "graphtage", "tags": ["diff", "tree"], "n": 12345, "nested": {"p": {"q": [1, [2, [3]]]}}},
    "just a string",
]

XML_DOCS = [
    '<?xml version="1.0"?>\n<root a="1" b="two"><child>text</child><child x="y"/><!-- c --><deep><er>é</er></deep></root>',
    '<html><head><title>T</title></head><body><p class="x">hi <b>there</b></p><br/></body></html>',
]


def _plist_doc(d):
    def conv(x):
        if x is None:
            return "null"
        if isinstance(x, dict):
            return {k: conv(v) for k, v in x.items()}
        if isinstance(x, list):
            return [conv(v) for v in x]
        return x
    return conv(d)


def _valid_docs():
    import yaml
    docs = []
    for d in DOCS:
        docs.append(("json", json.dumps(d, ensure_ascii=False, indent=1).encode()))
        docs.append(("json5", json.dumps(d, ensure_ascii=False).encode()))
        docs.append(("yaml", yaml.dump(d, allow_unicode=True).encode()))
        docs.append(("yaml", yaml.dump(d, default_flow_style=True, allow_unicode=True).encode()))
        docs.append(("plist", plistlib.dumps(_plist_doc(d))))
    docs.append(("json5", b"{unquoted: 'single', trailing: [1, 2,], // comment\n hex: 0x1F}"))
    for x in XML_DOCS:
        docs.append(("xml", x.encode()))
        docs.append(("html", x.encode()))
    return docs


def rejects(kind, data):
    """Independent syntactic validity check (True = invalid)."""
    try:
        if kind == "json":
            json.loads(data.decode("utf-8"))
        elif kind == "json5":
            import json5
            json5.loads(data.decode("utf-8"))
        elif kind == "yaml":
            import yaml
            list(yaml.load_all(data.decode("utf-8"), Loader=yaml.SafeLoader))
        elif kind in ("xml", "html"):
            from xml.parsers import expat
            p = expat.ParserCreate()
            p.Parse(data, True)
        elif kind == "plist":
            plistlib.loads(data)
        return False
    except Exception:
        return True


DELIMS = b'{}[]<>"\':,/'


# the error report must not depend on status / logging / output options
FLAGS = [[], [], ["--no-status"], ["--quiet"], ["--log-level", "CRITICAL"], ["--log-level", "ERROR"], ["--no-color"], ["--color"],
         ["-e"], ["-d"], ["-j"], ["-k"], ["--debug"]]     # (--html always prints its page skeleton: not a diff, left out)


def corruptions(rng, data, tier):
    n = len(data)
    if tier == "thorough":
        cuts = range(n)
    else:
        cuts = sorted(set(rng.sample(range(n), min(n, 10)) + [0, 1, n - 1, n // 2]))
    for i in cuts:
        yield "truncate@%d" % i, data[:i]
    idx = [i for i in range(n) if data[i] in DELIMS]
    if tier != "thorough":
        idx = rng.sample(idx, min(len(idx), 8))
    for i in idx:
        yield "delete@%d" % i, data[:i] + data[i + 1:]
        yield "dup@%d" % i, data[:i + 1] + data[i:]
    yield "deep-open", b"[" * 3000 + data            # far more unclosed brackets than any parser's recursion limit
    yield "deep-open-obj", b'{"a":' * 3000 + data
    yield "deep-tags", b"<a>" * 3000 + data
    yield "append-open", data + b"{["
    yield "prepend-close", b"]}" + data
    yield "append-tag", data + b"<unclosed>"
    yield "nul", data[:n // 2] + b"\x00" + data[n // 2:]
    yield "badutf8", data[:n // 2] + b"\xff\xfe" + data[n // 2:]


def gen(rng, tier):
    cases = []
    valid = _valid_docs()
    for kind, data in valid:
        good = [d for k, d in valid if k == kind][0]
        for label, bad in corruptions(rng, data, tier):
            if bad == data or not rejects(kind, bad):
                continue
            cases.append({"kind": kind, "label": label, "flags": rng.choice(FLAGS),
                          "bad": base64.b64encode(bad).decode(), "good": base64.b64encode(good).decode()})
    if tier == "quick" and len(cases) > 260:
        cases = rng.sample(cases, 260)
    return cases


def impl(case):
    from harness import clirun
    ext = case["kind"]
    files = {"bad." + ext: {"b64": case["bad"]}, "good." + ext: {"b64": case["good"]}}
    fl = case.get("flags", [])
    runs = [{"argv": fl + ["bad." + ext, "good." + ext]}, {"argv": fl + ["good." + ext, "bad." + ext]}]
    res = clirun.run_case(files, runs)
    for r in res:
        r["out"] = r["out"][:400]
        r["err"] = r["err"][:600]
    return {"runs": res}


def _names_file(err, name):
    """an ERROR message naming the file (the progress bar's 'Loading bad.json' line does not count)"""
    import re
    return re.search(r"Error[^\r\n]*" + re.escape(name), err) is not None


def _exc_class(case, r):
    return r.get("exc") or "none"


def monitor(case, obs):
    hits = []
    if not isinstance(obs, dict) or obs.get("error"):
        return [{"prop": "C20", "key": "harness-error", "what": repr(obs)[:300]}]
    for pos, r in zip(("first", "second"), obs["runs"]):
        k = case["kind"]
        if r["exc"]:
            hits.append({"prop": "C20", "key": f"uncaught:{k}:{r['exc']}",
                         "what": f"malformed {k} file as {pos} file ({case['label']}): uncaught {r['exc']}: {r.get('msg')}"})
            continue
        if r["rc"] in (0, None):
            hits.append({"prop": "C20", "key": f"exit-zero:{k}", "what": f"malformed {k} file as {pos} file ({case['label']}): exit status {r['rc']}"})
        if r["out"].strip() != "":
            hits.append({"prop": "C20", "key": f"printed-diff:{k}", "what": f"malformed {k} file as {pos} file ({case['label']}): wrote to stdout: {r['out'][:80]!r}"})
        if not _names_file(r["err"], "bad." + k):
            hits.append({"prop": "C20", "key": f"no-filename:{k}", "what": f"malformed {k} file as {pos} file ({case['label']}): stderr does not name the file: {r['err'][:120]!r}"})
    return hits


def to_model(case, obs):
    """Model (L9 `errorPath`): given which loader reported an error message, the command's observable outcome."""
    if not MODEL_READY or not isinstance(obs, dict) or obs.get("error"):
        return None
    return {"s": "errorpath", "kind": case["kind"]}


def expect(case, obs):
    # abstract observation: for each position (rc != 0, stdout empty, stderr names file, no exception)
    res = []
    for r in obs["runs"]:
        res.append([r["exc"] is None and r["rc"] not in (0, None), r["out"].strip() == "", _names_file(r["err"], "bad." + case["kind"])])
    return {"runs": res}


def classify(case, obs):
    return case["kind"] + ":" + case["label"].split("@")[0] + ":" + ("".join(case.get("flags", [])) or "noflags")


def nontrivial(case, obs):
    return True


def shrink(case):
    return []

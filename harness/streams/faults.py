"""Stream `faults` (C20): syntactically corrupted input files, as first and as second file, through the real
command line.  A corruption is kept only if an independent parse of that format rejects it (any exception of
the reference parser = invalid; the filter does not know which classes graphtage catches).

Seed documents (second audit, H2): besides four plain data documents in every text format there are RICH ones —
  plist : typed elements <date> <data> <real> <integer> <true/> nested <dict>/<array>, as XML and as BINARY plist
  xml   : XML declaration with encoding=, DOCTYPE with internal entities, namespaces, CDATA, comments, PIs; latin-1
  json  : 30-digit integer, exponent floats, every escape, surrogate pairs, 40-deep nesting        (json5: + JSON5 syntax)
  yaml  : anchors / aliases / merge keys, timestamps, !!binary, !!set, !!int / !!float tags, block scalars, directives
Corruption operators: truncation / delimiter deletion + duplication / unbalanced prefixes / NUL / bad UTF-8 (as
before) plus VALUE-LEVEL ones: the encoding name of an XML declaration, the text of <date>/<integer>/<real>/<data>,
undefined entities, YAML timestamps / tagged scalars / aliases / merge keys, digit strings lengthened beyond the
interpreter's int limit, random byte flips anywhere, and byte flips in the header, object table, offset table and
trailer of binary plists.

`record_raised` (used by harness/gentables.py on every run) feeds the same corruptions to the parser entry point
each loader calls and records every exception class that comes out: that recording, united with the hand list, is
the `raisable` table `GtModel.C20.handlers_cover` is checked against."""
import base64, datetime, io, json, plistlib, re

NAME = "faults"
MODEL_READY = True

KINDS = ["json", "json5", "yaml", "xml", "html", "plist"]

DOCS = [
    {"a": [1, 2.5, True, "x<é>&"], "b": {"c": "d", "e": None}, "f": ""},
    [1, "two", {"k": [False, {"deep": ["x", "y"]}]}, []],
    {"name": "graphtage", "tags": ["diff", "tree"], "n": 12345, "nested": {"p": {"q": [1, [2, [3]]]}}},
    "just a string",
]

XML_DOCS = [
    '<?xml version="1.0"?>\n<root a="1" b="two"><child>text</child><child x="y"/><!-- c --><deep><er>é</er></deep></root>',
    '<html><head><title>T</title></head><body><p class="x">hi <b>there</b></p><br/></body></html>',
]

# ---- rich seed documents ---------------------------------------------------------------------------------

RICH_XML = [
    ('<?xml version="1.0" encoding="UTF-8" standalone="yes"?>\n'
     '<!DOCTYPE root [\n  <!ENTITY who "world">\n  <!ENTITY copy "&#169;">\n  <!ELEMENT root ANY>\n]>\n'
     '<!-- leading comment -->\n'
     '<root xmlns="http://example.org/ns" xmlns:x="http://example.org/x" x:attr="1" id="r&amp;d">\n'
     '  <x:item n="1">hello &who; &copy; &#x41;&#66;</x:item>\n'
     '  <![CDATA[ raw <b>text</b> & more ]]>\n'
     '  <?target some instruction?>\n'
     '  <empty/>\n'
     '  <deep><er>é – ü</er></deep>\n'
     '</root>\n<!-- trailing comment -->\n').encode("utf-8"),
    "<?xml version='1.0' encoding='iso-8859-1'?>\n<a t='caf\xe9'><b>na\xefve</b><c/></a>".encode("latin-1"),
    ('<?xml version="1.0" encoding="utf-8"?>\n<!DOCTYPE html>\n'
     '<html xmlns="http://www.w3.org/1999/xhtml" lang="en"><head><title>T &amp; t</title>'
     '<style><![CDATA[ p > b { color: red } ]]></style></head>\n'
     '<body><!-- c --><p class="x">hi <b>there</b>&#160;you</p><br/><img src="a.png" alt=""/></body></html>').encode("utf-8"),
]

RICH_JSON = ('{"big": 123456789012345678901234567890, "f": [1.5e300, -2.25E-7, 0.0, -0], '
             '"esc": "q\\" b\\\\ s\\/ \\b\\f\\n\\r\\t \\u00e9 \\ud83d\\ude00", "uni": "é→😀", "empty": [{}, [], ""], '
             '"deep": ' + "[" * 40 + "7" + "]" * 40 + ', "t": true, "n": null, "neg": -17}').encode("utf-8")

RICH_JSON5 = ("{\n  // comment\n  unquoted: 'single \\' quote', hex: 0x1F, plus: +5, dot: .5, tr: 5., inf: Infinity, nan: NaN,\n"
              "  /* block */ multi: 'line \\\n continued', list: [1, 2, 3,], big: 123456789012345678901234567890,\n"
              "  \"deep\": " + "[" * 25 + "7" + "]" * 25 + ",\n}\n").encode("utf-8")

RICH_YAML = [
    (b"%YAML 1.1\n---\n"
     b"base: &base {a: 1, b: [x, y]}\n"
     b"derived:\n  <<: *base\n  c: 3\n"
     b"alias: *base\n"
     b"n: !!int \"42\"\n"
     b"f: !!float 1.5\n"
     b"s: !!str 77\n"
     b"big: 123456789012345678901234567890\n"
     b"octal: 0o17\nhex: 0x1F\nsexa: 1:30\n"
     b"multi: |\n  line1\n  line2\n"
     b"folded: >-\n  a\n  b\n"
     b"quoted: \"esc \\\" \\\\ \\n \\x41 \\u00e9\"\n"
     b"single: 'it''s'\n"
     b"? complex key\n: value\n"
     b"seq:\n- 1\n- - nested\n  - {k: v}\n"
     b"...\n"),
    # typed scalars the YAML constructor converts itself (graphtage reports valid ones as "no node type": an error
    # message; their corrupted forms make the constructor raise ValueError, not YAMLError)
    (b"when: 2001-12-14t21:59:43.10-05:00\n"
     b"day: 2002-12-14\n"
     b"stamp: !!timestamp 2001-12-15 02:59:43\n"
     b"bin: !!binary |\n  R0lGODlhDAAMAIQAAP//9/X17unp5WZmZgAAAOfn515eXvPz7Y6OjuDg4J+fnw==\n"
     b"set: !!set {a, b}\n"
     b"pairs: !!omap [a: 1, b: 2]\n"
     b"count: !!int 17\n"),
    b"- &x 1\n- *x\n- 2020-01-02\n- [a, &y {k: *x}, *y]\n- !!float .inf\n- ~\n",
]


def _rich_plist_obj():
    dt = datetime.datetime(2020, 1, 2, 3, 4, 5)
    return {"name": "x<é>&", "when": dt, "blob": b"\x00\x01binary\xff" * 3, "pi": 3.25, "n": 42, "big": 2 ** 40,
            "neg": -7, "yes": True, "no": False,
            "arr": [1, 2.5, "s", {"k": [dt, b"zz", [], {}]}], "dict": {"a": {"b": [], "c": "d"}}}


def _plist_doc(d):
    def conv(x):
        if x is None:
            return "null"
        if isinstance(x, dict):
            return {k: conv(v) for k, v in x.items()}
        if isinstance(x, list):
            return [conv(v) for v in x]
        return x
    return conv(d)


def _valid_docs():
    """[(kind, bytes)]; the FIRST document of every kind is the plain one used as the good file of a case."""
    import yaml
    docs = []
    for d in DOCS:
        docs.append(("json", json.dumps(d, ensure_ascii=False, indent=1).encode()))
        docs.append(("json5", json.dumps(d, ensure_ascii=False).encode()))
        docs.append(("yaml", yaml.dump(d, allow_unicode=True).encode()))
        docs.append(("yaml", yaml.dump(d, default_flow_style=True, allow_unicode=True).encode()))
        docs.append(("plist", plistlib.dumps(_plist_doc(d))))
    docs.append(("json5", b"{unquoted: 'single', trailing: [1, 2,], // comment\n hex: 0x1F}"))
    for x in XML_DOCS:
        docs.append(("xml", x.encode()))
        docs.append(("html", x.encode()))
    # rich documents
    docs.append(("json", RICH_JSON))
    docs.append(("json5", RICH_JSON))
    docs.append(("json5", RICH_JSON5))
    for y in RICH_YAML:
        docs.append(("yaml", y))
    for x in RICH_XML:
        docs.append(("xml", x))
        docs.append(("html", x))
    rp = _rich_plist_obj()
    docs.append(("plist", plistlib.dumps(rp, fmt=plistlib.FMT_XML)))
    docs.append(("plist", plistlib.dumps(rp, fmt=plistlib.FMT_BINARY)))
    docs.append(("plist", plistlib.dumps({"a": 1}, fmt=plistlib.FMT_BINARY)))
    docs.append(("plist", plistlib.dumps(_plist_doc(DOCS[2]), fmt=plistlib.FMT_BINARY)))
    # an XML plist that is ALSO a document with an explicit non-UTF-8 encoding and no DOCTYPE
    docs.append(("plist", ("<?xml version='1.0' encoding='iso-8859-1'?>\n<plist version=\"1.0\"><dict><key>caf\xe9</key>"
                           "<date>2021-06-07T08:09:10Z</date><key>r</key><real>1.5e3</real><key>i</key><integer>-12</integer>"
                           "<key>d</key><data>AAEC</data><key>t</key><true/></dict></plist>").encode("latin-1")))
    return docs


# ---- parsers ---------------------------------------------------------------------------------------------

def _qual(e):
    c = type(e)
    return c.__module__ + "." + c.__qualname__


def ref_error(kind, data):
    """Independent syntactic validity check: None = the reference parser accepts `data`, otherwise the qualified
    class name of whatever it raised.  ANY exception counts as a rejection (nothing here depends on the classes
    graphtage's loaders catch).  The reference parsers are deliberately not the entry points the loaders call
    where the standard library offers a second one: pyexpat driven directly for XML/HTML (the loaders use
    ElementTree), PyYAML's pure-Python SafeLoader (the loader uses libyaml's CLoader), `json.loads` on decoded
    text; for plist and JSON5 there is only one implementation (`plistlib`, `json5`)."""
    try:
        if kind == "json":
            json.loads(data.decode("utf-8"))
        elif kind == "json5":
            import json5
            json5.loads(data.decode("utf-8"))
        elif kind == "yaml":
            import yaml
            list(yaml.load_all(data, Loader=yaml.SafeLoader))
        elif kind in ("xml", "html"):
            from xml.parsers import expat
            p = expat.ParserCreate()
            p.Parse(data, True)
        elif kind == "plist":
            plistlib.loads(data)
        else:
            raise KeyError(kind)
        return None
    except Exception as e:  # noqa: any exception = invalid (MemoryError and RecursionError are Exceptions too)
        return _qual(e)


def rejects(kind, data):
    """True = invalid: rejected by the reference parser AND by the parser entry point graphtage's loader delegates to
    (graphtage itself is not involved in either).  The two YAML implementations differ on a few inputs (the pure-Python
    SafeLoader rejects a tab inside a flow-mapping key, `{de<TAB>p: [x, y]}`, libyaml's C loader accepts it): a file the
    delegated parser reads is not an invalid file, and diffing it is what the command should do (found with VERIF_SEED=5:
    flip@24=09 of the YAML seed document; a false alarm of this stream, corrected here)."""
    return ref_error(kind, data) is not None and entry_error(kind, data) is not None


def entry_error(kind, data):
    """What the parser ENTRY POINT that graphtage's loader of `kind` calls raises on `data` (qualified class name,
    None if it parses): json.load / json5.load on a text stream, yaml.load_all with the C loader if present,
    ElementTree.parse, plistlib.load.  graphtage itself is not involved."""
    try:
        if kind == "json":
            json.load(io.TextIOWrapper(io.BytesIO(data), encoding="utf-8"))
        elif kind == "json5":
            import json5
            json5.load(io.TextIOWrapper(io.BytesIO(data), encoding="utf-8"))
        elif kind == "yaml":
            import yaml
            list(yaml.load_all(io.BytesIO(data), Loader=getattr(yaml, "CLoader", yaml.Loader)))
        elif kind in ("xml", "html"):
            import xml.etree.ElementTree as ET
            ET.parse(io.BytesIO(data))
        elif kind == "plist":
            # a REAL file, as the loader opens one: BufferedReader.read(n) allocates n bytes up front (MemoryError on
            # an absurd size field of a binary plist), BytesIO.read(n) does not
            import os, tempfile
            fd, path = tempfile.mkstemp(prefix="gtverif_pl_")
            try:
                with os.fdopen(fd, "wb") as f:
                    f.write(data)
                with open(path, "rb") as f:
                    plistlib.load(f)
            finally:
                os.unlink(path)
        else:
            raise KeyError(kind)
        return None
    except BaseException as e:  # noqa: MemoryError / RecursionError included
        if isinstance(e, (KeyboardInterrupt, SystemExit)):
            raise
        return _qual(e)


# ---- corruption operators --------------------------------------------------------------------------------

DELIMS = b'{}[]<>"\':,/&;!?-*|'
LONG = 5000          # digits: beyond sys.get_int_max_str_digits() (4300)


# the error report must not depend on status / logging / output options
FLAGS = [[], [], ["--no-status"], ["--quiet"], ["--log-level", "CRITICAL"], ["--log-level", "ERROR"], ["--no-color"], ["--color"],
         ["-e"], ["-d"], ["-j"], ["-k"], ["--debug"], ["-l"], ["-ll"], ["--dict-strategy", "match"], ["-f", "json"], ["-f", "yaml"],
         ["--match-if", "from == to"], ["--match-unless", "len(str(from)) > 3"], ["-e", "--match-if", "True"],
         ["--join-lists"], ["--join-dict-items"], ["-ds", "none", "-d"]]     # (--html always prints its page skeleton: not a diff, left out)


def _sample(rng, xs, n):
    xs = list(xs)
    return xs if len(xs) <= n else rng.sample(xs, n)


def structural(rng, data, tier):
    """truncation / delimiter / nesting / byte-level corruptions (format-agnostic)"""
    n = len(data)
    thorough = tier == "thorough"
    if thorough:
        cuts = range(n)
    else:
        cuts = sorted(set(rng.sample(range(n), min(n, 10)) + [0, 1, n - 1, n // 2]))
    for i in cuts:
        yield "truncate@%d" % i, data[:i]
    idx = [i for i in range(n) if data[i] in DELIMS]
    if not thorough:
        idx = rng.sample(idx, min(len(idx), 8))
    for i in idx:
        yield "delete@%d" % i, data[:i] + data[i + 1:]
        yield "dup@%d" % i, data[:i + 1] + data[i:]
    yield "deep-open", b"[" * 3000 + data            # far more unclosed brackets than any parser's recursion limit
    yield "deep-open-obj", b'{"a":' * 3000 + data
    yield "deep-tags", b"<a>" * 3000 + data
    yield "append-open", data + b"{["
    yield "prepend-close", b"]}" + data
    yield "append-tag", data + b"<unclosed>"
    yield "nul", data[:n // 2] + b"\x00" + data[n // 2:]
    yield "badutf8", data[:n // 2] + b"\xff\xfe" + data[n // 2:]
    # random byte flips (any position, any value)
    for _ in range(n if thorough else 12):
        i = rng.randrange(n)
        b = rng.choice([0x00, 0x7f, 0x80, 0xff, rng.randrange(256), data[i] ^ (1 << rng.randrange(8))])
        if b != data[i]:
            yield "flip@%d=%02x" % (i, b), data[:i] + bytes([b]) + data[i + 1:]


def _sub_all(rx, data, repls, label, rng, per=None):
    """for every match of group 1 of `rx` in data and every replacement text: one corruption"""
    ms = list(re.finditer(rx, data))
    if per is not None:
        ms = _sample(rng, ms, per)
    for m in ms:
        s, e = m.span(1)
        for r in repls:
            r = r(m.group(1)) if callable(r) else r
            if r != m.group(1):
                yield "%s@%d:%s" % (label, s, r[:12].decode("latin-1")), data[:s] + r + data[e:]


ENC_NAMES = [b"uf-8", b"utf8x", b"bogus-encoding", b"", b"UTF-16", b"utf-32", b"shift_jis", b"ascii", b"cp037", b"latin-99", b"undefined", b"idna", b"base64"]
DATE_TEXTS = [b"notadate", b"", b"2020-13-45T00:00:00Z", b"2020-01-02", b"2020-01-02T03:04:05", b"20200102T030405Z", b"0000-00-00T00:00:00Z",
              b"2020-01-02T25:61:61Z", b"9" * 30, lambda t: t[:-1], lambda t: t + b"Z", lambda t: b" " + t]
INT_TEXTS = [b"12x", b"", b"0x", b"--1", b"1.5", b"1e3", b"9" * LONG, b"-" + b"9" * LONG, b"0x" + b"f" * LONG, b"\xc3\xa9", b"1 2"]
REAL_TEXTS = [b"abc", b"", b"1.2.3", b"1e", b"--1.5", b"0x1p3", b"1,5", b"\xc3\xa9"]
DATA_TEXTS = [b"!!!", b"A", b"AAA", b"====", b"\xc3\xa9\xc3\xa9\xc3\xa9\xc3\xa9", b"AA=A"]


def value_level(rng, kind, data, tier):
    """corruptions of VALUES rather than of delimiters; every one of them is cheap, so all are kept in both tiers"""
    per = None if tier == "thorough" else 3
    if data[:6] == b"bplist":
        yield from binary_plist(rng, data, tier)
        return
    # encoding name of an XML declaration (xml, html, XML plists)
    if kind in ("xml", "html", "plist"):
        yield from _sub_all(rb"<\?xml[^>]*?encoding=[\"']([^\"']*)[\"']", data, ENC_NAMES, "enc", rng)
        if not re.match(rb"\s*<\?xml", data):
            for nm in ENC_NAMES[:4]:
                yield "enc-add:" + nm.decode(), b'<?xml version="1.0" encoding="' + nm + b'"?>' + data
        yield from _sub_all(rb"<\?xml[^>]*?version=[\"']([^\"']*)[\"']", data, [b"2.0", b"", b"1.x"], "xmlver", rng)
        yield from _sub_all(rb"&(\w+);", data, [b"nope", b"", b"#xZZ", b"#99999999999"], "entity", rng, per)
        yield from _sub_all(rb"&#(x?[0-9A-Fa-f]+);", data, [b"0", b"x0", b"xD800", b"1114112", b"9" * 40], "charref", rng, per)
        yield from _sub_all(rb"(\]\]>)", data, [b"", b"]>"], "cdata-end", rng, per)
        yield from _sub_all(rb"(-->)", data, [b"", b"--->", b"->"], "comment-end", rng, per)
        yield from _sub_all(rb"<!--( )", data, [b"--"], "comment-dd", rng, per)
        yield from _sub_all(rb"xmlns:(\w+)=", data, [b"zz"], "ns-prefix", rng, per)
        yield from _sub_all(rb"(<!DOCTYPE)", data, [b"<!DOCTYP", b"<!doctype"], "doctype", rng, per)
    if kind == "plist":
        yield from _sub_all(rb"<date>([^<]*)</date>", data, DATE_TEXTS, "date", rng, per)
        yield from _sub_all(rb"<integer>([^<]*)</integer>", data, INT_TEXTS, "integer", rng, per)
        yield from _sub_all(rb"<real>([^<]*)</real>", data, REAL_TEXTS, "real", rng, per)
        yield from _sub_all(rb"<data>([^<]*)</data>", data, DATA_TEXTS, "data", rng, per)
        yield from _sub_all(rb"<(true|false)/>", data, [b"maybe", b"date", b"integer"], "bool-tag", rng, per)
        yield from _sub_all(rb"<(key)>", data, [b"integer", b"date", b"array"], "key-tag", rng, per)
        yield from _sub_all(rb"<(dict|array|string)>", data, [b"date", b"integer", b"real", b"data", b"true", b"plist"], "tag", rng, per)
    if kind == "yaml":
        yield from _sub_all(rb"(\d{4}-\d\d-\d\d)", data, [lambda t: t[:5] + b"13" + t[7:], lambda t: t[:8] + b"45", b"0000-00-00", lambda t: t[:5] + b"02-30"], "ts-date", rng, per)
        yield from _sub_all(rb"\d{4}-\d\d-\d\d[tT ](\d\d:\d\d:\d\d)", data, [b"25:00:00", b"23:61:00", b"23:59:61"], "ts-time", rng, per)
        yield from _sub_all(rb"\d\d:\d\d:\d\d(?:\.\d+)?([-+]\d\d:\d\d)", data, [b"+99:99", b"-25:00"], "ts-zone", rng, per)
        yield from _sub_all(rb"!!int \"?([^\"\n]*)\"?", data, [b"xyz", b"4x2", b"0o9", b"0x", b"1__", b"", b"9" * LONG], "tag-int", rng, per)
        yield from _sub_all(rb"!!float \"?([^\"\n]*)\"?", data, [b"abc", b"1.2.3", b"--1", b""], "tag-float", rng, per)
        yield from _sub_all(rb"!!(int|float|str|set|omap|binary|timestamp)\b", data, [b"nosuchtag", b"python/name:os.system", b"bool", b"null", b"int", b"float", b"timestamp", b"binary", b"set", b"omap", b"pairs", b"seq", b"map"], "tag", rng, per)
        yield from _sub_all(rb"!!binary \|\n +([^\n]*)", data, [b"!!!", b"A", b"\xc3\xa9\xc3\xa9"], "binary", rng, per)
        yield from _sub_all(rb"\*(\w+)", data, [b"undefined"], "alias", rng, per)
        yield from _sub_all(rb"<<: (\*\w+)", data, [b"5", b"[1, 2]", b"[*base, 3]", b"abc"], "merge", rng, per)
        yield from _sub_all(rb"%YAML (1\.1)", data, [b"9.9", b"x"], "directive", rng, per)
        yield from _sub_all(rb"\\(x41)", data, [b"xZZ", b"q", b"U0011FFFF"], "escape", rng, per)
    if kind in ("json", "json5"):
        yield from _sub_all(rb"\\(u[0-9a-fA-F]{4})", data, [b"u12", b"uZZZZ", b"x", b"U0001F600"], "escape", rng, per)
        yield from _sub_all(rb"(?<![\w.])(-?\d+\.?\d*[eE][-+]?\d+)", data, [b"1e", b"1e+", b"1.e5", b"01.5e3", b"1e99999x"], "float", rng, per)
        yield from _sub_all(rb"(true|null)", data, [b"tru", b"True", b"nul", b"None", b"undefined"], "literal", rng, per)
        yield from _sub_all(rb"(0x1F|Infinity|NaN)", data, [b"0x", b"0xG", b"Infinit", b"-+5", b"Na"], "json5-num", rng, per)
    # digit strings lengthened beyond what int() converts (every format with integers written as text)
    runs = [m for m in re.finditer(rb"(?<![\w.\\#&+-])(\d+)(?![\w.:-])", data)]
    for m in _sample(rng, runs, 4 if per else len(runs)):
        s, e = m.span(1)
        yield "digits@%d" % s, data[:s] + m.group(1) + b"0" * LONG + data[e:]
        yield "digits-neg@%d" % s, data[:s] + b"-" + m.group(1) + b"7" * LONG + data[e:]


def binary_plist(rng, data, tier):
    """byte flips in a binary plist: header, object table, offset table, trailer (the last 32 bytes)"""
    import struct
    n = len(data)
    thorough = tier == "thorough"
    try:
        off_size, ref_size, num, top, off_table = struct.unpack(">6xBBQQQ", data[-32:])
    except struct.error:
        off_size, ref_size, num, top, off_table = 1, 1, 0, 0, max(8, n - 32)
    off_table = min(max(off_table, 8), n - 32)
    regions = [("hdr", range(0, 8)), ("obj", range(8, off_table)), ("off", range(off_table, n - 32)), ("trl", range(n - 32, n))]
    vals = [0x00, 0x01, 0x0f, 0x10, 0x1f, 0x33, 0x4f, 0x5f, 0x6f, 0x7f, 0x80, 0x8f, 0xa1, 0xaf, 0xd1, 0xdf, 0xef, 0xff]
    for name, rg in regions:
        pos = list(rg)
        if not pos:
            continue
        if thorough:
            pairs = [(i, v) for i in pos for v in vals] if len(pos) <= 64 else [(rng.choice(pos), rng.choice(vals + [rng.randrange(256)])) for _ in range(1500)]
        else:
            k = {"hdr": 4, "obj": 40, "off": 14, "trl": 26}[name]
            pairs = [(rng.choice(pos), rng.choice(vals + [rng.randrange(256)])) for _ in range(k)]
        for i, v in pairs:
            if data[i] != v:
                yield "bin-%s@%d=%02x" % (name, i, v), data[:i] + bytes([v]) + data[i + 1:]
    # two flips at once (a size marker AND an offset), truncations of the trailer, trailing garbage
    for _ in range(200 if thorough else 20):
        i, j = rng.randrange(8, n), rng.randrange(8, n)
        b = bytearray(data)
        b[i] = rng.choice(vals)
        b[j] = rng.randrange(256)
        if bytes(b) != data:
            yield "bin-2@%d,%d" % (i, j), bytes(b)
    for cut in (1, 8, 16, 31, 32, 33):
        yield "bin-cut-%d" % cut, data[:-cut]
    yield "bin-pad", data + b"\x00" * 7
    yield "bin-magic", b"bplist99" + data[8:]


def corruptions(rng, kind, data, tier):
    """(label, corrupted bytes, is_value_level)"""
    for label, bad in structural(rng, data, tier):
        yield label, bad, False
    for label, bad in value_level(rng, kind, data, tier):
        yield label, bad, True


QUICK_STRUCTURAL = 260      # sampled delimiter/truncation cases in the quick tier (the value-level ones are all kept,
QUICK_VALUE = 640           # up to this many)


def gen(rng, tier):
    structural_cases, value_cases = [], []
    valid = _valid_docs()
    seen = set()
    for kind, data in valid:
        good = [d for k, d in valid if k == kind][0]
        for label, bad, is_value in corruptions(rng, kind, data, tier):
            if bad == data or (kind, bad) in seen:
                continue
            seen.add((kind, bad))
            if not rejects(kind, bad):
                continue
            c = {"kind": kind, "label": label, "flags": rng.choice(FLAGS),
                 "bad": base64.b64encode(bad).decode(), "good": base64.b64encode(good).decode()}
            (value_cases if is_value else structural_cases).append(c)
    if tier == "quick":
        if len(structural_cases) > QUICK_STRUCTURAL:
            structural_cases = rng.sample(structural_cases, QUICK_STRUCTURAL)
        if len(value_cases) > QUICK_VALUE:
            # keep every (kind, operator) class represented: round-robin over the classes
            by = {}
            for c in value_cases:
                by.setdefault((c["kind"], c["label"].split("@")[0].split(":")[0]), []).append(c)
            for v in by.values():
                rng.shuffle(v)
            picked = []
            while len(picked) < QUICK_VALUE:
                progressed = False
                for k in sorted(by):
                    if by[k] and len(picked) < QUICK_VALUE:
                        picked.append(by[k].pop())
                        progressed = True
                if not progressed:
                    break
            value_cases = picked
    cases = structural_cases + value_cases
    for n_, c_ in enumerate(cases):
        if n_ % 3 == 2:
            c_["badname"] = BADNAMES[(n_ // 3) % len(BADNAMES)]
    return cases


# ---- recorded fuzz of the parser entry points (harness/gentables.py, on every run) -----------------------

def record_raised(seed, kinds=None, per_kind=3000, deadline_s=10.0, tier="quick"):
    """{kind: {qualified exception class: number of corrupted files on which the loader's parser entry point raised
    it}} over seeded corruptions of the seed documents; only files the independent reference parser REJECTS are
    counted (the property's domain).  Bounded by `per_kind` files and `deadline_s` seconds per kind.  For every class the
    shortest file that raised it is kept ("examples"): the C20 check runs each through the real command line."""
    import random, time
    out = {}
    valid = _valid_docs()
    for kind in (kinds or KINDS):
        rng = random.Random("raised/%s/%s" % (kind, seed))
        t_end = time.time() + deadline_s
        seen = {}
        examples = {}
        tried = rejected = 0
        docs = [d for k, d in valid if k == kind]
        rounds = 0
        done = False
        dedup = set()
        while not done and rounds < 50:
            rounds += 1
            for data in docs:
                for label, bad, _ in corruptions(rng, kind, data, tier):
                    if bad == data or bad in dedup:
                        continue
                    dedup.add(bad)
                    if len(bad) > 3 * len(data) + 3 * LONG and not label.startswith("deep"):
                        continue
                    tried += 1
                    if ref_error(kind, bad) is not None:
                        rejected += 1
                        e = entry_error(kind, bad)
                        if e is not None:
                            seen[e] = seen.get(e, 0) + 1
                            if e not in examples or len(bad) < len(examples[e][1]):
                                examples[e] = (label, bad)
                    if tried >= per_kind or time.time() > t_end:
                        done = True
                        break
                if done:
                    break
        out[kind] = {"classes": dict(sorted(seen.items())), "tried": tried, "rejected": rejected,
                     "examples": {c: {"label": l, "bad": base64.b64encode(b).decode()} for c, (l, b) in sorted(examples.items())}}
    return out


# ---- implementation side ---------------------------------------------------------------------------------

def witness_cases(recorded):
    """one faults case per (type, exception class) the recorded fuzz saw: the shortest file that raised it"""
    valid = _valid_docs()
    cases = []
    for kind, r in sorted(recorded.items()):
        good = [d for k, d in valid if k == kind][0]
        for cls, ex in sorted((r.get("examples") or {}).items()):
            cases.append({"kind": kind, "label": "recorded:%s:%s" % (cls.rsplit(".", 1)[-1], ex["label"]), "flags": [],
                          "bad": ex["bad"], "good": base64.b64encode(good).decode()})
    for n_, c_ in enumerate(cases):
        if n_ % 3 == 2:
            c_["badname"] = BADNAMES[(n_ // 3) % len(BADNAMES)]
    return cases


# the malformed file's base name: usually plain, sometimes with characters that a message template must not interpret
BADNAMES = ["bad", "bad", "bad", "my%20config", "100%", "report%d", "a{0}b", "bad file", "b{ad}", "%s", "caf\u00e9"]


def _badname(case):
    return case.get("badname", "bad") + "." + case["kind"]


def impl(case):
    from harness import clirun
    ext = case["kind"]
    bad = _badname(case)
    files = {bad: {"b64": case["bad"]}, "good." + ext: {"b64": case["good"]}}
    fl = case.get("flags", [])
    runs = [{"argv": fl + [bad, "good." + ext]}, {"argv": fl + ["good." + ext, bad]}]
    res = clirun.run_case(files, runs)
    for r in res:
        r["out"] = r["out"][:400]
        r["err"] = r["err"][:600]
    return {"runs": res}


def _names_file(err, name):
    """an ERROR message naming the file (the progress bar's 'Loading bad.json' line does not count)"""
    return re.search(r"Error[^\r\n]*" + re.escape(name), err) is not None


def monitor(case, obs):
    hits = []
    if not isinstance(obs, dict) or obs.get("error"):
        if isinstance(obs, dict) and obs.get("exc") in ("MemoryError", "RecursionError"):
            return [{"prop": "C20", "key": f"uncaught:{case['kind']}:{obs['exc']}",
                     "what": f"malformed {case['kind']} file ({case['label']}): {obs['exc']} escaped the command line: {obs.get('msg')}"}]
        return [{"prop": "C20", "key": "harness-error", "what": repr(obs)[:300]}]
    for pos, r in zip(("first", "second"), obs["runs"]):
        k = case["kind"]
        if r["exc"]:
            hits.append({"prop": "C20", "key": f"uncaught:{k}:{r['exc']}",
                         "what": f"malformed {k} file as {pos} file ({case['label']}): uncaught {r['exc']}: {r.get('msg')}"})
            continue
        if r["rc"] in (0, None):
            hits.append({"prop": "C20", "key": f"exit-zero:{k}", "what": f"malformed {k} file as {pos} file ({case['label']}): exit status {r['rc']}"})
        if r["out"].strip() != "":
            hits.append({"prop": "C20", "key": f"printed-diff:{k}", "what": f"malformed {k} file as {pos} file ({case['label']}): wrote to stdout: {r['out'][:80]!r}"})
        if not _names_file(r["err"], _badname(case)):
            hits.append({"prop": "C20", "key": f"no-filename:{k}", "what": f"malformed {k} file as {pos} file ({case['label']}): stderr does not name the file: {r['err'][:120]!r}"})
    return hits


def to_model(case, obs):
    """Model (L9 `errorPath`): given which loader reported an error message, the command's observable outcome."""
    if not MODEL_READY or not isinstance(obs, dict) or obs.get("error"):
        return None
    return {"s": "errorpath", "kind": case["kind"]}


def expect(case, obs):
    # abstract observation: for each position (rc != 0, stdout empty, stderr names file, no exception)
    res = []
    for r in obs["runs"]:
        res.append([r["exc"] is None and r["rc"] not in (0, None), r["out"].strip() == "", _names_file(r["err"], _badname(case))])
    return {"runs": res}


def classify(case, obs):
    lab = case["label"].split("@")[0].split(":")[0]
    return case["kind"] + ":" + lab


def nontrivial(case, obs):
    return True


def shrink(case):
    """smaller files that the reference parser still rejects: drop the option flags, cut line blocks (halves, quarters,
    single lines), cut long digit runs down to just over the int limit; the engine keeps a candidate only if the
    monitor reports the same key for it"""
    bad = base64.b64decode(case["bad"])
    kind = case["kind"]
    out = []

    def add(b, label=None, **kw):
        if b != bad and len(b) <= len(bad) and rejects(kind, b):
            out.append(dict(case, bad=base64.b64encode(b).decode(), **kw))
    if case.get("flags"):
        out.append(dict(case, flags=[]))
    if bad[:6] == b"bplist":
        return out
    lines = bad.split(b"\n")
    n = len(lines)
    if n > 1:
        step = n // 2
        while step >= 1 and len(out) < 30:
            for i in range(0, n, step):
                add(b"\n".join(lines[:i] + lines[i + step:]))
            step //= 2
    else:
        m = len(bad)
        for a, b in ((0, m // 2), (m // 2, m), (0, m // 4), (3 * m // 4, m)):
            add(bad[:a] + bad[b:])
    for mt in re.finditer(rb"[0-9]{%d,}" % (LONG // 2), bad):
        add(bad[:mt.start()] + b"1" * 4301 + bad[mt.end():])
    return out[:32]

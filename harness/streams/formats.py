"""Stream `formats` (C09): the same datum stored as JSON, JSON5, YAML and plist; every ordered pair of formats
through the library and the command line, plus a third document diffed from/to every format."""
import json

NAME = "formats"
FMTS = ["json", "json5", "yaml", "plist"]

SCALARS = [0, 1, 2, 10, -7, 123456789, "a", "ab", "abc", "hello world", "x y", "1", "true", "null", "", True, False, 1.5, -2.25, 1e10,
           "\u00e9t\u00e9", "\U0001F600", "a\U0001F600b", "line\nbreak", "tab\t", "\u2028", "#x", "- y", "k: v", "'q'", '"dq"', "<&>",
           # strings that are numbers for a JSON parser but plain strings in YAML 1.1 (written unquoted in flow style)
           "1e3", "2E5", "NaN", "Infinity", "-Infinity", "0x1F", "1_000"]
KEYS = ["a", "b", "c", "key", "k2", "name", "x y", "1", "\u00e9", "\U0001F600", "k\U0001F601z", "true", "null", "#k", "a:b", "<t>",
        "Name", "NAME", "K2", "A"]          # keys that differ only in case (the dumpers of yaml / plistlib sort, json keeps the order)


def gen_datum(r, d=0):
    k = r.random()
    if d >= 3 or k < 0.35:
        return r.choice(SCALARS)
    if k < 0.7:
        return [gen_datum(r, d + 1) for _ in range(r.randint(0, 4))]
    return {r.choice(KEYS): gen_datum(r, d + 1) for _ in range(r.randint(0, 4))}


def mutate(r, x, d=0):
    if r.random() < 0.25:
        return gen_datum(r, d)
    if isinstance(x, list):
        y = [mutate(r, c, d + 1) if r.random() < 0.4 else c for c in x]
        if y and r.random() < 0.3:
            y.pop(r.randrange(len(y)))
        if r.random() < 0.3:
            y.insert(r.randint(0, len(y)), gen_datum(r, d + 1))
        return y
    if isinstance(x, dict):
        y = {k: (mutate(r, v, d + 1) if r.random() < 0.4 else v) for k, v in x.items()}
        if y and r.random() < 0.3:
            y.pop(r.choice(list(y)))
        if r.random() < 0.3:
            y[r.choice(KEYS)] = gen_datum(r, d + 1)
        return y
    return x


OPTS = [[], ["-k"], ["--dict-strategy", "match"], ["-l"]]


def gen(rng, tier):
    n = 40 if tier == "quick" else 500
    cases = [{"d": {"a": [1, 2, "x"], "b": {"c": True}}, "t": {"a": [1, 3, "x"], "b": {"c": False}, "e": 1}, "argv": []},
             {"d": [], "t": {}, "argv": []}, {"d": "s", "t": 1, "argv": []}, {"d": {}, "t": [1], "argv": ["-k"]}]
    for _ in range(n):
        d = gen_datum(rng)
        case = {"d": d, "t": mutate(rng, d), "argv": rng.choice(OPTS)}
        if rng.random() < 0.7:
            case["variant"] = {f: rng.choice(vs) for f, vs in VARIANTS.items()}
        cases.append(case)
    # keys equal up to case, written in different orders by the four writers; JSON-looking strings in flow-style YAML
    ci = {"name": 3.5, "NAME": "x", "Name": [1]}
    for v in ({"yaml": "block"}, {"yaml": "flow"}):
        cases.append({"d": ci, "t": {"zz": {"k": 1}}, "argv": [], "variant": v})
        cases.append({"d": {"NAME": "x", "name": 3.5}, "t": {"name": 1}, "argv": ["--dict-strategy", "match"], "variant": v})
    cases.append({"d": ["1e3", "NaN", "Infinity", "2E5"], "t": ["1e3", 1000.0], "argv": [], "variant": {"yaml": "flow"}})
    cases.append({"d": {"a": "1e3", "b": ["NaN"]}, "t": {"a": 1000.0}, "argv": [], "variant": {"yaml": "flow"}})
    # repeated sub-documents (YAML aliases), astral characters in keys and values, in every encoding variant
    rep = {"k\U0001F600": [1, {"a": "\U0001F601"}], "x": [1, {"a": "\U0001F601"}], "y": {"z": [1, {"a": "\U0001F601"}]}}
    rept = {"k\U0001F600": [1, {"a": "\U0001F601"}], "x": [2, {"a": "\U0001F601"}], "w": {"z": [1, {"a": "\U0001F601"}]}}
    for vj in VARIANTS["json"]:
        for vy in VARIANTS["yaml"]:
            for vp in VARIANTS["plist"]:
                cases.append({"d": rep, "t": rept, "argv": rng.choice(OPTS), "variant": {"json": vj, "json5": vj, "yaml": vy, "plist": vp}})
    return cases


def _share(d, memo=None):
    """Equal sub-containers become ONE Python object, which yaml then writes as an anchor and aliases."""
    memo = {} if memo is None else memo
    if isinstance(d, list):
        d = [_share(x, memo) for x in d]
    elif isinstance(d, dict):
        d = {k: _share(v, memo) for k, v in d.items()}
    else:
        return d
    if not d:
        return d
    return memo.setdefault(json.dumps(d, sort_keys=True), d)


def _write(d, base, dirpath, variant=None):
    """The same datum in every format; `variant` picks among equivalent encodings of each format (escaped or literal
    non-ASCII, block or flow YAML with or without aliases, XML or binary property list)."""
    import os, plistlib, yaml
    v = variant or {}
    paths = {}
    for f in ("json", "json5"):
        p = os.path.join(dirpath, f"{base}.{f}")
        kind = v.get(f, "ascii")
        txt = json.dumps(d, ensure_ascii=(kind != "utf8"), indent=(2 if kind == "indent" else None))
        open(p, "w", encoding="utf-8").write(txt)
        paths[f] = p
    p = os.path.join(dirpath, f"{base}.yaml")
    kind = v.get("yaml", "block")
    if kind == "alias":
        txt = yaml.safe_dump(_share(d))
    elif kind == "flow":
        txt = yaml.safe_dump(d, default_flow_style=True, allow_unicode=True)
    else:
        txt = yaml.safe_dump(d)
    open(p, "w", encoding="utf-8").write(txt)
    paths["yaml"] = p
    p = os.path.join(dirpath, f"{base}.plist")
    open(p, "wb").write(plistlib.dumps(d, fmt=plistlib.FMT_BINARY if v.get("plist") == "binary" else plistlib.FMT_XML))
    paths["plist"] = p
    return paths


VARIANTS = {"json": ["ascii", "utf8", "indent"], "json5": ["ascii", "utf8", "indent"], "yaml": ["block", "alias", "flow"], "plist": ["xml", "binary"]}


def _strict_eq(a, b):
    if type(a) is not type(b):
        return False
    if isinstance(a, list):
        return len(a) == len(b) and all(_strict_eq(x, y) for x, y in zip(a, b))
    if isinstance(a, dict):
        return set(a) == set(b) and all(_strict_eq(a[k], b[k]) for k in a)
    return a == b


def _join_surrogates(x):
    if isinstance(x, str):
        try:
            return x.encode("utf-16", "surrogatepass").decode("utf-16")
        except UnicodeError:
            return x
    if isinstance(x, list):
        return [_join_surrogates(v) for v in x]
    if isinstance(x, dict):
        return {_join_surrogates(k): _join_surrogates(v) for k, v in x.items()}
    return x


def _reference_agrees(d, paths):
    """Do the reference parsers (independent of graphtage's loaders) read the datum back from every file?  Only then
    is it "the same data, expressible in every format"."""
    import json5, plistlib, yaml
    try:
        got = {"json": json.load(open(paths["json"], encoding="utf-8")),
               "json5": _join_surrogates(json5.load(open(paths["json5"], encoding="utf-8"))),
               "yaml": yaml.safe_load(open(paths["yaml"], encoding="utf-8")),
               "plist": plistlib.load(open(paths["plist"], "rb"))}
    except Exception:
        return False
    return all(_strict_eq(d, g) for g in got.values())


def _opts(argv):
    import graphtage
    ake = amk = True
    if "-k" in argv:
        ake = amk = False
    if "match" in argv:
        amk = False
    return graphtage.BuildOptions(allow_key_edits=ake, auto_match_keys=amk, allow_list_edits="-l" not in argv)


def impl(case):
    import os, shutil, tempfile
    import graphtage
    from graphtage.printer import DEFAULT_PRINTER
    from harness import clirun
    DEFAULT_PRINTER.quiet = True
    dirpath = tempfile.mkdtemp(prefix="gtverif_")
    try:
        pd = _write(case["d"], "d", dirpath, case.get("variant"))
        pt = _write(case["t"], "t", dirpath, case.get("variant"))

        def load(paths, f):
            return graphtage.FILETYPES_BY_TYPENAME[f].build_tree(paths[f], _opts(case["argv"]))
        objs = {}
        for f in FMTS:
            try:
                objs[f] = load(pd, f).to_obj()
            except Exception as e:
                objs[f] = "EXC:" + type(e).__name__
        same_obj = all(objs[f] == objs["json"] for f in FMTS)
        ref_ok = _reference_agrees(case["d"], pd) and _reference_agrees(case["t"], pt)
        objs_differ = [f for f in FMTS if not _strict_eq(objs[f], case["d"])] if ref_ok else []
        cost, eq, third, exit_, pred = {}, {}, {}, {}, {}
        for a in FMTS:
            for b in FMTS:
                k = f"{a}->{b}"
                try:
                    A, B = load(pd, a), load(pd, b)
                    eq[k] = bool(A == B)
                    pred[k] = int(max(A.total_size, B.total_size)) + 1      # what a wholesale Replace costs (D10)
                    cost[k] = int(A.diff(B).edited_cost())
                except Exception as e:
                    cost[k] = "EXC:" + type(e).__name__
                try:
                    third[k] = int(load(pd, a).diff(load(pt, b)).edited_cost())
                except Exception as e:
                    third[k] = "EXC:" + type(e).__name__
                r = clirun.run_main(["--no-status"] + case["argv"] + [os.path.basename(pd[a]), os.path.basename(pd[b])], dirpath)
                exit_[k] = r["rc"] if not r["exc"] else "EXC:" + r["exc"]
                # the same files under names that say nothing, with the types given explicitly
                for f in (a, b):
                    dat = os.path.join(dirpath, "d_" + f + ".dat")
                    if not os.path.exists(dat):
                        shutil.copy(pd[f], dat)
                r2 = clirun.run_main(["--no-status", "--from-" + a, "--to-" + b] + case["argv"] + ["d_" + a + ".dat", "d_" + b + ".dat"], dirpath)
                rc2 = r2["rc"] if not r2["exc"] else "EXC:" + r2["exc"]
                if rc2 != exit_[k]:
                    exit_[k] = f"{exit_[k]} by extension but {rc2} with --from-{a} --to-{b}"
        # the same document given on standard input ("-") instead of as a file, in each format, also in an encoding
        # that is not UTF-8 where the format has one (UTF-16 YAML with a byte-order mark, a binary property list)
        import io, sys, plistlib
        stdin_diff = {}
        for f in FMTS:
            data = open(pd[f], "rb").read()
            alts = [("as-written", data)]
            if f == "yaml":
                alts.append(("utf-16", data.decode("utf-8").encode("utf-16")))
            if f == "plist":
                alts.append(("binary", plistlib.dumps(case["d"], fmt=plistlib.FMT_BINARY)))
            for tag, blob in alts:
                alt = os.path.join(dirpath, f"alt_{f}.dat")
                with open(alt, "wb") as fh:
                    fh.write(blob)
                base = ["--no-status", "--from-" + f, "--to-" + f] + case["argv"]
                r_file = clirun.run_main(base + [os.path.basename(alt), os.path.basename(pd[f])], dirpath)
                old_stdin = sys.stdin
                sys.stdin = io.TextIOWrapper(io.BytesIO(blob), encoding="utf-8", errors="surrogateescape")
                try:
                    r_in = clirun.run_main(base + ["-", os.path.basename(pd[f])], dirpath)
                finally:
                    sys.stdin = old_stdin
                a = (r_file["rc"], r_file["exc"], r_file["out"])
                b = (r_in["rc"], r_in["exc"], r_in["out"])
                if a != b:
                    stdin_diff[f + ":" + tag] = [f"file: rc={a[0]} exc={a[1]}", f"stdin: rc={b[0]} exc={b[1]} {r_in['msg'] or r_in['err'][:120]}"]
        return {"same_obj": same_obj, "stdin_diff": stdin_diff, "ref_ok": ref_ok, "objs_differ": objs_differ, "cost": cost, "pred": pred, "eq": eq, "third": third, "exit": exit_}
    finally:
        shutil.rmtree(dirpath, ignore_errors=True)


def monitor(case, obs):
    if not isinstance(obs, dict) or obs.get("error"):
        return [{"prop": "C09", "key": "harness-error", "what": repr(obs)[:300]}]
    hits = []
    if not obs.get("ref_ok", obs["same_obj"]):
        # the reference parsers do not read the datum back from every file: outside "expressible in every format"
        return []
    for f in obs.get("objs_differ", []):
        hits.append({"prop": "C09", "key": f"loaded-data-differs:{f}", "what": f"the {f} loader's tree holds other data (to_obj()) than the file, which json / json5 / yaml / plistlib all read back as the original datum"})
    for k, c in obs["cost"].items():
        if not isinstance(c, int):
            hits.append({"prop": "C09", "key": f"exception:{k}:{c}", "what": f"same data loaded as {k}: comparing raises {c}"})
        elif c != 0:
            kind = "nonzero" if c == obs.get("pred", {}).get(k, c) else "nonzero-not-a-replace"
            hits.append({"prop": "C09", "key": f"{kind}:{k}", "what": f"same data loaded as {k}: cost {c}"})
        if obs["exit"][k] == 1:
            hits.append({"prop": "C09", "key": f"exit:{k}", "what": f"same data as files {k}: command exits with 1"})
        elif obs["exit"][k] != 0:
            hits.append({"prop": "C09", "key": f"bad-exit:{k}:{obs['exit'][k]}", "what": f"same data as files {k}: command ends with {obs['exit'][k]}"})
    for k, (a, b) in sorted((obs.get("stdin_diff") or {}).items()):
        hits.append({"prop": "C09", "key": f"stdin-differs-from-file:{k}", "what": f"the same bytes as a file and on standard input ({k}): {a}; {b}"})
    ref = obs["third"]["json->json"]
    for k, c in obs["third"].items():
        if not isinstance(c, int):
            hits.append({"prop": "C09", "key": f"exception-third:{k}:{c}", "what": f"diff against a third document raises {c} when loaded as {k}"})
        elif c != ref:
            hits.append({"prop": "C09", "key": f"third-cost-differs:{k}", "what": f"diff against a third document costs {c} when loaded as {k} but {ref} as json->json"})
    return hits


def to_model(case, obs):
    if not isinstance(obs, dict) or obs.get("error") or not obs.get("same_obj") or not obs.get("ref_ok", True):
        return None
    from harness.streams.script import enc
    a = case["argv"]
    return {"s": "formats", "d": enc(case["d"]), "ake": "-k" not in a, "amk": "-k" not in a and "match" not in a,
            "ale": "-l" not in a, "alesl": True}


def expect(case, obs):
    """cost-is-zero matrix per ordered pair (what the model can predict without oracles)."""
    return {"zero": {k: (v == 0) for k, v in sorted(obs["cost"].items())}}


def classify(case, obs):
    d = case["d"]
    kind = "dict" if isinstance(d, dict) else "list" if isinstance(d, list) else "scalar"
    v = case.get("variant") or {}
    return kind + ":" + ("parsers-agree" if isinstance(obs, dict) and obs.get("ref_ok") else "inexpressible") + ":" + \
        "/".join(v.get(f, "-") for f in FMTS)


def nontrivial(case, obs):
    return isinstance(case["d"], (list, dict)) and len(case["d"]) > 0

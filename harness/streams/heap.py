"""Stream `heap`: graphtage.fibonacci.FibonacciHeap / MaxFibonacciHeap operation sequences (model layer L4, C16).

Case:  {"max": bool, "kind": str, "ops": [op...], "conts": [[op...], ...]}
  The real heap runs `ops`; then, for every continuation, a fresh heap replays `ops` and runs the continuation
  (this is how the exhaustive tier shares prefixes).  After EVERY operation the returned value, `len(heap)` and a
  dump of the whole linked structure are recorded as one string and compared with the Lean model.

Abstract ops (what `gen` produces; the generator only tracks the multiset of live *priorities*):
  ["push", p] ["pop"] ["peek"] ["len"] ["bool"] ["clear"] ["nodes"] ["iter"] ["min_node"]
  ["deck", p, rank, p2]   decrease the rank-th (by push index) live node of priority p to priority p2
  ["remk", p, rank]       remove the rank-th live node of priority p
  For the min-heap key = priority; for the max-heap key = C - priority (case["c"]), so that "decrease" is valid.
Concrete ops (what the model consumes, recorded in obs["ops"]/obs["conts"]): ["push", key], ["dec", id, key],
  ["rem", id]; the i-th pushed node has id i.
"""
import itertools

NAME = "heap"

# ------------------------------------------------------------------------------------------------
# generation (tracks only the multiset of live priorities; identities are resolved by impl)


def _rand_ops(rng, length, pmax, weights=None, extras=True):
    live = {}  # priority -> count
    ops = []
    w = weights or {"push": 5, "pop": 3, "deck": 3, "remk": 2, "peek": 1, "obs": 1, "bad": 0.3, "clear": 0.15}
    names = list(w)
    for _ in range(length):
        op = rng.choices(names, [w[x] for x in names])[0]
        total = sum(live.values())
        if op == "push":
            p = rng.randint(0, pmax)
            live[p] = live.get(p, 0) + 1
            ops.append(["push", p])
        elif op == "pop":
            if total:
                m = min(p for p in live if live[p])
                live[m] -= 1
            ops.append(["pop"])
        elif op == "peek":
            ops.append(["peek"])
        elif op == "obs" and extras:
            ops.append([rng.choice(["len", "bool", "nodes", "iter", "min_node"])])
        elif op == "clear" and extras:
            live = {}
            ops.append(["clear"])
        elif op in ("deck", "remk", "bad") and total:
            p = rng.choice([q for q in live if live[q]])
            r = rng.randrange(live[p])
            if op == "remk":
                live[p] -= 1
                ops.append(["remk", p, r])
            elif op == "deck":
                p2 = rng.randint(0, p) if rng.random() < 0.8 else p
                live[p] -= 1
                live[p2] = live.get(p2, 0) + 1
                ops.append(["deck", p, r, p2])
            else:
                ops.append(["deck", p, r, p + rng.randint(1, 3)])  # ValueError, heap unchanged
        else:
            p = rng.randint(0, pmax)
            live[p] = live.get(p, 0) + 1
            ops.append(["push", p])
    return ops


def _succ(st):
    """all (op, next abstract state) from the multiset state st = (c0, c1, c2)"""
    c = list(st)
    out = []
    for k in range(3):
        d = c[:]
        d[k] += 1
        out.append((["push", k], tuple(d)))
    if sum(c):
        k = min(i for i in range(3) if c[i])
        d = c[:]
        d[k] -= 1
        out.append((["pop"], tuple(d)))
    else:
        out.append((["pop"], st))
    for k in range(3):
        for r in range(c[k]):
            d = c[:]
            d[k] -= 1
            out.append((["remk", k, r], tuple(d)))
            for k2 in range(k):
                d = c[:]
                d[k] -= 1
                d[k2] += 1
                out.append((["deck", k, r, k2], tuple(d)))
    return out


def _enum(depth, st=(0, 0, 0)):
    """all op sequences of exactly `depth` ops from abstract state st -> (ops, end state)"""
    if depth == 0:
        yield [], st
        return
    for op, s2 in _succ(st):
        for rest, s3 in _enum(depth - 1, s2):
            yield [op] + rest, s3


def _exhaustive(length, is_max, tail=2):
    """every op sequence of length `length` over priorities {0,1,2}: one case per prefix of length-`tail`,
    continuations = all `tail`-step extensions, each followed by a peek"""
    cases = []
    pre = max(0, length - tail)
    for ops, st in _enum(pre):
        conts = [c + [["peek"]] for c, _ in _enum(length - pre, st)]
        cases.append({"max": is_max, "kind": "exh%d" % length, "c": 2, "ops": ops, "conts": conts})
    return cases


EDGE = [
    [["pop"], ["peek"], ["len"], ["bool"], ["nodes"], ["iter"], ["min_node"], ["clear"], ["pop"]],
    [["push", 1], ["peek"], ["pop"], ["pop"], ["peek"], ["push", 0], ["len"], ["bool"]],
    [["push", 1], ["push", 1], ["push", 1], ["pop"], ["pop"], ["pop"], ["pop"]],
    [["push", 2], ["deck", 2, 0, 3], ["deck", 2, 0, 2], ["deck", 2, 0, 0], ["peek"], ["pop"]],
    [["push", 0], ["push", 1], ["push", 2], ["push", 3], ["push", 4], ["pop"], ["deck", 4, 0, 0], ["deck", 3, 0, 0],
     ["nodes"], ["iter"], ["min_node"], ["pop"], ["pop"], ["pop"], ["pop"]],
    [["push", 3], ["push", 3], ["clear"], ["push", 1], ["nodes"], ["pop"], ["len"]],
    [["push", 0]] * 9 + [["pop"]] + [["remk", 0, 3], ["remk", 0, 0], ["remk", 0, 5]] + [["pop"]] * 5,
    [["push", i % 4] for i in range(17)] + [["pop"], ["deck", 3, 1, 0], ["deck", 3, 0, 0], ["deck", 2, 2, 1], ["remk", 1, 0],
                                            ["remk", 0, 1], ["nodes"]] + [["pop"]] * 14,
]


def gen(rng, tier):
    cases = []
    thorough = tier == "thorough"
    for is_max in (False, True):
        for e in EDGE:
            cases.append({"max": is_max, "kind": "edge", "c": 4, "ops": e, "conts": []})
        # exhaustive small scope
        for L in ((1, 2, 3, 4) if not thorough else (1, 2, 3, 4, 5, 6)):
            cases += _exhaustive(L, is_max)
    if thorough:
        cases += _exhaustive(7, False)
    n_short, n_long = (300, 60) if not thorough else (6000, 1500)
    for i in range(n_short):
        pmax = rng.choice([1, 2, 3, 5, 8])
        cases.append({"max": rng.random() < 0.5, "kind": "short", "c": pmax, "ops": _rand_ops(rng, rng.randint(5, 40), pmax), "conts": []})
    for i in range(n_long):
        pmax = rng.choice([2, 4, 9, 30])
        style = rng.random()
        w = None
        if style < 0.3:   # grow big, then churn: deep trees, cascading cuts
            w = {"push": 6, "pop": 2, "deck": 5, "remk": 1.5, "peek": 0.5, "obs": 0.3, "bad": 0.2, "clear": 0.0}
        elif style < 0.45:  # pop-heavy
            w = {"push": 4, "pop": 4, "deck": 1, "remk": 1, "peek": 1, "obs": 0.5, "bad": 0.1, "clear": 0.05}
        cases.append({"max": rng.random() < 0.5, "kind": "long", "c": pmax, "ops": _rand_ops(rng, 200, pmax, w), "conts": []})
    # the drain loop `while heap: yield heap.pop()` (bounds.sort, smallest / largest): build a heap with churn, then pop
    # until it is certainly empty (one pop more than there were pushes: the last ones must raise AttributeError).
    # GtModel.C16.drain_sorted / reachable_drain_sorted is the theorem; the monitor checks every pop against the live keys.
    for i in range(60 if not thorough else 1500):
        pmax = rng.choice([1, 3, 9, 30])
        w = {"push": 6, "pop": 1, "deck": 4, "remk": 1, "peek": 0.3, "obs": 0.2, "bad": 0.1, "clear": 0.0}
        ops = _rand_ops(rng, rng.choice([10, 40, 120]), pmax, w)
        ops += [["pop"]] * (sum(1 for o in ops if o[0] == "push") + 1)
        cases.append({"max": rng.random() < 0.5, "kind": "drain", "c": pmax, "ops": ops, "conts": []})
    return cases


# ------------------------------------------------------------------------------------------------
# the real code


def _dump(h):
    from graphtage.fibonacci import ReversedComparator

    def ring(start):
        if start is None:
            return [], ""
        out = [start]
        n = start.right
        while n is not start:
            out.append(n)
            n = n.right
            if len(out) > 100000:
                raise RuntimeError("ring does not close")
        bad = "" if all(x.right.left is x and x.left.right is x for x in out) else "L!"
        return out, bad

    def key(n):
        k = n.key
        return k.key if isinstance(k, ReversedComparator) else k

    def nd(t):
        kids, bad = ring(t.child)
        return "%s:%s%s%s/%d^%s[%s]%s" % (t.item, key(t), "m" if t.mark else "", "d" if t.deleted else "", t.degree,
                                           "-" if t.parent is None else t.parent.item, ",".join(nd(c) for c in kids), bad)

    roots, bad = ring(h._root)
    return "%s%s|%s|%d" % (",".join(nd(r) for r in roots), bad, "None" if h._min is None else h._min.item, h._n)


class _Run:
    def __init__(self, is_max, c):
        from graphtage.fibonacci import FibonacciHeap, MaxFibonacciHeap
        self.is_max = is_max
        self.c = c
        self.keys = {}
        self.h = (MaxFibonacciHeap if is_max else FibonacciHeap)(key=lambda i: self.keys[i])
        self.nodes = {}
        self.live = {}     # id -> priority (bookkeeping used only to resolve abstract targets)
        self.nxt = 0
        self.unresolved = 0

    def key_of(self, p):
        return self.c - p if self.is_max else p

    def resolve(self, p, rank):
        ids = sorted(i for i, q in self.live.items() if q == p)
        return ids[rank] if rank < len(ids) else None

    def do(self, op):
        """-> (concrete op, 'ret#len#dump')"""
        from graphtage.fibonacci import ReversedComparator
        h = self.h
        name = op[0]
        conc = op
        if name == "push":
            k = self.key_of(op[1])
            conc = ["push", k]
            self.keys[self.nxt] = k
            node = h.push(self.nxt)
            self.nodes[self.nxt] = node
            self.live[self.nxt] = op[1]
            ret = str(node.item)
            self.nxt += 1
        elif name == "pop":
            try:
                r = h.pop()
                self.live.pop(r, None)
                ret = str(r)
            except AttributeError:
                ret = "AttributeError"
        elif name == "peek":
            try:
                ret = str(h.peek())
            except AttributeError:
                ret = "AttributeError"
        elif name in ("deck", "dec"):
            if name == "deck":
                i = self.resolve(op[1], op[2])
                k = self.key_of(op[3])
            else:
                i = op[1] if op[1] in self.live else None
                k = op[2]
            if i is None:
                self.unresolved += 1
                conc = ["len"]
                ret = str(len(h))
            else:
                conc = ["dec", i, k]
                try:
                    ret = str(h.decrease_key(self.nodes[i], ReversedComparator(k) if self.is_max else k))
                    self.keys[i] = k
                    self.live[i] = self.c - k if self.is_max else k
                except ValueError:
                    ret = "ValueError"
        elif name in ("remk", "rem"):
            i = self.resolve(op[1], op[2]) if name == "remk" else (op[1] if op[1] in self.live else None)
            if i is None:
                self.unresolved += 1
                conc = ["len"]
                ret = str(len(h))
            else:
                conc = ["rem", i]
                ret = str(h.remove(self.nodes[i]))
                del self.live[i]
        elif name == "len":
            ret = str(len(h))
        elif name == "bool":
            ret = str(bool(h))
        elif name == "clear":
            ret = str(h.clear())
            self.live = {}
        elif name == "nodes":
            ret = "[" + ",".join(str(n.item) for n in h.nodes()) + "]"
        elif name == "iter":
            try:
                ret = "[" + ",".join(str(x) for x in h) + "]"
            except TypeError:
                ret = "TypeError"
        elif name == "min_node":
            m = h.min_node
            ret = "None" if m is None else str(m.item)
        else:
            raise ValueError("unknown op %r" % (op,))
        return conc, "%s#%d#%s" % (ret, len(h), _dump(h))

    def run(self, ops):
        concs, outs, exc = [], [], None
        for op in ops:
            try:
                c, o = self.do(op)
            except Exception as e:  # an exception escaping a heap method other than the documented ones
                exc = "%s: %s" % (type(e).__name__, str(e)[:120])
                break
            concs.append(c)
            outs.append(o)
        return concs, outs, exc


def impl(case):
    r = _Run(case["max"], case.get("c", 0))
    pc, po, pexc = r.run(case["ops"])
    obs = {"ops": pc, "p": po, "exc": pexc, "conts": [], "c": [], "cexc": [], "unresolved": r.unresolved}
    if pexc is None:
        for cont in case.get("conts", []):
            r2 = _Run(case["max"], case.get("c", 0))
            c0, o0, e0 = r2.run(case["ops"])
            if o0 != po:
                raise RuntimeError("replay of the prefix is not deterministic")
            cc, co, cexc = r2.run(cont)
            obs["conts"].append(cc)
            obs["c"].append(co)
            obs["cexc"].append(cexc)
            obs["unresolved"] += r2.unresolved - r.unresolved
    return obs


def to_model(case, obs):
    if not isinstance(obs, dict) or "ops" not in obs:
        return None
    return {"s": "heap", "max": case["max"], "ops": obs["ops"], "conts": obs["conts"]}


def expect(case, obs):
    return {"p": obs["p"], "c": obs["c"]}


# ------------------------------------------------------------------------------------------------
# C16 monitor: own bookkeeping of live items, independent of the model


def _check_seq(is_max, state, ops, outs, exc, hits, where):
    """state = (live: id -> key, pushes).  Mutates and returns it."""
    live, pushes = state
    best = max if is_max else min

    def hit(key, what):
        hits.append({"prop": "C16", "key": key, "what": "%s [%s op #%d %r]" % (what, where, idx, op)})

    idx = -1
    op = None
    for idx, (op, out) in enumerate(zip(ops, outs)):
        ret, ln, dump = out.split("#", 2)
        name = op[0]
        if name == "push":
            if ret != str(pushes):
                hit("push-return", "push returned node of item %s, expected %d" % (ret, pushes))
            live[pushes] = op[1]
            pushes += 1
        elif name in ("pop", "peek"):
            if not live:
                if ret != "AttributeError":
                    hit(name + "-on-empty", "%s on an empty heap returned %s" % (name, ret))
            else:
                b = best(live.values())
                if ret == "AttributeError" or not ret.isdigit():
                    hit(name + "-failed", "%s on a heap with %d live items gave %s" % (name, len(live), ret))
                else:
                    i = int(ret)
                    if i not in live:
                        hit(name + "-not-live", "%s returned item %d which is not live" % (name, i))
                    elif live[i] != b:
                        hit(name + "-not-min", "%s returned item %d with key %d but the extreme live key is %d" % (name, i, live[i], b))
                    if name == "pop":
                        live.pop(i, None)
        elif name == "dec":
            i, k = op[1], op[2]
            if i not in live:
                continue
            bad = (k < live[i]) if is_max else (k > live[i])
            if ret == "ValueError":
                if not bad:
                    hit("spurious-valueerror", "decrease_key(%d -> %d) raised ValueError" % (live[i], k))
            else:
                if bad:
                    hit("missing-valueerror", "decrease_key(%d -> %d) did not raise" % (live[i], k))
                live[i] = k
        elif name == "rem":
            live.pop(op[1], None)
        elif name == "clear":
            live.clear()
        elif name == "bool":
            if ret != str(bool(live)):
                hit("bool", "bool(heap) = %s with %d live items" % (ret, len(live)))
        elif name in ("nodes", "iter"):
            if not (name == "iter" and not live and ret == "TypeError"):
                try:
                    got = sorted(int(x) for x in ret.strip("[]").split(",") if x)
                except ValueError:
                    got = None
                if got != sorted(live):
                    hit("iteration", "%s yields %s, live items are %s" % (name, ret, sorted(live)))
        # after every operation: size, and the min pointer that peek() will report
        if ln != str(len(live)):
            hit("size", "len(heap) = %s but %d items are live" % (ln, len(live)))
        mn = dump.rsplit("|", 2)[1]
        if not live:
            if mn != "None":
                hit("min-on-empty", "min_node is %s on an empty heap" % mn)
        else:
            if mn == "None" or int(mn) not in live:
                hit("min-not-live", "min_node is %s, not a live item" % mn)
            elif live[int(mn)] != best(live.values()):
                hit("min-not-min", "min_node has key %d, extreme live key is %d" % (live[int(mn)], best(live.values())))
    if exc is not None:
        idx += 1
        op = ops[idx] if idx < len(ops) else None
        hit("exception", "operation raised " + exc)
    return live, pushes


def monitor(case, obs):
    hits = []
    if not isinstance(obs, dict) or "ops" not in obs:
        if isinstance(obs, dict) and obs.get("error"):
            hits.append({"prop": "C16", "key": "impl-" + str(obs.get("exc", obs.get("error"))), "what": "running the heap failed: %s" % (obs.get("msg", ""),)})
        return hits
    n_ops = case["ops"]
    state = _check_seq(case["max"], ({}, 0), obs["ops"], obs["p"], obs["exc"], hits, "prefix")
    if obs["exc"] is None and len(obs["ops"]) != len(n_ops):
        hits.append({"prop": "C16", "key": "truncated", "what": "not all operations were executed"})
    for j, (cc, co, ce) in enumerate(zip(obs["conts"], obs["c"], obs["cexc"])):
        _check_seq(case["max"], (dict(state[0]), state[1]), cc, co, ce, hits, "cont %d" % j)
    # report each key once per case
    seen, res = set(), []
    for h in hits:
        if h["key"] not in seen:
            seen.add(h["key"])
            res.append(h)
    return res


# ------------------------------------------------------------------------------------------------


def classify(case, obs):
    if not isinstance(obs, dict) or "ops" not in obs:
        return "error"
    mx = 0
    marks = 0
    for o in obs["p"] + [x for c in obs["c"] for x in c]:
        d = o.split("#", 2)[2]
        mx = max(mx, int(d.rsplit("|", 1)[1]))
        if "m/" in d:
            marks = 1
    size = "n<=3" if mx <= 3 else "n<=8" if mx <= 8 else "n<=32" if mx <= 32 else "n>32"
    return "%s/%s/%s/%s%s" % (case.get("kind", "?"), "max" if case["max"] else "min", size, "marks" if marks else "nomarks",
                              "/unresolved" if obs.get("unresolved") else "")


def nontrivial(case, obs):
    return isinstance(obs, dict) and len(obs.get("ops", [])) + sum(len(c) for c in obs.get("conts", [])) >= 2


def shrink(case):
    ops = case["ops"]
    if case.get("conts"):
        # turn one continuation into a plain sequence
        for c in case["conts"]:
            yield {**case, "ops": ops + c, "conts": []}
        return
    for i in range(len(ops)):
        yield {**case, "ops": ops[:i] + ops[i + 1:]}
    for i in range(len(ops), 0, -1):
        yield {**case, "ops": ops[:i - 1]}

"""Stream `heapsel`: graphtage.utils.smallest / largest (built on FibonacciHeap / MaxFibonacciHeap), C16.

Case: {"fn": "smallest"|"largest", "seq": [int...], "n": int, "key": "none"|"neg"|"abs"|"mod3", "form": "list"|"tuple"|"gen"|"varargs"}
"""
NAME = "heapsel"

KEYS = {
    "none": None,
    "neg": lambda x: -x,
    "abs": lambda x: abs(x),
    "mod3": lambda x: x % 3,
}


def _keyval(name, x):
    f = KEYS[name]
    return x if f is None else f(x)


def gen(rng, tier):
    cases = []
    thorough = tier == "thorough"
    # exhaustive small scope: all sequences over {0,1,2} up to length 4 (5 in thorough), all n in -1..len+1
    import itertools
    for L in range(0, 6 if thorough else 5):
        for seq in itertools.product(range(3), repeat=L):
            for n in range(-1, L + 2):
                for fn in ("smallest", "largest"):
                    for form in (("list", "gen", "varargs") if L <= 3 or thorough else ("gen",)):
                        cases.append({"fn": fn, "seq": list(seq), "n": n, "key": "none", "form": form})
    for _ in range(400 if not thorough else 8000):
        L = rng.choice([0, 1, 2, 3, 5, 8, 13, 30, 80])
        dom = rng.choice([1, 3, 10, 1000])
        seq = [rng.randint(-dom, dom) for _ in range(L)]
        n = rng.choice([0, 1, 1, 2, 3, L - 1, L, L + 1, max(0, L // 2), rng.randint(-2, L + 3)])
        cases.append({"fn": rng.choice(["smallest", "largest"]), "seq": seq, "n": n, "key": rng.choice(list(KEYS)),
                      "form": rng.choice(["list", "tuple", "gen", "gen", "varargs"])})
    # items that are not signed numbers: strings, tuples, floats, numpy unsigned bytes (with 0 among them)
    for _ in range(200 if not thorough else 4000):
        kind = rng.choice(["str", "tuple", "float", "u8"])
        L = rng.choice([1, 2, 3, 5, 8, 13, 30])
        seq = [rng.randint(0, 255) if kind == "u8" else rng.randint(-50, 50) for _ in range(L)]
        if kind == "u8" and rng.random() < 0.7:
            seq[rng.randrange(L)] = 0
        n = rng.choice([0, 1, 2, 3, L - 1, L, L + 1, max(0, L // 2)])
        cases.append({"fn": rng.choice(["smallest", "largest"]), "seq": seq, "n": n, "key": "none", "kind": kind,
                      "form": rng.choice(["list", "gen"] if kind in ("tuple", "str") else ["list", "tuple", "gen", "varargs"])})
    return cases


# item kinds: the helpers take any mutually comparable items (the library itself passes edits and ranges); every kind is an
# order-preserving image of the ints of the case, so model, expectation and monitor stay on the ints
def _to_kind(kind, x):
    if kind == "str":
        return "k%05d" % (x + 20000)
    if kind == "tuple":
        return (x, "t")
    if kind == "float":
        return x / 4
    if kind == "u8":
        import numpy as np
        return np.uint8(x)
    return x


def _from_kind(kind, y):
    if kind == "str":
        return int(y[1:]) - 20000
    if kind == "tuple":
        return int(y[0])
    if kind == "float":
        return int(y * 4)
    return int(y)


def impl(case):
    from graphtage import utils
    f = getattr(utils, case["fn"])
    kind = case.get("kind", "int")
    seq = [_to_kind(kind, x) for x in case["seq"]]
    kw = {"n": case["n"]}
    if KEYS[case["key"]] is not None:
        kw["key"] = KEYS[case["key"]]
    try:
        if case["form"] == "varargs":
            res = list(f(*seq, **kw))
        elif case["form"] == "gen":
            res = list(f((x for x in seq), **kw))
        elif case["form"] == "tuple":
            res = list(f(tuple(seq), **kw))
        else:
            res = list(f(list(seq), **kw))
    except TypeError:
        return {"res": "TypeError"}
    return {"res": [_from_kind(kind, y) for y in res]}


def to_model(case, obs):
    if not isinstance(obs, dict) or "res" not in obs:
        return None
    form = {"tuple": "list"}.get(case["form"], case["form"])
    return {"s": "heapsel", "fn": case["fn"], "items": case["seq"], "keys": [_keyval(case["key"], x) for x in case["seq"]],
            "n": case["n"], "form": form}


def expect(case, obs):
    return obs["res"]


def monitor(case, obs):
    hits = []

    def hit(key, what):
        hits.append({"prop": "C16", "key": key, "what": "%s(%r, n=%d, key=%s, form=%s): %s" % (case["fn"], [_to_kind(case.get("kind", "int"), x) for x in case["seq"]] if case.get("kind") in ("str", "tuple", "float") else case["seq"], case["n"], case["key"], case["form"], what)})

    if not isinstance(obs, dict) or "res" not in obs:
        if isinstance(obs, dict) and obs.get("error"):
            hit("sel-impl-" + str(obs.get("exc", obs.get("error"))), "failed: %s" % (obs.get("msg", ""),))
        return hits
    res = obs["res"]
    seq = case["seq"]
    if res == "TypeError":
        # the only documented-signature input on which the helpers may not work is a lone non-iterable argument
        if not (case["form"] == "varargs" and len(seq) == 1):
            hit("sel-typeerror", "raised TypeError")
        return hits
    n = max(0, case["n"])
    rev = case["fn"] == "largest"
    keys = sorted((_keyval(case["key"], x) for x in seq), reverse=rev)
    want = keys[:n]
    got = [_keyval(case["key"], x) for x in res]
    if sorted(got, reverse=rev) != want:
        hit("sel-wrong-keys", "returned keys %r, the %d extreme keys are %r" % (got, n, want))
    # the returned items must be a sub-multiset of the input
    pool = list(seq)
    for x in res:
        if x in pool:
            pool.remove(x)
        else:
            hit("sel-not-a-member", "returned %r which is not (any longer) in the input" % (x,))
            break
    return hits


def classify(case, obs):
    L = len(case["seq"])
    short = L <= case["n"] and case["form"] != "gen"
    return "%s/%s/len%s/%s" % (case["fn"], case["form"], "0" if L == 0 else "1" if L == 1 else "<=5" if L <= 5 else ">5",
                               "shortcut" if short else "heap")


def nontrivial(case, obs):
    return len(case["seq"]) >= 1


def shrink(case):
    seq = case["seq"]
    for i in range(len(seq)):
        yield {**case, "seq": seq[:i] + seq[i + 1:]}
    if case["n"] > 0:
        yield {**case, "n": case["n"] - 1}

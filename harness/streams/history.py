"""Stream `history` (C05): interleavings of the six public edit operations on the ROOT edit returned by
`TreeNode.edits`, under quiet / non-quiet default printer, followed by "tighten to exhaustion" and the script dump.

    ops:  bounds | tighten | complete | valid | edits | nonzero | render
          (`render` = print the edit through the JSON formatter into a colour / plain Printer over StringIO; it is
           not one of the six protocol operations, cases containing it are checked by the monitor only)

The monitor requires: no exception from any operation; final cost and script identical to the canonical run (fresh
trees, `while e.tighten_bounds(): pass`, dump) and identical between quiet=True and quiet=False; every intermediate
`bounds()` result contains the final cost and never widens; the full CLI path (`diff`, render with
`Printer(ansi_color=colour)`, `edited_cost`) gives the canonical cost as well.
"""
import io
import itertools
import json

from . import script as S
from . import trace as T
from .. import lazyinst as L

NAME = "history"
OPS = ["bounds", "tighten", "complete", "valid", "edits", "nonzero"]

FIXED = [
    ([[[2]]], [[], [[10, "a"]]], {}),                                              # list of lists (D8's input)
    ([[1, 2], [3]], [[3], [1, 2, 4]], {}),
    ([0, 1, {"k1": 22, "key5": "alpha", "key6": 22}], ["q", "q", {"k1": 22, "key6": 22, "new": "v"}], {}),   # dict in list
    ([{"a": 1}, 2], [{"a": 2}, 2, 3], {"allow_key_edits": False, "auto_match_keys": False}),
    ("hello world", "hello wrld", {}),                                            # strings
    ("abc", "xbd", {}),
    ({"a": 1, "b": "xy"}, {"a": 2, "c": "xyz"}, {"allow_key_edits": False, "auto_match_keys": False}),   # fixed-key dict
    ({"a": [1, 2], "b": {"c": "hello"}}, {"a": [2, 1], "b": {"c": "help"}}, {"allow_key_edits": False, "auto_match_keys": False}),
    ({"a": 1, "b": 2}, {"a": 2, "c": 2}, {}),                                      # multiset with auto-matched keys
    ({"x": "aaaaaaaaaaaa", "b": 2, "c": 3}, {"y": "aaaaaaaaaaab"}, {"auto_match_keys": False}),
    ([1, [2, "ab"], 3], [1, [2, "abc"], 4], {"allow_list_edits": False}),          # fixed-length
    (["ab", "cd"], ["ab", "ce"], {"allow_list_edits_when_same_length": False}),
]


def gen(rng, tier):
    cases = []
    maxlen = 3 if tier == "quick" else 4
    for i, (f, t, o) in enumerate(FIXED):
        for n in range(0, maxlen + 1):
            for seq in itertools.product(OPS, repeat=n):
                cases.append({"f": f, "t": t, "opts": o, "ops": list(seq), "color": (i + n) % 2 == 0})
    if tier != "quick":
        for i in (0, 2, 7):
            f, t, o = FIXED[i]
            for seq in itertools.product(OPS, repeat=5):
                cases.append({"f": f, "t": t, "opts": o, "ops": list(seq), "color": False})
    for f, t in T.COLLUB_FORCED[:1]:        # defect `coll-ub` (D24): few cases, keys `coll-ub:<symptom>`
        for seq in ([], ["bounds", "tighten", "bounds"], ["edits", "tighten"], ["render"]):
            cases.append({"f": f, "t": t, "opts": T.COLLUB_OPTS, "ops": seq, "color": False})
    n = 700 if tier == "quick" else 9000
    for k in range(n):
        a = S.gen_doc(rng)
        b = S.mutate(rng, a) if rng.random() < 0.85 else S.gen_doc(rng)
        ln = rng.choice([1, 2, 3, 5, 8, 13, 30])
        w = rng.choice([[1, 1, 1, 1, 1, 1], [1, 6, 1, 1, 1, 1], [3, 2, 3, 1, 3, 1], [0, 4, 0, 0, 3, 2]])
        ops = rng.choices(OPS, weights=w, k=ln)
        if rng.random() < 0.2:
            for _ in range(rng.randint(1, 2)):
                ops.insert(rng.randint(0, len(ops)), "render")
        cases.append({"f": a, "t": b, "opts": rng.choice(S.OPT_SETS), "ops": ops, "color": rng.random() < 0.5})
    # the operations also on SUB-edits reached by listing (monitor only: the model is driven at the root)
    nested_docs = [({"settings": {"id": 7, "title": "release notes"}, "n": 1}, {"settings": {"name": "release notes", "body": "x" * 30}, "n": 2}, {}),
                   ([[1, 2, 3], [4, 5, 6]], [[1, 2, 4], [4, 5, 7]], {}), ({"k": {"a": 1, "b": "yyyy"}}, {"k": {"c": "yyyy", "d": "yyzz"}}, {}),
                   ({"k": {"a": 1, "b": "yyyy"}}, {"k": {"c": "yyyy", "d": "yyzz"}}, {"auto_match_keys": False}),
                   ([{"a": [1, 2]}, "x"], [{"a": [2, 1, 3]}, "y"], {}), ({"a": {"b": {"c": "hello"}}}, {"a": {"b": {"d": "help"}}}, {})]
    nested_docs += [({"k": {"a": "yyyy", "z": 1}}, {"k": {"b": "yyzz", "z": 1}}, {}), ({"k": {"a": "yyyy", "z": 1}}, {"k": {"b": "yyzz", "z": 1}}, {"auto_match_keys": False}),
                    ({"outer": {"name": "bob", "n": 1}, "m": 2}, {"outer": {"nome": "rob", "n": 1}, "m": 2}, {})]
    sub_ops = ["tighten", "tighten", "bounds", "complete", "edits", "nonzero"]
    # list down to an inner edit, look at the root, refine the inner edit directly, look at the root again
    for f, t, o in nested_docs:
        for path in ("0", "0.1", "1", "1.1", "0.0", "0.1.0", "0.1.0.1"):
            up = [f"sub:{p_}:edits" for p_ in (path.split(".")[0], path)]
            for mid in (["bounds"], ["complete"], ["bounds", "complete"]):
                cases.append({"f": f, "t": t, "opts": o, "ops": up + mid + [f"sub:{path}:tighten"] * 6 + ["bounds"], "color": False})
    for k in range(160 if tier == "quick" else 4000):
        if k % 3:
            f, t, o = nested_docs[k % len(nested_docs)]
        else:
            f, t = T.gen_skewed(rng)
            o = rng.choice(S.OPT_SETS)
        ops = []
        for _ in range(rng.choice([2, 3, 5, 8, 13])):
            if rng.random() < 0.6:
                path = ".".join(str(rng.randint(0, 2)) for _ in range(rng.randint(1, 3)))
                ops.append(f"sub:{path}:{rng.choice(sub_ops)}")
            else:
                ops.append(rng.choice(OPS))
        cases.append({"f": f, "t": t, "opts": o, "ops": ops, "color": False})
    # the same through the plist loader's wrapper (root edit = an EditCollection over a mapping edit)
    for k in range(60 if tier == "quick" else 1500):
        f, t, o = nested_docs[k % len(nested_docs)] if k % 2 else (T.gen_skewed(rng) + ({},))
        if not isinstance(f, dict):
            continue
        ops = []
        for _ in range(rng.choice([3, 5, 8, 13])):
            if rng.random() < 0.6:
                path = ".".join(str(rng.randint(0, 2)) for _ in range(rng.randint(1, 3)))
                ops.append(f"sub:{path}:{rng.choice(sub_ops)}")
            else:
                ops.append(rng.choice(OPS))
        cases.append({"f": f, "t": t, "opts": o, "ops": ops, "color": False, "plist": True, "no_cli": True})
    for k in range(n // 10):
        a = T.gen_spec(rng)
        b = T.mutate_spec(rng, a) if rng.random() < 0.85 else T.gen_spec(rng)
        ops = rng.choices(OPS, k=rng.choice([1, 2, 3, 5, 8, 13]))
        cases.append({"api": True, "f": a, "t": b, "opts": {}, "ops": ops, "color": False, "no_cli": True})
    return cases


def shrink(case):
    ops = case["ops"]
    for i in range(len(ops)):
        yield dict(case, ops=ops[:i] + ops[i + 1:])
    if case.get("api"):
        for c in T.shrink(dict(case, mode="exhaust")):
            c = dict(c, ops=ops)
            c.pop("mode", None)
            yield c
        return
    for c in S.shrink(case):
        yield dict(c, ops=ops, color=case.get("color", False))
    if case.get("color"):
        yield dict(case, color=False)


# ------------------------------------------------------------------------------------------------ implementation side

def worker_init():
    T.worker_init()


def _shallow(e):
    from graphtage import Match, Replace, Remove, Insert
    return type(e).__name__


def run_ops(case, quiet):
    import graphtage
    from graphtage import json as gj
    from graphtage import printer as gp
    T.set_quiet(quiet)
    del S._RECORD[:]
    del T._MD[:]
    A = T.build(case, "f")
    B = T.build(case, "t")
    e = A.edits(B)
    results = []
    err = None
    for op0 in case["ops"]:
        try:
            op, e_root = op0, e
            if op0.startswith("sub:"):
                # the same operations applied to a SUB-edit obtained by listing (path of indices into edits() lists)
                _, path, op = op0.split(":")
                cur = e_root
                for ix in [int(x) for x in path.split(".") if x != ""]:
                    subs = list(cur.edits()) if hasattr(cur, "edits") else []
                    if ix >= len(subs):
                        cur = None
                        break
                    cur = subs[ix]
                if cur is None:
                    results.append("no-such-sub-edit")
                    continue
                e = cur
            if op == "bounds":
                results.append(L.rng(e.bounds()))
            elif op == "tighten":
                results.append(bool(e.tighten_bounds()))
            elif op == "complete":
                results.append(bool(e.is_complete()))
            elif op == "valid":
                results.append(bool(e.valid))
            elif op == "edits":
                if hasattr(e, "edits"):
                    results.append([type(x).__name__ for x in e.edits()])
                else:
                    results.append(None)
            elif op == "nonzero":
                results.append(bool(e.has_non_zero_cost()))
            elif op == "render":
                out = io.StringIO()
                p = gp.Printer(out_stream=out, ansi_color=bool(case.get("color")), quiet=quiet)
                try:
                    gj.JSONFormatter.DEFAULT_INSTANCE.print(p, e)
                    results.append("rendered")
                except Exception as ex:       # rendering a bare edit is not part of the protocol; recorded only
                    results.append("render-raised:" + type(ex).__name__)
            else:
                results.append("unknown-op")
            e = e_root
        except Exception as ex:
            if type(ex).__name__ == "Hang":
                raise
            results.append({"raise": type(ex).__name__, "msg": str(ex)[:120]})
            err = type(ex).__name__
            e = e_root
            break
    fin = None
    if err is None:
        try:
            S._full(e)
            fin = {"cost": S._ub(e), "script": S.dump(e)}
        except Exception as ex:
            if type(ex).__name__ == "Hang":
                raise
            fin = {"raise": type(ex).__name__, "msg": str(ex)[:120]}
    return {"results": results, "final": fin, "oracle": list(S._RECORD), "mdo": list(T._MD), "root": type(e).__name__}


def cli_path(case, quiet):
    """diff + render + edited_cost, the way __main__ drives the engine"""
    from graphtage import json as gj
    from graphtage import printer as gp
    T.set_quiet(quiet)
    A = T.build(case, "f")
    B = T.build(case, "t")
    ret = A.diff(B)
    out = io.StringIO()
    p = gp.Printer(out_stream=out, ansi_color=bool(case.get("color")), quiet=quiet)
    with p:
        gj.JSONFormatter.DEFAULT_INSTANCE.print(p, ret)
    cost = int(ret.edited_cost())
    return {"cost": cost, "script": S.dump(ret.edit), "out_len": len(out.getvalue())}


def impl(case):
    try:
        with L.time_limit(12 * int(__import__('os').environ.get('VERIF_LIMIT_MULT', '1'))):
            return _impl(case)
    except L.Timeout:
        return {"error": "hang", "exc": "Timeout", "msg": "operation sequence did not finish in 12 s"}


def _impl(case):
    try:
        obs = {"q": run_ops(case, True), "nq": run_ops(case, False)}
        try:
            T.set_quiet(True)
            A = T.build(case, "f")
            B = T.build(case, "t")
            c = A.edits(B)
            S._full(c)
            obs["canon"] = {"cost": S._ub(c), "script": S.dump(c)}
        except Exception as ex:
            if type(ex).__name__ == "Hang":
                raise
            obs["canon"] = {"raise": type(ex).__name__, "msg": str(ex)[:120]}
        if not case.get("no_cli"):
            try:
                obs["cli"] = cli_path(case, quiet=not case.get("color"))
            except Exception as ex:
                if type(ex).__name__ == "Hang":
                    raise
                obs["cli"] = {"raise": type(ex).__name__, "msg": str(ex)[:160]}
        return obs
    finally:
        T.set_quiet(True)


# ------------------------------------------------------------------------------------------------ model side

MODEL_READY = True
MODEL_MS = True        # MultiSetEdit / matcher modelled?


def has_dict(x):
    if isinstance(x, dict):
        return True
    if isinstance(x, list):
        return any(has_dict(c) for c in x)
    return False


def in_model_domain(case):
    if case.get("api") or case.get("plist"):
        return False
    if MODEL_MS:
        return True
    return not case.get("opts", {}).get("allow_key_edits", True) or not (has_dict(case["f"]) or has_dict(case["t"]))


def to_model(case, obs):
    if not MODEL_READY or "render" in case["ops"] or any(o.startswith("sub:") for o in case["ops"]) or not isinstance(obs, dict) or obs.get("error"):
        return None
    if not in_model_domain(case):
        return None
    if T.outside_fk_domain(case) and "∞" in json.dumps(obs, ensure_ascii=False):
        return None     # defect `coll-ub`: the collection invalidated itself (the model stops at that point); monitor reports it
    o = case.get("opts", {})
    return {"s": "lazy", "f": S.enc(case["f"]), "t": S.enc(case["t"]),
            "ake": o.get("allow_key_edits", True), "amk": o.get("auto_match_keys", True),
            "ale": o.get("allow_list_edits", True), "alesl": o.get("allow_list_edits_when_same_length", True),
            "ops": case["ops"], "quiets": [True, False],
            "oracle": [[r for r in obs[tag].get("oracle", []) if "pairs" in r] for tag in ("q", "nq")],
            "md": [[r for r in obs[tag].get("mdo", []) if "counts" in r] for tag in ("q", "nq")]}


def _strip(run):
    res = []
    for r in run["results"]:
        if isinstance(r, dict) and "raise" in r:
            res.append({"raise": "python:" + r["raise"]})
        else:
            res.append(r)
    fin = run.get("final")
    if isinstance(fin, dict) and "raise" in fin:
        fin = {"raise": "python:" + fin["raise"]}
    return {"results": res, "final": fin}


def expect(case, obs):
    return [_strip(obs["q"]), _strip(obs["nq"])]


# ------------------------------------------------------------------------------------------------ monitor

def monitor(case, obs):
    out = []
    dup = "dup-multiset:" if case.get("api") and (T.has_dup_mset(case["f"]) or T.has_dup_mset(case["t"])) else ""
    if T.outside_fk_domain(case):
        dup = "coll-ub:"

    def hit(key, what):
        out.append({"prop": "C05", "key": dup + key, "what": what})
    if not isinstance(obs, dict):
        return [{"prop": "C05", "key": "bad-observation", "what": repr(obs)[:200]}]
    if obs.get("error"):
        hit("internal-error:" + str(obs.get("exc", obs["error"])), f"{obs.get('exc')}: {obs.get('msg', '')}")
        return out
    canon = obs.get("canon", {})
    if "raise" in canon:
        hit("internal-error:canonical:" + canon["raise"], canon.get("msg", ""))
        return out
    for tag in ("q", "nq"):
        run = obs[tag]
        for op, r in zip(case["ops"], run["results"]):
            if isinstance(r, dict) and "raise" in r:
                hit(f"internal-error:{op}:{r['raise']}", f"{tag}: operation {op} after {case['ops'][:len(run['results']) - 1]} raised {r['raise']}: {r.get('msg')}")
        fin = run.get("final")
        if fin is None:
            continue
        if "raise" in fin:
            hit("internal-error:finish:" + fin["raise"], f"{tag}: finishing after {case['ops']} raised {fin['raise']}: {fin.get('msg')}")
            continue
        if fin["cost"] != canon["cost"]:
            hit("history-changes-cost", f"{tag}: after {case['ops']} the final cost is {fin['cost']}, canonical {canon['cost']}")
        elif fin["script"] != canon["script"]:
            hit("history-changes-script", f"{tag}: after {case['ops']} the final script differs from the canonical one")
        if not isinstance(fin["cost"], int):
            hit("non-definitive-final", f"{tag}: final cost {fin['cost']}")
            continue
        prev = None
        for op, r in zip(case["ops"], run["results"]):
            if op != "bounds" or not isinstance(r, list):
                continue
            if not L.contains(r, [fin["cost"], fin["cost"]]):
                hit("bounds-exclude-final", f"{tag}: bounds {r} do not contain the final cost {fin['cost']} (ops {case['ops']})")
                break
            if prev is not None and not L.contains(prev, r):
                hit("bounds-widened", f"{tag}: bounds went from {prev} to {r} (ops {case['ops']})")
                break
            prev = r
    fq, fnq = obs["q"].get("final"), obs["nq"].get("final")
    if fq and fnq and "raise" not in fq and "raise" not in fnq and fq != fnq:
        hit("quiet-changes-result", f"quiet: cost {fq['cost']}; non-quiet: cost {fnq['cost']} (ops {case['ops']})")
    cli = obs.get("cli")
    if cli is not None:
        if "raise" in cli:
            hit("internal-error:cli:" + cli["raise"], f"diff + render (colour={case.get('color')}) raised {cli['raise']}: {cli.get('msg')}")
        elif cli["cost"] != canon["cost"]:
            hit("cli-path-cost", f"diff + render + edited_cost gives {cli['cost']}, canonical {canon['cost']}")
        elif cli["script"] != canon["script"]:
            hit("cli-path-script", "the script after diff + render differs from the canonical one")
    return out


def classify(case, obs):
    if not isinstance(obs, dict) or obs.get("error"):
        return "error"
    n = len(case["ops"])
    nb = "0" if n == 0 else "1-2" if n <= 2 else "3-5" if n <= 5 else "6-13" if n <= 13 else "14+"
    return f"{obs['q'].get('root')}|len={nb}|{'render' if 'render' in case['ops'] else 'pure'}|{'colour' if case.get('color') else 'plain'}"


def nontrivial(case, obs):
    return isinstance(obs, dict) and not obs.get("error") and obs["q"].get("root") not in ("Match", "Replace")

"""Stream `matrix` (C13): every input file type x output format x output mode x colour mode x condensed flag x
documents with/without differences, through the real command line in-process.  Observation = error enum + the `print` / `print_*`
methods of graphtage that the run entered (harness/handlercov.py, sys.monitoring).

Document sets (`content(kind, which, docset)`):
  0  the original pair          1  exotic values (NaN, bytes, tuples, binary plist, namespaces, CDATA, awkward CSV)
  2  values without a node type (yaml / plist)
  3 - 6  SHAPES: every leaf type changed (float, int, bool, strings), leaf <-> container and list <-> dict replacements, removed /
         inserted containers, list root, scalar root against container root, empty documents - without null / non-finite numbers
  7 / 8  pickle only: pickled OBJECTS (OrderedDict, Fraction, date, a function reference, Namespace, Counter, sets of tuples, a tuple
         key), protocol 4 / protocol 0 - the loader turns them into a Python module (imports, calls, attribute calls, subscripts)
  9 - 12 pickle only: small VALID pickles on which the current tree ends in an internal error (candidate findings, one key each)
  lib    graphtage.pydiff.print_diff on Python objects (the only way to the PyObj* handlers; not a command-line path)
The shape / object / probe documents are FORCED in every (input, format, mode) cell of the quick tier, so the set of handlers that run
does not depend on the seed.  The list of cases ends with one pseudo-case per handler of the tree under test: `classify` reports for
each whether a case entered it (`handler:<name>:ran` / `NOT-RUN` / `not reachable from the command line (<reason>)`), and the monitor
reports `handler-never-run:<name>` for a reachable handler that no case of a whole run entered.
Measure by hand:  PYTHONPATH=.:/repo /venv/bin/python -m harness.handlercov [--tier quick] [--seed N]"""
import base64, json, pickle, plistlib, re

NAME = "matrix"

D1 = {"name": "alpha", "items": [1, 2, {"k": "v"}], "flag": True, "n": 3, "q": 'say "hi" \\ <b>&amp;</b>\n\u00e9', "e": [], "o": {}}
D2 = {"name": "alphA", "items": [1, 3, {"k": "w", "z": None}], "flag": False, "extra": "x", "q": 'say "ho" \\ <i>&lt;</i>\t\u00e8', "e": [1], "o": {"n": {}}}
X1 = '<?xml version="1.0"?>\n<root a="1" q="&quot;x&quot; &amp; &lt;y&gt;"><item>one</item><item n="2">two &amp; "2"</item><empty/><gone>bye</gone></root>'
X2 = '<?xml version="1.0"?>\n<root a="2" q="&quot;x&quot; &amp; &lt;z&gt;"><item>one</item><extra>new</extra><empty>now</empty><gone/></root>'
C1 = "id,name,val\n1,foo,3\n2,bar,4\n"
C2 = "id,name,val\n1,foo,5\n3,baz,4\n9,q,q\n"

INPUTS = ["json", "json5", "yaml", "csv", "xml", "html", "plist", "pickle"]
FORMATS = [None] + INPUTS
MODES = [[], ["-e"], ["-d"]]
COLORS = [["--no-color"], ["--color"], ["--html"], ["--html", "--color"]]
COND = [[], ["-j"]]
OPTS = [[], ["-k"], ["--dict-strategy", "match"], ["-l"], ["-ll"]]


def _plistable(d):
    if d is None:
        return "null"
    if isinstance(d, dict):
        return {k: _plistable(v) for k, v in d.items()}
    if isinstance(d, list):
        return [_plistable(v) for v in d]
    return d


# ---- docset 1: values a real file of each type can hold beyond the plain strings / ints / booleans of D1 / D2
NAN, INF = float("nan"), float("inf")
E1 = {"f": NAN, "g": INF, "h": -INF, "big": 1e308, "tiny": 5e-324, "neg": -1, "z": 0.0, "i": 10 ** 30, "t": [1, [2, [3, []]]],
      "s": "", "u": "\u2028 \U0001F600 \x7f", "k\nl": "multi\nline\n", "long": "ab" * 70, "#c": "# not a comment", "sp": "  lead",
      "same": [NAN, INF, "x\ny"], "": "empty key", "1": 1}
E2 = {"f": 1.5, "g": -INF, "h": NAN, "big": 1e308, "tiny": 0.0, "neg": -2, "z": -0.0, "i": -10 ** 30, "t": [1, [2, [4, 5, {}]]],
      "s": " ", "u": "\u2028 \U0001F601 \x7f", "k\nl": "multi\nline2", "long": "ab" * 69 + "c", "#c": "#", "sp": "trail  ",
      "same": [NAN, INF, "x\ny"], "": "", "2": 1, "n": NAN}
XE1 = ('<?xml version="1.0"?>\n<!-- c --><r xmlns="urn:a" xmlns:p="urn:p" p:a="1" b="&#10;nl">lead<p:i>one</p:i>mid<!-- in --><i><![CDATA[<raw> & ]]></i>'
       '<e/><u>\u00e9\U0001F600</u><d><d><d>deep</d></d></d>tail</r>')
XE2 = ('<?xml version="1.0"?>\n<r xmlns="urn:b" xmlns:p="urn:p" p:a="2" c="&lt;">lead2<p:i>two</p:i><i><![CDATA[<raw2>]]></i>'
       '<e>x</e><u>\u00e8</u><d><d>less</d></d><new a="1"/></r>')
CE1 = 'a,"b,c","q""uote"\r\n1,,\u00e9\n"multi\nline",x\n\n,,\n'
CE2 = 'a,"b;c","q""uot"\n1, ,\u00e8,extra\n"multi line",x\n'


def _exotic(kind, which):
    import datetime, yaml
    d = E1 if which == 1 else E2
    if kind in ("json", "json5"):
        return json.dumps(d).encode()
    if kind == "yaml":
        extra = ({"bin": b"\x00\x01binary", 1: "int key", True: "bool key", 2.5: "float key", "alias": None} if which == 1 else
                 {"bin": b"\x00\x02binary", 1: "int key2", False: "bool key", 2.5: "float", "alias": None})
        dd = dict(d)
        dd.update(extra)
        shared = [1, {"a": 2}]
        dd["alias"] = shared
        dd["alias2"] = shared       # dumped as an anchor and an alias
        return yaml.dump(dd).encode()
    if kind == "csv":
        return (CE1 if which == 1 else CE2).encode()
    if kind in ("xml", "html"):
        return (XE1 if which == 1 else XE2).encode()
    if kind == "plist":
        dd = dict(_plistable(d))
        dd.update({"data": b"\x00\x01" * which, "dataeq": b"same"})
        dd["i"] = 2 ** 63 - which        # plists hold 64-bit integers
        return plistlib.dumps(dd) if which == 1 else plistlib.dumps(dd, fmt=plistlib.FMT_BINARY)
    if kind == "pickle":
        dd = dict(d)
        dd.update({"tup": (1, 2, ("a",)) if which == 1 else (1, 3, ("b",), ()), "bytes": b"by\x00\xfftes\n" if which == 1 else b"by\x00tez",
                   "byteseq": b"same", b"bytes key": 1 if which == 1 else 2, b"bk2": "v", "none": None if which == 1 else 0, "nest": [(1,), (2, 3)] if which == 1 else [(1, 2), ()],
                   5: "int key", None: "none key", "set": {1} if which == 1 else {2}, "fs": frozenset([1])})
        return pickle.dumps(dd)
    raise ValueError(kind)


def _unsupported(kind, which):
    """docset 2: VALID files holding a value graphtage has no node type for: the run must end in a reported error or a
    diff, never in an internal error."""
    import datetime, yaml
    if kind == "yaml":
        return yaml.dump({"a": 1, "when": datetime.date(2020, 1, which), "ts": datetime.datetime(2020, 1, 2, 3, 4, which), "set": {1, which},
                          None: "null key"}).encode()
    if kind == "plist":
        return plistlib.dumps({"a": 1, "date": datetime.datetime(2020 + which, 1, 2, 3, 4, 5)})
    return _exotic(kind, which)


# ---- docsets 3..6: SHAPES.  Every edit kind and every leaf type CHANGED, without a null (D18) and without non-finite numbers, so that
# every formatter completes on a document with differences for every input type that it can render at all:
#   3  mapping root: changed float / int / bool / multi-character strings, leaf <-> container and list <-> dict replacements,
#      removed and inserted containers, reordered list elements, an unchanged sub-document
#   4  list root (the same element kinds)
#   5  scalar root against a container root
#   6  empty documents
S1 = {"f": 1.5, "i": 10, "s": "hello world", "l2s": [1, 2], "s2l": "x", "d2l": {"a": 1}, "l2d": [1], "leaf2d": 7, "d2leaf": {"k": [1, 2.5]},
      "b": True, "list": [1.25, "abc", [1, 2], {"k": 1}, "tail"], "gone": {"x": [1.5]}, "same": {"p": [1, 2.5, "q", True]},
      "ml": "line one\nline two\n", "num2str": 5, "renamed_key": "v"}
S2 = {"f": 2.5, "i": 11, "s": "hello brave new world", "l2s": "x", "s2l": [1, 2], "d2l": [1], "l2d": {"a": 1}, "leaf2d": {"k": [1, 2.5]}, "d2leaf": 7,
      "b": False, "list": [1.75, "abd", {"k": 1}, [1, 2]], "new": {"y": [2.5]}, "same": {"p": [1, 2.5, "q", True]},
      "ml": "line one\nline 2\nline three", "num2str": "5", "renamed_kez": "v"}
SHAPES = {
    3: (S1, S2),
    4: ([1.5, "a", [1], {"k": 2}, 7, "unchanged", {"x": {"y": [0.5]}}], [2.5, "b", {"k": 2}, [1], "unchanged", {"x": {"y": [0.25, 1]}}, 8.0]),
    5: ("just text", [1, {"a": 2.5}]),
    6: ({}, []),
}
XS = {
    3: ('<?xml version="1.0"?>\n<r><a x="1">text one</a><b>2.5</b><c><d/></c><swap>t</swap><k>same</k><gone a="b">bye<g/></gone></r>',
        '<?xml version="1.0"?>\n<r><a x="1" y="2">text two longer</a><b>3.5</b><c>now text</c><other>t</other><k>same</k></r>'),
    4: ('<?xml version="1.0"?>\n<r>x</r>', '<?xml version="1.0"?>\n<s a="1"><t/>tail</s>'),
    5: ('<?xml version="1.0"?>\n<r a="1" b="2"/>', '<?xml version="1.0"?>\n<r b="1" c="2">text</r>'),
    6: ('<r/>', '<e></e>\n'),
}
CS = {
    3: ("id,name,val\n1,foo,1.5\n2,bar,4\n", "id,name,val,extra\n1,foo,2.5,x\n3,bar baz,4,y\n4,q,5,z\n"),
    4: ("x\n", "y,z\n"),
    5: ("a,b\n1,2\n3,4\n", "a,b\n"),
    6: ("", "a\n"),
}


def _py_objects(which, proto):
    """docsets 7 / 8 (pickle input only): a pickle of OBJECTS, which the loader turns into a Python module (imports, calls, attribute
    calls `_var.update(...)`, with protocol 0 subscript assignments `_var['k'] = v`), with changed, removed and unchanged statements,
    a function reference, sets of tuples, and a mapping key that is a tuple.  (No float with protocol 0, no mapping with a tuple
    key next to another key, and no mapping where it could be paired with a set - mappings with tuple keys sit alone in a list -:
    see docsets 9 - 12.)"""
    import argparse, collections, datetime, fractions, os.path
    a = which == 1
    if proto == 0:      # protocol 0 writes many more statements (and the diff of two modules is quadratic in them): a small document
        return pickle.dumps({"od": collections.OrderedDict(a=1, b=[2]) if a else collections.OrderedDict(a=2, c=[2]),
                             "same_od": collections.OrderedDict(k=1), "ns": argparse.Namespace(x=which), "fn": os.path.join if a else os.path.split},
                            protocol=0)
    d = {"od": collections.OrderedDict(a=1, b=[2]) if a else collections.OrderedDict(a=2, c=[2]),
         "fr": fractions.Fraction(1, 3 if a else 4), "d": datetime.date(2020, 1, 1 + which),
         "fn": os.path.join if a else os.path.split, "ns": argparse.Namespace(x=which, y="s"),
         "set": [0, {(1, 2), (3, which)}, "t"] if a else [0, "t"],
         "sets": {(1, which), (5,)}, "tk": [{(1, "tuple key"): [which, 2]}], "tk2": [{(2, which): "changing tuple key"}],
         "same_fr": fractions.Fraction(5, 7), "same_od": collections.OrderedDict(k=1), "same_fn": os.path.join,
         "same_ns": argparse.Namespace(q=1), "cnt": collections.Counter("aab" if a else "abb"),
         "l2o": [1, 2] if a else fractions.Fraction(1, 2), "o2s": fractions.Fraction(3, 2) if a else "text"}
    d["f"] = 1.5 * which
    if a:
        d["only_first"] = fractions.Fraction(9, 8)
    else:
        d["only_second"] = collections.OrderedDict(z=[1])
    return pickle.dumps(d, protocol=proto)


def _py_unloadable(docset, which):
    """docsets 9 - 12 (pickle input only): VALID pickles that the loader must either load or refuse with a message (never an internal
    error): 9 = a mapping with two tuple keys, 10 = a float written with protocol 0, 11 = a collections.deque written with protocol 0;
    12 = a mapping in the first file where the second has a set (both load)."""
    import collections
    if docset == 12:
        return pickle.dumps({"k": 1} if which == 1 else {2})
    if docset == 9:
        return pickle.dumps({(1,): which, (2,): 2})
    if docset == 10:
        return pickle.dumps([1.5 * which], protocol=0)
    return pickle.dumps(collections.deque([which]), protocol=0)


def content(kind, which, docset=0):
    import yaml
    if docset == 1:
        return _exotic(kind, which)
    if docset == 2:
        return _unsupported(kind, which)
    if docset in (7, 8):
        assert kind == "pickle"
        return _py_objects(which, 4 if docset == 7 else 0)
    if docset in (9, 10, 11, 12):
        assert kind == "pickle"
        return _py_unloadable(docset, which)
    if docset in SHAPES:
        if kind == "csv":
            return CS[docset][which - 1].encode()
        if kind in ("xml", "html"):
            return XS[docset][which - 1].encode()
        d = SHAPES[docset][which - 1]
    else:
        d = D1 if which == 1 else D2
    if kind in ("json", "json5"):
        return json.dumps(d).encode()
    if kind == "yaml":
        return yaml.dump(d).encode()
    if kind == "csv":
        return (C1 if which == 1 else C2).encode()
    if kind in ("xml", "html"):
        return (X1 if which == 1 else X2).encode()
    if kind == "plist":
        return plistlib.dumps(_plistable(d))
    if kind == "pickle":
        return pickle.dumps(d)
    raise ValueError(kind)


def docsets_for(kind):
    return [0, 1] + ([2] if kind in ("yaml", "plist") else []) + [3, 4, 5, 6] + ([7, 8, 9, 10, 11, 12] if kind == "pickle" else [])


def all_configs():
    n = 0
    for i in INPUTS:
        for f in FORMATS:
            for m in MODES:
                for c in COLORS:
                    for j in COND:
                        for o in OPTS:
                            for same in (False, True):
                                yield {"input": i, "format": f, "mode": m, "color": c, "cond": j, "opts": o, "same": same}
                            yield {"input": i, "format": f, "mode": m, "color": c, "cond": j, "opts": o, "same": False, "docset": 1}
                            if i in ("yaml", "plist") and not j and not o:
                                yield {"input": i, "format": f, "mode": m, "color": c, "cond": j, "opts": o, "same": False, "docset": 2}
                    for o in OPTS:
                        for ds in docsets_for(i):
                            if ds >= 3 and (ds < 9 or (f is None and not o)):
                                n += 1
                                yield {"input": i, "format": f, "mode": m, "color": c, "cond": COND[n % 2], "opts": o, "same": n % 7 == 0, "docset": ds}


def _forced(rng):
    """The shape documents (docsets 3 - 8) in every (input, format, mode) cell, and the loader / pairing probes (9 - 12): the DOCUMENTS and the
    cell are fixed, only colour / condensed flags are drawn, so which handlers run does not depend on the seed."""
    out = []
    for i in INPUTS:
        for f in FORMATS:
            for m in MODES:
                for ds in docsets_for(i):
                    if ds < 3 or (ds >= 9 and f is not None):
                        continue
                    out.append({"input": i, "format": f, "mode": m, "color": rng.choice(COLORS), "cond": rng.choice(COND), "opts": [], "same": False, "docset": ds})
                    if ds in (3, 7, 8) and not m:      # the whole document through the formatter, without edits
                        out.append({"input": i, "format": f, "mode": m, "color": rng.choice(COLORS), "cond": rng.choice(COND), "opts": [], "same": True, "docset": ds})
                    if ds in (3, 7):
                        out.append({"input": i, "format": f, "mode": m, "color": rng.choice(COLORS), "cond": rng.choice(COND), "opts": rng.choice(OPTS[1:]),
                                    "same": False, "docset": ds})
    return out


# ---- library cases: graphtage.pydiff.print_diff on Python OBJECTS (the only way to the PyObj* handlers; not a command-line path)
class _Pt:
    def __init__(self, **kw):
        self.__dict__.update(kw)


def _pyobj_pair(i):
    pairs = [
        (_Pt(a=1, b="x"), _Pt(a=2, b="x")),
        (_Pt(a=1, b=[1, 2], c={"k": 1.5}), _Pt(a=1, b=[1, 3], c={"k": 2.5, "n": None})),
        ([_Pt(a=1, b=2)], [_Pt(a=1, b=2), 3]),
        (_Pt(a=1, inner=_Pt(x="hello", y=(1, 2))), _Pt(a=1, inner=_Pt(x="help", z=(1, 2)))),
        (_Pt(a=1), _Pt(a=1)),
        ({"o": _Pt(a=b"bytes", s={1, 2})}, {"o": _Pt(a=b"bytez", s={2, 3})}),
        (_Pt(a=1), [1, 2]),
    ]
    return pairs[i]


PYOBJ_PAIRS = 7


def _impl_pyobj(case):
    import io
    import graphtage
    from graphtage import pydiff
    from graphtage.printer import Printer, HTMLPrinter
    from harness import handlercov
    x, y = _pyobj_pair(case["pair"])
    opts = graphtage.BuildOptions(allow_key_edits=not case.get("k", False))
    out = io.StringIO()
    cls = HTMLPrinter if "--html" in case["color"] else Printer
    printer = cls(out_stream=out, ansi_color="--color" in case["color"], quiet=True)
    handlercov.start()
    handlercov.reset()
    exc = msg = None
    try:
        pydiff.print_diff(x, y, printer=printer, options=opts)
    except Exception as e:      # noqa
        exc, msg = type(e).__name__, str(e)[:300]
    return {"rc": 0, "exc": exc, "msg": msg, "out_len": len(out.getvalue()), "err": "", "argv": ["pydiff.print_diff", "pair%d" % case["pair"]] + case["color"],
            "handlers": handlercov.seen()}


def handler_names():
    """Every `print` / `print_*` method of the graphtage tree under test (listed in a subprocess that imports that tree)."""
    import os, subprocess, sys
    from harness import common as C
    env = dict(os.environ, PYTHONPATH=C.VERIF + os.pathsep + C.REPO, PYTHONDONTWRITEBYTECODE="1")
    try:
        p = subprocess.run([C.PY, "-c", "import json; from harness import handlercov; print(json.dumps(handlercov.all_handlers()))"],
                           capture_output=True, text=True, env=env, cwd=C.VERIF, timeout=120)
        return json.loads(p.stdout.strip().splitlines()[-1])
    except Exception:
        return ["?handler-list-failed"]


def gen(rng, tier):
    cfgs = list(all_configs())
    if tier == "quick":
        # covering sample: every (input, format) pair at least once per mode, random other flags
        chosen = []
        for i in INPUTS:
            for f in FORMATS:
                for m in MODES:
                    chosen.append({"input": i, "format": f, "mode": m, "color": rng.choice(COLORS), "cond": rng.choice(COND), "opts": [], "same": rng.random() < 0.25})
                    for o in OPTS[1:]:
                        chosen.append({"input": i, "format": f, "mode": m, "color": rng.choice(COLORS), "cond": rng.choice(COND), "opts": o, "same": rng.random() < 0.25})
                    for _ in range(2):
                        chosen.append({"input": i, "format": f, "mode": m, "color": rng.choice(COLORS), "cond": rng.choice(COND), "opts": rng.choice(OPTS),
                                       "same": False, "docset": 1})
                    if i in ("yaml", "plist"):
                        chosen.append({"input": i, "format": f, "mode": m, "color": rng.choice(COLORS), "cond": [], "opts": [], "same": False, "docset": 2})
        cfgs = chosen + _forced(rng)
    cfgs += [{"lib": "pydiff", "pair": i, "k": k, "color": c} for i in range(PYOBJ_PAIRS) for k in (False, True)
             for c in (COLORS if tier != "quick" else [rng.choice(COLORS)] + ([COLORS[3]] if i == 0 and not k else []))]
    # one closing pseudo-case per handler: reports (classify) whether any of the cases above entered it
    return cfgs + [{"coverage": n} for n in handler_names()]


# Handlers that no command-line run can enter, with the reason (reviewed by reading the code; a handler listed here that DOES run is
# shown as such in the evidence).  `formatter.print(node)` always finds a `print_<Class>` method because the registered formatters
# include JSONFormatter.print_LeafNode / print_ContainerNode (theorem C13.dispatch_total), so the fall-back `node.print(printer)` in
# GraphtageFormatter.print is dead; a node's own `print` only runs where another method calls it directly (mapping keys in
# print_parent_context: leaves, strings and tuple keys).
NOT_CLI = {
    "Edit.print": "protocol default (raises NotImplementedError); every concrete edit class overrides it",
    "TreeNode.print": "abstract",
    "formatter.Formatter.print": "abstract",
    "formatter.BasicFormatter.print": "base class for user-defined formatters; GraphtageFormatter overrides print",
    "EditCollection.print": "the only bare EditCollection (PLISTNode.edits) is replaced as the root's .edit by its own zero-cost Match in "
                            "on_diff; FixedKeyDictNodeEdit gets SequenceEdit.print first in its MRO",
    "KeyValuePairNode.print": "node.print fall-back only (a pair is never a mapping key)",
    "ast.Module.print": "node.print fall-back only", "ast.Assignment.print": "node.print fall-back only",
    "ast.Call.print": "node.print fall-back only", "ast.Subscript.print": "node.print fall-back only",
    "ast.Import.print": "node.print fall-back only", "dataclasses.DataClassNode.print": "node.print fall-back only",
    "pydiff.PyAlias.print": "node.print fall-back only", "xml.XMLElement.print": "node.print fall-back only",
    "plist.PLISTNode.print": "node.print fall-back only",
    "plist.PLISTSequenceFormatter.print_SequenceNode": "every concrete sequence class is a ListNode, a MultiSetNode or a MappingNode, which have their own handlers there",
    "pydiff.PyObj.print": "PyObj nodes are built by graphtage.pydiff.build_tree (library) only; the pickle loader builds ast nodes",
    "pydiff.PyObjEdit.print": "PyObj nodes: library only",
    "pydiff.PyObjFormatter.print_PyObj": "PyObj nodes: library only",
    "pydiff.PyObjFormatter.print_PyObjAttributes": "PyObj nodes: library only",
    "pydiff.PyObjFormatter.print_PyObjFixedAttributes": "PyObj nodes: library only",
    "pydiff.PyObjFormatter.print_KeywordArgument": "KeywordArgument pairs are made by PyObjAttributes only (library); Call.kwargs is always empty",
}
_RAN = {}        # handler -> number of cases of this run that entered it (filled by monitor, read by the closing pseudo-cases)
_RAN_OK = {}     # ... and ended without an internal error
_RAN_LIB = {}    # ... of which library cases
_MONITORED = [0]


def _cov_names(name):
    return name.split("=")


def impl(case):
    from harness import clirun, handlercov
    if "coverage" in case:
        return {"rc": 0, "exc": None, "msg": None, "exists": case["coverage"] in handlercov.all_handlers()}
    if "lib" in case:
        return _impl_pyobj(case)
    ext = {"pickle": "pkl"}.get(case["input"], case["input"])
    a = content(case["input"], 1, case.get("docset", 0))
    b = a if case["same"] else content(case["input"], 2, case.get("docset", 0))
    files = {"a." + ext: {"b64": base64.b64encode(a).decode()}, "b." + ext: {"b64": base64.b64encode(b).decode()}}
    argv = ["--from-" + case["input"], "--to-" + case["input"], "--no-status"] + case["mode"] + case["color"] + case["cond"] + case.get("opts", [])
    if case["format"]:
        argv += ["-f", case["format"]]
    argv += ["a." + ext, "b." + ext]
    handlercov.start()
    handlercov.reset()
    r = clirun.run_case(files, [{"argv": argv}])[0]
    return {"rc": r["rc"], "exc": r["exc"], "msg": r["msg"], "out_len": len(r["out"]), "err": r["err"][:300], "argv": argv,
            "handlers": handlercov.seen()}


def _fmt(case):
    return case["format"] or case["input"]


def _msg_class(msg):
    import re
    msg = msg or ""
    if "Parent is already assigned" in msg or msg.startswith("Error while setting"):
        return "reparent"
    if "unsupported type: <class 'NoneType'>" in msg:
        return "plist-null"
    return re.sub(r"[^A-Za-z]+", "-", msg)[:40]


def failure_key(case, obs):
    if "lib" in case:
        return f"{obs['exc']}:lib-{case['lib']}:{_msg_class(obs.get('msg'))}"
    mode = {"": "full", "-e": "edits", "-d": "digest"}["".join(case["mode"])]
    if case.get("docset", 0) >= 9:       # loader / pairing probes: the failure does not depend on format or mode
        return f"{obs['exc']}:{case['input']}-probe:docset{case['docset']}:{_msg_class(obs.get('msg'))}"
    return f"{obs['exc']}:{case['input']}->{_fmt(case)}:{mode}:{_msg_class(obs.get('msg'))}"


def monitor(case, obs):
    if not isinstance(obs, dict) or obs.get("error"):
        return [{"prop": "C13", "key": "harness-error:" + str(obs.get("exc") if isinstance(obs, dict) else ""), "what": repr(obs)[:300]}]
    hits = []
    if "coverage" in case:
        # coverage assertion: a handler that a command-line run can reach and that no case of a whole run entered is code C13 says
        # nothing about.  (Only in a whole run: a replay of this pseudo-case alone has nothing to count.)
        n = case["coverage"]
        if _MONITORED[0] >= 500 and n not in NOT_CLI and not _RAN.get(n):
            hits.append({"prop": "C13", "key": "handler-never-run:" + n,
                         "what": f"no case of this run entered {n}: the document sets of the matrix stream do not cover it (extend them, "
                                 f"or add it to NOT_CLI with the reason why no command-line run reaches it)"})
        return hits
    _MONITORED[0] += 1
    for h in obs.get("handlers", []):
        _RAN[h] = _RAN.get(h, 0) + 1
        if "lib" in case:
            _RAN_LIB[h] = _RAN_LIB.get(h, 0) + 1
        if not obs["exc"]:
            _RAN_OK[h] = _RAN_OK.get(h, 0) + 1
    if obs["exc"]:
        hits.append({"prop": "C13", "key": failure_key(case, obs),
                     "what": f"{' '.join(obs['argv'])}: internal error {obs['exc']}: {obs['msg']}"})
    elif "lib" in case:
        pass
    elif obs["rc"] not in (0, 1):
        hits.append({"prop": "C13", "key": f"bad-exit:{case['input']}->{_fmt(case)}", "what": f"{' '.join(obs['argv'])}: exit status {obs['rc']}; stderr {obs['err'][:120]!r}"})
    elif obs["rc"] == 1 and re.search(r"^Error (parsing|deserializing) ", obs.get("err", ""), re.M):
        pass        # a file the loader reports as unreadable (docsets with values that have no node type): no comparison took place
    elif case["same"] and obs["rc"] != 0:
        hits.append({"prop": "C02", "key": f"same-file-exit-1:{case['input']}", "what": f"{' '.join(obs['argv'])}: identical files but exit status 1"})
    elif not case["same"] and obs["rc"] != 1:
        hits.append({"prop": "C02", "key": f"different-files-exit-0:{case['input']}", "what": f"{' '.join(obs['argv'])}: different files but exit status 0"})
    return hits


def classify(case, obs):
    if "coverage" in case:
        n = case["coverage"]
        ran, ok = _RAN.get(n, 0), _RAN_OK.get(n, 0)
        if n in NOT_CLI:
            lib = _RAN_LIB.get(n, 0)
            return f"handler:{n}:not reachable from the command line (" + NOT_CLI[n] + ")" + \
                (" - RAN in a command-line case: the review is stale" if ran > lib else " - ran in the library cases (pydiff.print_diff)" if lib else "")
        if not ran:
            return f"handler:{n}:NOT-RUN"
        return f"handler:{n}:ran" + ("" if ok else " (only in runs that ended in an internal error)")
    if "lib" in case:
        return f"lib:{case['lib']}:pair{case['pair']}:{'-k' if case.get('k') else 'defaults'}:{'+'.join(case['color'])}"
    mode = {"": "full", "-e": "edits", "-d": "digest"}["".join(case["mode"])]
    return f"{case['input']}->{_fmt(case)}:{mode}:{'+'.join(case['color'])}:{''.join(case.get('opts', [])) or 'defaults'}:docset{case.get('docset', 0)}"


def nontrivial(case, obs):
    return "coverage" not in case

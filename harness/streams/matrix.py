"""Stream `matrix` (C13): every input file type x output format x output mode x colour mode x condensed flag x
documents with/without differences, through the real command line in-process.  Observation = error enum."""
import base64, json, pickle, plistlib

NAME = "matrix"

D1 = {"name": "alpha", "items": [1, 2, {"k": "v"}], "flag": True, "n": 3, "q": 'say "hi" \\ <b>&amp;</b>\n\u00e9', "e": [], "o": {}}
D2 = {"name": "alphA", "items": [1, 3, {"k": "w", "z": None}], "flag": False, "extra": "x", "q": 'say "ho" \\ <i>&lt;</i>\t\u00e8', "e": [1], "o": {"n": {}}}
X1 = '<?xml version="1.0"?>\n<root a="1" q="&quot;x&quot; &amp; &lt;y&gt;"><item>one</item><item n="2">two &amp; "2"</item><empty/><gone>bye</gone></root>'
X2 = '<?xml version="1.0"?>\n<root a="2" q="&quot;x&quot; &amp; &lt;z&gt;"><item>one</item><extra>new</extra><empty>now</empty><gone/></root>'
C1 = "id,name,val\n1,foo,3\n2,bar,4\n"
C2 = "id,name,val\n1,foo,5\n3,baz,4\n9,q,q\n"

INPUTS = ["json", "json5", "yaml", "csv", "xml", "html", "plist", "pickle"]
FORMATS = [None] + INPUTS
MODES = [[], ["-e"], ["-d"]]
COLORS = [["--no-color"], ["--color"], ["--html"], ["--html", "--color"]]
COND = [[], ["-j"]]
OPTS = [[], ["-k"], ["--dict-strategy", "match"], ["-l"], ["-ll"]]


def _plistable(d):
    if d is None:
        return "null"
    if isinstance(d, dict):
        return {k: _plistable(v) for k, v in d.items()}
    if isinstance(d, list):
        return [_plistable(v) for v in d]
    return d


# ---- docset 1: values a real file of each type can hold beyond the plain strings / ints / booleans of D1 / D2
NAN, INF = float("nan"), float("inf")
E1 = {"f": NAN, "g": INF, "h": -INF, "big": 1e308, "tiny": 5e-324, "neg": -1, "z": 0.0, "i": 10 ** 30, "t": [1, [2, [3, []]]],
      "s": "", "u": "\u2028 \U0001F600 \x7f", "k\nl": "multi\nline\n", "long": "ab" * 70, "#c": "# not a comment", "sp": "  lead",
      "same": [NAN, INF, "x\ny"], "": "empty key", "1": 1}
E2 = {"f": 1.5, "g": -INF, "h": NAN, "big": 1e308, "tiny": 0.0, "neg": -2, "z": -0.0, "i": -10 ** 30, "t": [1, [2, [4, 5, {}]]],
      "s": " ", "u": "\u2028 \U0001F601 \x7f", "k\nl": "multi\nline2", "long": "ab" * 69 + "c", "#c": "#", "sp": "trail  ",
      "same": [NAN, INF, "x\ny"], "": "", "2": 1, "n": NAN}
XE1 = ('<?xml version="1.0"?>\n<!-- c --><r xmlns="urn:a" xmlns:p="urn:p" p:a="1" b="&#10;nl">lead<p:i>one</p:i>mid<!-- in --><i><![CDATA[<raw> & ]]></i>'
       '<e/><u>\u00e9\U0001F600</u><d><d><d>deep</d></d></d>tail</r>')
XE2 = ('<?xml version="1.0"?>\n<r xmlns="urn:b" xmlns:p="urn:p" p:a="2" c="&lt;">lead2<p:i>two</p:i><i><![CDATA[<raw2>]]></i>'
       '<e>x</e><u>\u00e8</u><d><d>less</d></d><new a="1"/></r>')
CE1 = 'a,"b,c","q""uote"\r\n1,,\u00e9\n"multi\nline",x\n\n,,\n'
CE2 = 'a,"b;c","q""uot"\n1, ,\u00e8,extra\n"multi line",x\n'


def _exotic(kind, which):
    import datetime, yaml
    d = E1 if which == 1 else E2
    if kind in ("json", "json5"):
        return json.dumps(d).encode()
    if kind == "yaml":
        extra = ({"bin": b"\x00\x01binary", 1: "int key", True: "bool key", 2.5: "float key", "alias": None} if which == 1 else
                 {"bin": b"\x00\x02binary", 1: "int key2", False: "bool key", 2.5: "float", "alias": None})
        dd = dict(d)
        dd.update(extra)
        shared = [1, {"a": 2}]
        dd["alias"] = shared
        dd["alias2"] = shared       # dumped as an anchor and an alias
        return yaml.dump(dd).encode()
    if kind == "csv":
        return (CE1 if which == 1 else CE2).encode()
    if kind in ("xml", "html"):
        return (XE1 if which == 1 else XE2).encode()
    if kind == "plist":
        dd = dict(_plistable(d))
        dd.update({"data": b"\x00\x01" * which, "dataeq": b"same"})
        dd["i"] = 2 ** 63 - which        # plists hold 64-bit integers
        return plistlib.dumps(dd) if which == 1 else plistlib.dumps(dd, fmt=plistlib.FMT_BINARY)
    if kind == "pickle":
        dd = dict(d)
        dd.update({"tup": (1, 2, ("a",)) if which == 1 else (1, 3, ("b",), ()), "bytes": b"by\x00\xfftes\n" if which == 1 else b"by\x00tez",
                   "byteseq": b"same", "none": None if which == 1 else 0, "nest": [(1,), (2, 3)] if which == 1 else [(1, 2), ()],
                   5: "int key", None: "none key", "set": {1} if which == 1 else {2}, "fs": frozenset([1])})
        return pickle.dumps(dd)
    raise ValueError(kind)


def _unsupported(kind, which):
    """docset 2: VALID files holding a value graphtage has no node type for: the run must end in a reported error or a
    diff, never in an internal error."""
    import datetime, yaml
    if kind == "yaml":
        return yaml.dump({"a": 1, "when": datetime.date(2020, 1, which), "ts": datetime.datetime(2020, 1, 2, 3, 4, which), "set": {1, which},
                          None: "null key"}).encode()
    if kind == "plist":
        return plistlib.dumps({"a": 1, "date": datetime.datetime(2020 + which, 1, 2, 3, 4, 5)})
    return _exotic(kind, which)


def content(kind, which, docset=0):
    import yaml
    if docset == 1:
        return _exotic(kind, which)
    if docset == 2:
        return _unsupported(kind, which)
    d = D1 if which == 1 else D2
    if kind in ("json", "json5"):
        return json.dumps(d).encode()
    if kind == "yaml":
        return yaml.dump(d).encode()
    if kind == "csv":
        return (C1 if which == 1 else C2).encode()
    if kind in ("xml", "html"):
        return (X1 if which == 1 else X2).encode()
    if kind == "plist":
        return plistlib.dumps(_plistable(d))
    if kind == "pickle":
        return pickle.dumps(d)
    raise ValueError(kind)


def all_configs():
    for i in INPUTS:
        for f in FORMATS:
            for m in MODES:
                for c in COLORS:
                    for j in COND:
                        for o in OPTS:
                            for same in (False, True):
                                yield {"input": i, "format": f, "mode": m, "color": c, "cond": j, "opts": o, "same": same}
                            yield {"input": i, "format": f, "mode": m, "color": c, "cond": j, "opts": o, "same": False, "docset": 1}
                            if i in ("yaml", "plist") and not j and not o:
                                yield {"input": i, "format": f, "mode": m, "color": c, "cond": j, "opts": o, "same": False, "docset": 2}


def gen(rng, tier):
    cfgs = list(all_configs())
    if tier == "quick":
        # covering sample: every (input, format) pair at least once per mode, random other flags
        chosen = []
        for i in INPUTS:
            for f in FORMATS:
                for m in MODES:
                    chosen.append({"input": i, "format": f, "mode": m, "color": rng.choice(COLORS), "cond": rng.choice(COND), "opts": [], "same": rng.random() < 0.25})
                    for o in OPTS[1:]:
                        chosen.append({"input": i, "format": f, "mode": m, "color": rng.choice(COLORS), "cond": rng.choice(COND), "opts": o, "same": rng.random() < 0.25})
                    for _ in range(2):
                        chosen.append({"input": i, "format": f, "mode": m, "color": rng.choice(COLORS), "cond": rng.choice(COND), "opts": rng.choice(OPTS),
                                       "same": False, "docset": 1})
                    if i in ("yaml", "plist"):
                        chosen.append({"input": i, "format": f, "mode": m, "color": rng.choice(COLORS), "cond": [], "opts": [], "same": False, "docset": 2})
        cfgs = chosen
    return cfgs


def impl(case):
    from harness import clirun
    ext = {"pickle": "pkl"}.get(case["input"], case["input"])
    a = content(case["input"], 1, case.get("docset", 0))
    b = a if case["same"] else content(case["input"], 2, case.get("docset", 0))
    files = {"a." + ext: {"b64": base64.b64encode(a).decode()}, "b." + ext: {"b64": base64.b64encode(b).decode()}}
    argv = ["--from-" + case["input"], "--to-" + case["input"], "--no-status"] + case["mode"] + case["color"] + case["cond"] + case.get("opts", [])
    if case["format"]:
        argv += ["-f", case["format"]]
    argv += ["a." + ext, "b." + ext]
    r = clirun.run_case(files, [{"argv": argv}])[0]
    tb = None
    return {"rc": r["rc"], "exc": r["exc"], "msg": r["msg"], "out_len": len(r["out"]), "err": r["err"][:300], "argv": argv}


def _fmt(case):
    return case["format"] or case["input"]


def _msg_class(msg):
    import re
    msg = msg or ""
    if "Parent is already assigned" in msg or msg.startswith("Error while setting"):
        return "reparent"
    if "unsupported type: <class 'NoneType'>" in msg:
        return "plist-null"
    return re.sub(r"[^A-Za-z]+", "-", msg)[:40]


def failure_key(case, obs):
    mode = {"": "full", "-e": "edits", "-d": "digest"}["".join(case["mode"])]
    return f"{obs['exc']}:{case['input']}->{_fmt(case)}:{mode}:{_msg_class(obs.get('msg'))}"


def monitor(case, obs):
    if not isinstance(obs, dict) or obs.get("error"):
        return [{"prop": "C13", "key": "harness-error:" + str(obs.get("exc") if isinstance(obs, dict) else ""), "what": repr(obs)[:300]}]
    hits = []
    if obs["exc"]:
        hits.append({"prop": "C13", "key": failure_key(case, obs),
                     "what": f"{' '.join(obs['argv'])}: internal error {obs['exc']}: {obs['msg']}"})
    elif obs["rc"] not in (0, 1):
        hits.append({"prop": "C13", "key": f"bad-exit:{case['input']}->{_fmt(case)}", "what": f"{' '.join(obs['argv'])}: exit status {obs['rc']}; stderr {obs['err'][:120]!r}"})
    elif case["same"] and obs["rc"] != 0:
        hits.append({"prop": "C02", "key": f"same-file-exit-1:{case['input']}", "what": f"{' '.join(obs['argv'])}: identical files but exit status 1"})
    elif not case["same"] and obs["rc"] != 1:
        hits.append({"prop": "C02", "key": f"different-files-exit-0:{case['input']}", "what": f"{' '.join(obs['argv'])}: different files but exit status 0"})
    return hits


def classify(case, obs):
    mode = {"": "full", "-e": "edits", "-d": "digest"}["".join(case["mode"])]
    return f"{case['input']}->{_fmt(case)}:{mode}:{'+'.join(case['color'])}:{''.join(case.get('opts', [])) or 'defaults'}:docset{case.get('docset', 0)}"


def nontrivial(case, obs):
    return True

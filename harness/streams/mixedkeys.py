"""Stream `mixedkeys` (C08, monitor only): mappings whose keys are NOT all strings (YAML and the Python-object entry
points allow numbers, booleans and null next to strings, e.g. 10 and "10").  The Lean model has string keys only, so
nothing is compared with it; the monitor states C08 directly on the real code: the same two documents with their keys
written in another order are equal, cost the same against each other, and pair the same entries.

Case: {"f": [[key, value], ...], "t": [[key, value], ...], "perm": [i...], "permt": [i...], "opts": {...}, "via": "obj"|"yaml"}
      keys are encoded as ["i", 10] / ["s", "10"] / ["b", true] / ["f", "1.5"] / ["n"] so that JSON transport keeps types."""
import json

NAME = "mixedkeys"

KEYS = [["i", 9], ["i", 10], ["s", "9"], ["s", "10"], ["b", True], ["s", "True"], ["f", "1.5"], ["s", "1.5"], ["s", "a"],
        ["i", 2], ["s", "2"], ["i", 100], ["s", "100"], ["i", -1], ["s", "-1"], ["s", "None"], ["s", "null"], ["b", False],
        ["i", 0], ["s", "Id"], ["s", "ID"], ["s", "id"], ["s", "é"], ["s", "E"], ["s", "e"]]
VALS = [1, 2, "x", "xy", None, True, [1], "10", 10, {"k": 1}, "", [1, 2, 3]]
OPT_SETS = [{}, {"auto_match_keys": False}, {"allow_key_edits": False, "auto_match_keys": False}]


def dec_key(k):
    return {"i": lambda: int(k[1]), "s": lambda: k[1], "b": lambda: bool(k[1]), "f": lambda: float(k[1]), "n": lambda: None}[k[0]]()


def _distinct(keys):
    """Python itself identifies 1 / True / 1.0 and 0 / False as ONE dict key: keep the first of each such class."""
    seen, out = set(), []
    for k in keys:
        v = dec_key(k)
        h = ("num", float(v)) if isinstance(v, (bool, int, float)) else ("s", v)
        if h not in seen:
            seen.add(h)
            out.append(k)
    return out


def gen(rng, tier):
    n = 150 if tier == "quick" else 3000
    cases = []
    forced = [([[["i", 10], "xy"], [["s", "10"], 1]], [[["s", "9"], 2]]),
              ([[["s", "Id"], True], [["s", "ID"], "ab"]], [[["s", "id"], [1]]]),
              ([[["i", 1], "a"], [["s", "1"], "b"]], [[["s", "1"], "a"], [["i", 1], "b"]]),
              ([[["b", True], 1], [["s", "True"], 2]], [[["s", "true"], 1]])]
    for f, t in forced:
        for o in OPT_SETS:
            for via in ("obj", "yaml"):
                cases.append({"f": f, "t": t, "perm": list(reversed(range(len(f)))), "permt": list(reversed(range(len(t)))), "opts": o, "via": via})
    for _ in range(n):
        kf = rng.sample(KEYS, rng.randint(2, 5))
        kt = rng.sample(KEYS, rng.randint(1, 5))
        if rng.random() < 0.5:        # the second document shares keys with the first
            kt = rng.sample(kf, rng.randint(1, len(kf))) + kt[:rng.randint(0, 2)]
            seen, kt2 = set(), []
            for k in kt:
                if json.dumps(k) not in seen:
                    seen.add(json.dumps(k))
                    kt2.append(k)
            kt = kt2
        kf, kt = _distinct(kf), _distinct(kt)
        f = [[k, rng.choice(VALS)] for k in kf]
        t = [[k, rng.choice(VALS)] for k in kt]
        pf, pt = list(range(len(f))), list(range(len(t)))
        rng.shuffle(pf)
        rng.shuffle(pt)
        cases.append({"f": f, "t": t, "perm": pf, "permt": pt, "opts": rng.choice(OPT_SETS), "via": rng.choice(["obj", "obj", "yaml"])})
    return cases


def _mk(pairs):
    return {dec_key(k): v for k, v in pairs}


def _canon(o):
    """order-independent text of a value (mappings by sorted key text)"""
    if isinstance(o, dict):
        return "{" + ", ".join(sorted(f"{type(k).__name__}:{k!r}: {_canon(v)}" for k, v in o.items())) + "}"
    if isinstance(o, (list, tuple)):
        return "[" + ", ".join(_canon(x) for x in o) + "]"
    return f"{type(o).__name__}:{o!r}"


def _desc(n):
    try:
        return _canon(n.to_obj())
    except Exception:
        return type(n).__name__


def _leaves(e):
    from graphtage import Match, Replace, Remove, Insert
    if isinstance(e, (Match, Replace, Remove, Insert)):
        return [(type(e).__name__, _desc(e.from_node), "" if isinstance(e, (Remove, Insert)) else _desc(e.to_node), int(e.bounds().upper_bound))]
    try:
        subs = list(e.edits())
    except Exception:
        subs = []
    if not subs:
        return [(type(e).__name__, _desc(e.from_node), "" if isinstance(e, (Remove, Insert)) else _desc(e.to_node), int(e.bounds().upper_bound))]
    out = []
    for s in subs:
        out += _leaves(s)
    return out


def _diff(build, a, b):
    A, B = build(a, "a"), build(b, "b")
    e = A.edits(B)
    guard = 0
    while e.tighten_bounds():
        guard += 1
        if guard > 200000:
            raise RuntimeError("tighten_bounds does not converge")
    return int(e.bounds().upper_bound), sorted(x for x in _leaves(e) if x[3] > 0), A, B


def impl(case):
    import os, shutil, tempfile
    import graphtage, yaml
    from graphtage import json as gj
    from graphtage.printer import DEFAULT_PRINTER
    DEFAULT_PRINTER.quiet = True
    o = graphtage.BuildOptions(**case.get("opts", {}))
    d = tempfile.mkdtemp(prefix="gtverif_") if case["via"] == "yaml" else None
    cnt = [0]

    def build(pairs, name):
        if case["via"] == "yaml":
            cnt[0] += 1
            p = os.path.join(d, f"{name}{cnt[0]}.yaml")
            with open(p, "w", encoding="utf-8") as fh:
                fh.write(yaml.safe_dump(_mk(pairs), sort_keys=False, allow_unicode=True))
            return graphtage.FILETYPES_BY_TYPENAME["yaml"].build_tree(p, o)
        return gj.build_tree(_mk(pairs), o)
    try:
        f, t = case["f"], case["t"]
        f2 = [f[i] for i in case["perm"]]
        t2 = [t[i] for i in case["permt"]]
        c1, l1, A1, B1 = _diff(build, f, t)
        c2, l2, A2, B2 = _diff(build, f2, t2)
        return {"cost": c1, "cost_perm": c2, "leaves_equal": l1 == l2, "leaves": [list(map(str, x)) for x in l1][:12],
                "leaves_perm": [list(map(str, x)) for x in l2][:12], "eq_from": bool(A1 == A2), "eq_to": bool(B1 == B2),
                "self_cost": _diff(build, f, f2)[0]}
    finally:
        if d:
            shutil.rmtree(d, ignore_errors=True)


def monitor(case, obs):
    if not isinstance(obs, dict):
        return [{"prop": "C08", "key": "bad-observation", "what": repr(obs)[:200]}]
    if obs.get("error"):
        return [{"prop": "C08", "key": "internal-error:" + str(obs.get("exc", obs["error"])), "what": f"{obs.get('exc')}: {obs.get('msg', '')}"}]
    hits = []
    under = "under " + (json.dumps(case.get("opts")) if case.get("opts") else "default options") + f" via {case['via']}"
    if not (obs["eq_from"] and obs["eq_to"]):
        hits.append({"prop": "C08", "key": "perm-unequal:mixed-keys", "what": f"a mapping and the same mapping with its keys written in another order are not equal {under}"})
    if obs["self_cost"] != 0:
        hits.append({"prop": "C08", "key": "perm-self-cost:mixed-keys", "what": f"a mapping against itself with permuted keys costs {obs['self_cost']} {under}"})
    if obs["cost"] != obs["cost_perm"]:
        hits.append({"prop": "C08", "key": "perm-cost:mixed-keys", "what": f"cost {obs['cost']} becomes {obs['cost_perm']} after permuting the keys {under}"})
    elif not obs["leaves_equal"]:
        hits.append({"prop": "C08", "key": "perm-pairing:mixed-keys", "what": f"the edits change after permuting the keys {under}: {obs['leaves']} vs {obs['leaves_perm']}"})
    return hits


def classify(case, obs):
    kinds = sorted({k[0] for k, _ in case["f"] + case["t"]})
    return f"{case['via']}:{'+'.join(kinds)}:{'auto' if not case.get('opts') else 'match' if case['opts'].get('allow_key_edits', True) else 'none'}"


def nontrivial(case, obs):
    return len({k[0] for k, _ in case["f"] + case["t"]}) > 1


def shrink(case):
    for side, perm in (("f", "perm"), ("t", "permt")):
        for i in range(len(case[side])):
            if len(case[side]) > 1:
                c = dict(case)
                c[side] = case[side][:i] + case[side][i + 1:]
                c[perm] = list(reversed(range(len(c[side]))))
                yield c

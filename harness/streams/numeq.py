"""Stream `numeq` (C01, C02, C03; monitor only): documents holding the numbers on which the Lean model's scalar equality
(floats are opaque `str()` tokens) is NOT Python's: floats equal to an int (1.0, 1e16, -0.0 / 0.0 / 0), NaN, infinities.
These points are outside the model's domain (DESIGN 3, L1); here the properties are stated directly on the real code.
Equality of documents = Python's `==` with booleans kept apart from numbers and NaN equal to NaN (what `LeafNode.__eq__`
implements since the fixes D32 / D33).

Case: {"f": doc, "t": doc, "opts": {...}}; non-finite floats travel as {"$f": "nan" | "inf" | "-inf" | "-0.0"}."""
import json

from . import script as S

NAME = "numeq"

NUMS = [0, 1, 2, -1, 10 ** 16, 1.0, 2.0, 0.0, {"$f": "-0.0"}, 1e16, 1.5, {"$f": "nan"}, {"$f": "inf"}, {"$f": "-inf"}, True, False,
        1e300, 5e-324, 100.0, 100, "1", "1.0", "nan"]


def dec(x):
    if isinstance(x, dict) and set(x) == {"$f"}:
        return float(x["$f"])
    if isinstance(x, dict):
        return {k: dec(v) for k, v in x.items()}
    if isinstance(x, list):
        return [dec(v) for v in x]
    return x


def gen_doc(r, d=0):
    k = r.random()
    if d >= 2 or k < 0.4:
        return r.choice(NUMS)
    if k < 0.7:
        return [gen_doc(r, d + 1) for _ in range(r.randint(0, 4))]
    return {r.choice(["a", "b", "c", "k"]): gen_doc(r, d + 1) for _ in range(r.randint(0, 3))}


def respell(r, x):
    """the same datum written differently (1 <-> 1.0, 0.0 <-> -0.0 <-> 0, 1e16 <-> 10**16), or a near miss"""
    if isinstance(x, list):
        return [respell(r, c) if r.random() < 0.6 else c for c in x]
    if isinstance(x, dict) and set(x) != {"$f"}:
        return {k: (respell(r, v) if r.random() < 0.6 else v) for k, v in x.items()}
    v = dec(x)
    if isinstance(v, bool) or isinstance(v, str):
        return r.choice([x, int(v) if isinstance(v, bool) else x])
    if isinstance(v, (int, float)) and v == v and abs(v) != float("inf"):
        if v == 0:
            return r.choice([0, 0.0, {"$f": "-0.0"}, 1])
        if float(v) == int(v) and abs(v) < 1e17:
            return r.choice([int(v), float(int(v)), int(v) + 1])
    return r.choice([x, 1, {"$f": "nan"}])


def gen(rng, tier):
    n = 120 if tier == "quick" else 2500
    forced = [(1, 1.0), ([1], [1.0]), (0.0, {"$f": "-0.0"}), ([0], [{"$f": "-0.0"}]), ({"a": 1e16}, {"a": 10 ** 16}), ({"$f": "nan"}, {"$f": "nan"}),
              ([{"$f": "nan"}], [{"$f": "nan"}]), ([{"$f": "nan"}, 1], [1, {"$f": "nan"}]), ({"a": {"$f": "nan"}, "b": 1}, {"a": {"$f": "nan"}, "b": 2}),
              ([{"$f": "inf"}], [{"$f": "-inf"}]), ([1.0, 2], [1, 2.0]), ([True], [1.0]), ([1, 1.0], [1.0]), ({"a": [1.0, 5], "b": 1}, {"a": [1, 5], "b": 2})]
    cases = []
    for f, t in forced:
        for o in S.OPT_SETS[:4]:
            cases.append({"f": f, "t": t, "opts": o})
    for _ in range(n):
        a = gen_doc(rng)
        b = respell(rng, a) if rng.random() < 0.8 else gen_doc(rng)
        cases.append({"f": a, "t": b, "opts": rng.choice(S.OPT_SETS)})
    return cases


def impl(case):
    import graphtage
    f, t = dec(case["f"]), dec(case["t"])
    obs = S.one(f, t, case.get("opts", {}))
    obs.pop("oracle", None)
    A = graphtage.json.build_tree(f, graphtage.BuildOptions(**case.get("opts", {})))
    try:
        obs["copy_eq"] = bool(A.copy() == A)
    except Exception as e:
        obs["copy_eq"] = "EXC:" + type(e).__name__
    return obs


def py_eq(a, b):
    """Python's == on documents, booleans apart from numbers, NaN equal to NaN"""
    if isinstance(a, bool) or isinstance(b, bool):
        return isinstance(a, bool) and isinstance(b, bool) and a == b
    if isinstance(a, list) and isinstance(b, list):
        return len(a) == len(b) and all(py_eq(x, y) for x, y in zip(a, b))
    if isinstance(a, dict) and isinstance(b, dict):
        return set(a) == set(b) and all(py_eq(a[k], b[k]) for k in a)
    if isinstance(a, (list, dict)) or isinstance(b, (list, dict)):
        return False
    if isinstance(a, float) and isinstance(b, float) and a != a and b != b:
        return True
    if isinstance(a, str) or isinstance(b, str) or a is None or b is None:
        return type(a) is type(b) and a == b
    return a == b


def monitor(case, obs):
    if not isinstance(obs, dict):
        return [{"prop": p, "key": "bad-observation", "what": repr(obs)[:200]} for p in ("C01", "C02", "C03")]
    if obs.get("error"):
        what = f"{obs.get('exc', obs['error'])}: {obs.get('msg', '')}"
        return [{"prop": p, "key": "internal-error:" + str(obs.get("exc", obs["error"])), "what": what} for p in ("C01", "C02", "C03")]
    hits = []
    f, t = dec(case["f"]), dec(case["t"])
    root = obs["script"][3]
    de = py_eq(f, t)
    shown = f"{json.dumps(case['f'])} -> {json.dumps(case['t'])}"
    if isinstance(root, int):
        if de and root != 0:
            hits.append({"prop": "C02", "key": "equal-but-cost:numbers", "what": f"{shown}: equal documents but cost {root}"})
        if not de and root == 0:
            hits.append({"prop": "C02", "key": "differ-but-zero:numbers", "what": f"{shown}: different documents but cost 0"})
        if not (obs["edited_cost"] == obs["flat_sum"] == root):
            hits.append({"prop": "C03", "key": "three-views:numbers", "what": f"{shown}: annotated tree {obs['edited_cost']}, flat list {obs['flat_sum']}, root edit {root}"})
    else:
        hits.append({"prop": "C03", "key": "non-definitive:numbers", "what": f"{shown}: fully refined root edit reports {root}"})
    if de != obs["eq"]:
        hits.append({"prop": "C02", "key": "node-eq-vs-data-eq:numbers", "what": f"{shown}: tree equality is {obs['eq']} but the documents are {'equal' if de else 'different'}"})
    if obs.get("copy_eq") is not True:
        hits.append({"prop": "C02", "key": "copy-neq:numbers", "what": f"{json.dumps(case['f'])}: copy() == tree is {obs.get('copy_eq')!r}"})
    for kind, what in obs.get("marks", []) or []:
        hits.append({"prop": "C01", "key": "marks:" + kind + ":numbers", "what": f"{shown}: annotated tree: {what}"})
    return hits


def classify(case, obs):
    txt = json.dumps([case["f"], case["t"]])
    return ("nan" if "nan" in txt else "negzero" if "-0.0" in txt else "inf" if "inf" in txt else "intfloat") + ":" + \
        ("equal" if py_eq(dec(case["f"]), dec(case["t"])) else "different")


def nontrivial(case, obs):
    return True


def shrink(case):
    for c in S.shrink({"f": case["f"], "t": case["t"], "opts": case.get("opts", {})}):
        yield c

"""Stream `optplumb` (C10, monitor only): the dictionary strategy and the list options as a USER selects them — every
spelling on the command line, `BuildOptions` through `json.build_tree`, `BasicBuilder` and `pydiff.build_tree` (lists
AND tuples) — must take effect in the comparison.  The other C10 streams hand `BuildOptions` straight to
`json.build_tree`; a slip in `__main__`'s option handling or in a builder that forgets to pass a flag on is invisible
there.

Judged on the real edit script with C10's own statement: under `none` no pair of different keys, under `auto` every
shared key paired with itself, with list edits off (always / same length) strictly positional pairing.  The document
pairs are chosen so that the strategies and list options genuinely differ on them.

Case: {"f": doc, "t": doc, "entry": "cli" | "json" | "basic" | "pydiff", "argv": [...] (cli) | "opts": {...}, "want": {...},
       "tuples": bool}"""
import json

from . import script as S

NAME = "optplumb"

# every spelling of every option, with the BuildOptions the README says it means
DICT_SPELLINGS = [([], "auto"), (["--dict-strategy", "auto"], "auto"), (["-ds", "auto"], "auto"), (["--dict-strategy", "match"], "match"),
                  (["-ds", "match"], "match"), (["--dict-strategy", "none"], "none"), (["-ds", "none"], "none"), (["-k"], "none"),
                  (["--no-key-edits"], "none")]
LIST_SPELLINGS = [([], "on"), (["-l"], "off"), (["--no-list-edits"], "off"), (["-ll"], "off-same"), (["--no-list-edits-when-same-length"], "off-same")]
STRAT = {"auto": {"allow_key_edits": True, "auto_match_keys": True}, "match": {"allow_key_edits": True, "auto_match_keys": False},
         "none": {"allow_key_edits": False, "auto_match_keys": False}}
LIST = {"on": {"allow_list_edits": True, "allow_list_edits_when_same_length": True}, "off": {"allow_list_edits": False, "allow_list_edits_when_same_length": True},
        "off-same": {"allow_list_edits": True, "allow_list_edits_when_same_length": False}}

# pairs on which the options matter: values swapped between keys (auto pairs a-a, match pairs a-b), a renamed key, a rotated list,
# lists of different length whose best alignment is not positional, all nested one level down as well
PAIRS = [
    ({"a": "xxxxxxxxxx", "b": "yyyyyyyyyy"}, {"a": "yyyyyyyyyy", "b": "xxxxxxxxxx"}),
    ({"name": "some long value", "n": 1}, {"nome": "some long value", "n": 2}),
    ([0, 1, 2, 3, 4, 5], [1, 2, 3, 4, 5, 6]),
    ([1, 2, 3, 4], [2, 3, 4]),
    ({"k": [0, 1, 2, 3, 4, 5], "m": {"a": "xxxxxxxx", "b": "yyyyyyyy"}}, {"k": [1, 2, 3, 4, 5, 6], "m": {"a": "yyyyyyyy", "b": "xxxxxxxx"}}),
    ([[0, 1, 2, 3], {"p": "qqqqqq", "r": "ssssss"}], [[1, 2, 3, 0], {"p": "ssssss", "r": "qqqqqq"}]),
]


def gen(rng, tier):
    cases = []
    k = 0
    for f, t in PAIRS:
        for dargv, strat in DICT_SPELLINGS:
            for largv, lst in (LIST_SPELLINGS if tier != "quick" else [LIST_SPELLINGS[(k + i) % len(LIST_SPELLINGS)] for i in (0, 1)]):
                k += 1
                want = dict(STRAT[strat], **LIST[lst])
                cases.append({"f": f, "t": t, "entry": "cli", "argv": dargv + largv, "want": want})
        for strat in STRAT:
            for lst in LIST:
                want = dict(STRAT[strat], **LIST[lst])
                for entry, tuples in (("json", False), ("basic", False), ("basic", True), ("pydiff", False), ("pydiff", True)):
                    cases.append({"f": f, "t": t, "entry": entry, "opts": want, "want": want, "tuples": tuples})
    # the list options together with a match expression on the command line (the constraint must not cost the trees their flags)
    for f, t in PAIRS[2:4]:
        for largv, lst in LIST_SPELLINGS[1:]:
            for extra in (["--match-unless", "False"], ["--match-if", "True"], ["-u", "len(str(from)) > 99"]):
                cases.append({"f": f, "t": t, "entry": "cli", "argv": largv + extra, "want": dict(STRAT["auto"], **LIST[lst])})
    # a mapping with a TUPLE key under strategy `none` (Python-object entry points only): still no pair of different keys
    for entry in ("basic", "pydiff"):
        for lst in LIST:
            want = dict(STRAT["none"], **LIST[lst])
            cases.append({"f": {"tk": 1, "name": "some long value"}, "t": {"tk": 1, "nome": "some long value"}, "entry": entry, "opts": want,
                          "want": want, "tuples": False, "tuplekey": "tk"})
    # random documents from the script stream's generator, through a random entry point
    for _ in range(60 if tier == "quick" else 1500):
        a = S.gen_doc(rng)
        b = S.mutate(rng, a)
        dargv, strat = rng.choice(DICT_SPELLINGS)
        largv, lst = rng.choice(LIST_SPELLINGS)
        want = dict(STRAT[strat], **LIST[lst])
        entry = rng.choice(["cli", "json", "basic", "pydiff"])
        c = {"f": a, "t": b, "entry": entry, "want": want, "tuples": rng.random() < 0.5}
        if entry == "cli":
            c["argv"] = dargv + largv
        else:
            c["opts"] = want
        cases.append(c)
    return cases


def _tuplify(x):
    if isinstance(x, list):
        return tuple(_tuplify(c) for c in x)
    if isinstance(x, dict):
        return {k: _tuplify(v) for k, v in x.items()}
    return x


def impl(case):
    import os, shutil, tempfile
    import graphtage
    from graphtage.printer import DEFAULT_PRINTER
    DEFAULT_PRINTER.quiet = True
    f, t = case["f"], case["t"]
    entry = case["entry"]
    if entry == "cli":
        # observe the trees main() builds: the comparison it prints is a function of them
        from harness import clirun
        import graphtage.__main__ as gm
        d = tempfile.mkdtemp(prefix="gtverif_")
        trees = []
        orig = graphtage.Filetype.build_tree_handling_errors
        ft = graphtage.FILETYPES_BY_TYPENAME["json"]
        cls = type(ft)
        orig = cls.build_tree_handling_errors

        def spy(self, path, options=None):
            r = orig(self, path, options)
            trees.append(r)
            return r
        cls.build_tree_handling_errors = spy
        # ... and the two trees main() actually hands to the comparison (it may wrap or copy what the loaders returned)
        import graphtage.tree as gt
        compared = []
        orig_diff, orig_gae = gt.TreeNode.diff, gt.TreeNode.get_all_edit_contexts

        def spy_diff(self, node):
            if not compared:
                compared.append((self, node))
            return orig_diff(self, node)

        def spy_gae(self, node):
            if not compared:
                compared.append((self, node))
            return orig_gae(self, node)
        gt.TreeNode.diff, gt.TreeNode.get_all_edit_contexts = spy_diff, spy_gae
        try:
            with open(os.path.join(d, "a.json"), "w") as fh:
                json.dump(f, fh)
            with open(os.path.join(d, "b.json"), "w") as fh:
                json.dump(t, fh)
            r = clirun.run_main(["--no-status", "--no-color"] + case["argv"] + ["a.json", "b.json"], d)
        finally:
            cls.build_tree_handling_errors = orig
            gt.TreeNode.diff, gt.TreeNode.get_all_edit_contexts = orig_diff, orig_gae
            shutil.rmtree(d, ignore_errors=True)
        if r["exc"] or len(trees) != 2 or isinstance(trees[0], str) or isinstance(trees[1], str):
            return {"error": "cli", "exc": r["exc"] or "load", "msg": (r["msg"] or r["err"])[:200]}
        A, B = compared[0] if compared else trees
        # fresh comparison of the very trees main() built (main's own edit objects are gone)
        A, B = A.copy() if False else A, B
    else:
        o = graphtage.BuildOptions(**case["opts"])
        if case.get("tuples"):
            f, t = _tuplify(f), _tuplify(t)
        if case.get("tuplekey"):
            tk = case["tuplekey"]
            f = {(("t", 1) if k == tk else k): v for k, v in f.items()}
            t = {(("t", 1) if k == tk else k): v for k, v in t.items()}
        if entry == "json":
            from graphtage import json as gj
            A, B = gj.build_tree(json.loads(json.dumps(case["f"])), o), gj.build_tree(json.loads(json.dumps(case["t"])), o)
        elif entry == "basic":
            from graphtage.builder import BasicBuilder
            A, B = BasicBuilder(o).build_tree(f), BasicBuilder(o).build_tree(t)
        else:
            from graphtage import pydiff
            A, B = pydiff.build_tree(f, o), pydiff.build_tree(t, o)
    e = A.edits(B)
    S._full(e)
    return {"script": S.dump(e), "flags": _flags(A)}


def _flags(n):
    """the option flags the built tree carries, by node class (first occurrence of each)"""
    out = {}
    stack = [n]
    while stack:
        x = stack.pop()
        cn = type(x).__name__
        if cn not in out:
            fl = {k: bool(getattr(x, k)) for k in ("allow_list_edits", "allow_list_edits_when_same_length", "auto_match_keys", "allow_key_edits") if hasattr(x, k)}
            if fl:
                out[cn] = fl
        try:
            stack.extend(x.children())
        except Exception:
            pass
    return out


def monitor(case, obs):
    if not isinstance(obs, dict):
        return [{"prop": "C10", "key": "bad-observation", "what": repr(obs)[:200]}]
    if obs.get("error"):
        return [{"prop": "C10", "key": "internal-error:" + str(obs.get("exc", obs["error"])), "what": f"{obs.get('exc')}: {obs.get('msg', '')}"}]
    how = "graphtage " + " ".join(case["argv"]) if case["entry"] == "cli" else f"{case['entry']} builder{' (tuples)' if case.get('tuples') else ''} with {json.dumps(case['opts'])}"
    raw = []
    S._walk(obs["script"], case["f"], case["t"], case["want"], raw)
    hits = []
    seen = set()
    for p, k, w in raw:
        if p == "C10" and k not in seen:
            seen.add(k)
            hits.append({"prop": "C10", "key": f"option-not-applied:{case['entry']}:{k}", "what": f"{how}: {w}"})
    return hits


def classify(case, obs):
    w = case["want"]
    strat = "auto" if w["auto_match_keys"] else "match" if w["allow_key_edits"] else "none"
    lst = "off" if not w["allow_list_edits"] else "off-same" if not w["allow_list_edits_when_same_length"] else "on"
    return f"{case['entry']}{'/tuples' if case.get('tuples') else ''}:{strat}:{lst}"


def nontrivial(case, obs):
    return True

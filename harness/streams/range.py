"""Stream `range`: graphtage.bounds.Range / Infinity arithmetic and comparisons (model layer L0)."""
NAME = "range"


def _b(rng):
    r = rng.random()
    if r < 0.12:
        return "-inf"
    if r < 0.24:
        return "inf"
    return rng.randint(-4, 6)


def _lt(a, b):
    if a == b:
        return False
    if a == "-inf" or b == "inf":
        return True
    if a == "inf" or b == "-inf":
        return False
    return a < b


def _range(rng):
    while True:
        lo, hi = _b(rng), _b(rng)
        if not _lt(hi, lo):
            return [lo, hi]


def gen(rng, tier):
    n = 400 if tier == "quick" else 5000
    return [{"a": _range(rng), "b": _range(rng)} for _ in range(n)]


def _conv(x):
    from graphtage.bounds import NEGATIVE_INFINITY, POSITIVE_INFINITY
    return NEGATIVE_INFINITY if x == "-inf" else POSITIVE_INFINITY if x == "inf" else x


def _unconv(x):
    from graphtage.bounds import Infinity
    if isinstance(x, Infinity):
        return "inf" if x.positive else "-inf"
    return int(x)


def impl(case):
    from graphtage.bounds import Range
    a = Range(_conv(case["a"][0]), _conv(case["a"][1]))
    b = Range(_conv(case["b"][0]), _conv(case["b"][1]))
    try:
        s = a + b
        add = [_unconv(s.lower_bound), _unconv(s.upper_bound)]
    except ValueError:
        add = "ValueError"
    return {"lt": a < b, "le": a <= b, "dominates": a.dominates(b), "contains": b in a, "eq": a == b,
            "definitive": a.definitive(), "finite": a.finite, "add": add}


def to_model(case, obs):
    return {"s": "range", "a": case["a"], "b": case["b"]}


def expect(case, obs):
    return obs


def monitor(case, obs):
    return []


def classify(case, obs):
    return "inf" if any(isinstance(x, str) for x in case["a"] + case["b"]) else "fin"

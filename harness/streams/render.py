"""Stream `render`: the diff of two JSON documents RENDERED by the real JSON formatter, with the change marks
recovered from the output, for C06 ("both documents can be read back from the rendered diff").

impl      builds both trees with graphtage.json.build_tree, diffs them (TreeNode.diff), prints the edited tree with
          JSONFormatter.DEFAULT_INSTANCE on a colour Printer writing to a StringIO (exactly what __main__ does) and
          recovers a list of (code point, mark) from the raw output:
              mark 0 = plain, 1 = removed, 2 = inserted, 3 = arrow (the cyan " -> ")
          a character followed by U+0336 (strike) is removed, followed by U+031F (under-plus) is inserted, a character
          written while the ANSI background is red is removed, green is inserted, while the foreground is cyan is the
          arrow; all other ANSI codes are dropped.  Whitespace outside string literals is dropped (layout options
          only change whitespace; this is checked: the same diff is printed under the opposite layout, too).
          json.dumps escapes every non-ASCII character and every control character, so the raw output consists of
          printable ASCII, "\n", ESC sequences and the two combining marks only: the recovery is unambiguous even for
          documents that contain U+0336 / U+031F / ESC themselves (this is asserted on every case).
model     GtModel.Render.render over the L2 script computed by GtModel.edits from the recorded solver answers.
monitor   C06 on the recovered output alone: both projections parse (after separator repair) to the two documents,
          and there are no marks iff the documents are equal as data.
          The projections are judged by json.loads alone (a raw DEL or raw non-ASCII character in the output is legal JSON and
          is accepted; a raw control character is not and makes the projection unparsable).

PLAIN-TEXT PASS (the default of `graphtage a b > file`, `--no-color`): the same diff is also printed with `ansi_color=False`, where
the marks are IN-BAND text: a removed item is `~~item~~`, an inserted one `++item++` (Remove.print / Insert.print), a changed or
replaced value is `old -> new` with no delimiters (Match.print / Replace.print), a changed string carries `~~` / `++` toggles between
its quotes (StringFormatter.write_char).  `parse_plain` reads that text with the grammar
      item   := "~~" thing "~~" | "++" thing "++" | thing [ "->" thing ]
      thing  := value                      in a list / at the root
              | key [ "->" key ] ":" item  in an object (key: a string literal, possibly with toggles)
      value  := "[" item,* "]" | "{" item,* "}" | string literal with toggles | number / true / false / null
and returns both documents; they must be the two inputs, and there must be a mark iff the inputs differ.  DOMAIN of this pass (the
in-band format is inherently ambiguous outside it, and the monitor says nothing there): no string and no key of either document contains
`~` or `+` - one such character next to a toggle (`"a` + `++` + `+` + `++` + `"`) cannot be told from the toggle, let alone a literal
`~~x~~`; ` -> ` inside a string is harmless (the arrow is only read OUTSIDE string literals, where json.dumps never writes `->`), so
strings with arrows, quotes, brackets, commas are inside the domain.  Everything else (all shapes: roots, lists, objects, key edits,
replacements of containers, nested edits) is decided.
"""
import io, json

from harness.streams import script as S

NAME = "render"

PLAIN, REMOVED, INSERTED, ARROW = 0, 1, 2, 3
STRIKE = "\u0336"
UPLUS = "\u031f"

OPT_SETS = S.OPT_SETS

HOSTILE = ['"', "\\", "->", " -> ", "~", "~~", "+", "++", "[", "]", "{", "}", ",", ":", "\n", "\t", "\x00", "\x1f",
           "\x7f", "\u00e9", "\u2028", "\U0001F600", "", '{"a": 1}', "[1, 2]", '"quoted"', 'a\\"b', "\\u0041",
           STRIKE, UPLUS, "x" + STRIKE + "y", "a" + UPLUS, "\x1b[41m", "\x1b[0m", "null", "true", "1", "~~x~~", "++y++",
           "a -> b", "\\\\", '""', " ", "  ", "'", "\r", "\b\f", ", ", ": ", "],[", '","', "\ud800", "\udc00x",
           "\uffff", "\U0010FFFF", "\x1b", "a,b", "\\n", "\\", '\\"', "//", "</script>", "\u00e9\u00e8", "e\u0301"]
ALPHABET = ['"', "\\", "-", ">", " ", "~", "+", "[", "]", "{", "}", ",", ":", "\n", "\t", "\x00", "\x1f", "\x7f",
            "\u00e9", "\u2028", "\U0001F600", STRIKE, UPLUS, "\x1b", "a", "b", "c", "x", "0", "1", "u", "n", "/", "'"]
PLAIN_SCALARS = [0, 1, 2, 10, 12, -1, -7, 12345678901234567890, -98765432109876543210, True, False, None,
                 1.5, 2.25, -0.5, 1e16, 1e-07, 123456.789, "a", "ab", "abc", "abd", "xbc", "hello world", "hello wrld",
                 "None", "True", "0"]
PLAIN_KEYS = ["a", "b", "c", "d", "ab", "ac", "zz", "k1", "key5"]


def rand_str(r):
    k = r.random()
    if k < 0.45:
        return r.choice(HOSTILE)
    if k < 0.8:
        return "".join(r.choice(ALPHABET) for _ in range(r.randint(0, 6)))
    return r.choice(HOSTILE) + r.choice(HOSTILE)


def rand_scalar(r, hostile):
    if r.random() < hostile:
        return rand_str(r)
    return r.choice(PLAIN_SCALARS)


def rand_key(r, hostile):
    if r.random() < hostile:
        return rand_str(r)
    return r.choice(PLAIN_KEYS)


def gen_doc(r, hostile, d=0, maxd=3):
    k = r.random()
    if d >= maxd or k < 0.35:
        return rand_scalar(r, hostile)
    if k < 0.7:
        return [gen_doc(r, hostile, d + 1, maxd) for _ in range(r.randint(0, 4))]
    return {rand_key(r, hostile): gen_doc(r, hostile, d + 1, maxd) for _ in range(r.randint(0, 4))}


def almost_str(r, x):
    if x == "":
        return r.choice(ALPHABET)
    i = r.randrange(len(x))
    c = r.choice(ALPHABET)
    return r.choice([x[:i] + x[i + 1:], x[:i] + c + x[i:], x[:i] + c + x[i + 1:], x + c, c + x, x + x[-1], ""])


def mutate(r, x, hostile, d=0):
    if r.random() < 0.15:
        return gen_doc(r, hostile, d)
    if isinstance(x, list):
        y = [mutate(r, c, hostile, d + 1) if r.random() < 0.4 else c for c in x]
        if y and r.random() < 0.3:
            y.pop(r.randrange(len(y)))
        if r.random() < 0.3:
            y.insert(r.randint(0, len(y)), gen_doc(r, hostile, d + 1))
        if len(y) >= 2 and r.random() < 0.15:
            i, j = r.sample(range(len(y)), 2)
            y[i], y[j] = y[j], y[i]
        return y
    if isinstance(x, dict):
        y = {k: (mutate(r, v, hostile, d + 1) if r.random() < 0.4 else v) for k, v in x.items()}
        if y and r.random() < 0.3:
            y.pop(r.choice(list(y)))
        if r.random() < 0.3:
            y[rand_key(r, hostile)] = gen_doc(r, hostile, d + 1)
        if r.random() < 0.3 and y:
            k = r.choice(list(y))
            v = y.pop(k)
            y[almost_str(r, k)] = v
        return y
    if isinstance(x, str) and r.random() < 0.7:
        return almost_str(r, x)
    if r.random() < 0.5:
        return S.almost(r, x)
    return x


FORCED = [
    # a key renamed to a name of the same length while the mapping gains / loses a large entry: the matcher separates the
    # candidate pairs without ever tightening the chosen one, so the pair is printed while its edit is still [0, n]
    ({"name": "bob"}, {"nome": "bob", "d": [1, 2, 3, 4]}), ({"aaa": {}, "x": ""}, {"x": "", "baa": [], "aaaa": {"a": ["aa"]}}),
    ({"ab": 1}, {"ac": 1, "zzzz": [1, 2, 3, 4, 5, 6]}), ({"key": "v", "big": [1, 2, 3, 4, 5]}, {"kez": "v"}),
    # a boolean next to the float that Python calls equal to it (True == 1.0, False == 0.0), and no int 1 / 0 around
    ([1.0, True], [1.0, False]), ([True, 1.0], [True, 2.5]), ({"a": 0.0, "b": False}, {"a": 0.0, "b": True}), ([False, 0.0, True, 1.0], [0.0, False, 1.0, True]),
    ("abc", "abd"), ("a", "b"), ("", "a"), ("hello", "help"), ('"', "\\"), ('a"b', 'a"c'), (STRIKE, UPLUS),
    ("x" + STRIKE, "x" + UPLUS + "y"), ("\U0001F600", "\U0001F601"), ("\x00\x1f", "\x00\x7f"), (" -> ", "->"),
    ("~~a~~", "++a++"), ([1, 2, 3], [1, 5]), ([1, 2], [1, 2, 3, 4]), ([], []), ([], [1]), ([1], []), ({}, {}),
    ({}, {"a": 1}), ({"a": 1}, {}), ([1, None], [1]), (["", 1], [1, ""]), ([True], [1]), (1, "1"), (5, ""), (None, "null"),
    ([0, 1, {"k1": 22, "key5": "alpha", "key6": 22}], ["q", "q", {"k1": 22, "key6": 22, "new": "v"}]),
    ([[[2]]], [[], [[10, "a"]]]), ({"a": {"b": [1, 2, 3]}}, {"a": {"b": [1, 3]}, "c": None}),
    ([1, 2, 3, 4, 5], [1, 2, 9, 4, 5]), (["a", "b", "c"], ["c", "b", "a"]), ({"a": 1, "b": 2}, {"b": 2, "a": 1}),
    ({"a": 1, "b": 2}, {"a": 2, "b": 1}), ([{"a": 1}], [{"a": 1}, {"a": 1}]), ([[1, 2], [3]], [[3], [1, 2]]),
    ({"ab": [1, 2], "ac": [1, 2]}, {"ab": [1, 2, 3]}), ([1, [2, 3]], [1, 7]), ([1, {"a": 2}], [{"a": 2}, 1]),
    ({"a": [1, 2]}, {"a": {"b": 1}}), ({"a": 1}, [1]), ([1, 2, 3], 4), ({'"': '"'}, {'"': "'"}), ({"a,b": 1}, {"a": 1, "b": 1}),
    ({"->": "~~"}, {"->": "++"}), ([1, 2, 3, 4], [3, 4]), ([1, 2, 3, 4], [1, 2]), ([1, 2], [3, 1, 2]),
    ([1, 2, 3, 4], [5, 6]), ([[1], [2], [3]], [[1], [4]]), (["x", "y"], [["x"], "y", "z"]),
    ({"k": "abc"}, {"kk": "abc"}), ({"key": 1, "kez": 2}, {"kea": 1}), (1.5, 2.25), ([1.5], [1.5, 1e16]),
]


def small_universe():
    """every document of a small scope: atoms, lists of length <= 2, mappings with <= 2 of the keys a, b"""
    atoms = [1, 2, "a", "ab", 'b"', None]
    elems = [1, 2, "a", [1]]
    lists = [[]] + [[x] for x in elems] + [[x, y] for x in elems for y in elems]
    vals = [1, "a", [1]]
    dicts = [{}] + [{k: v} for k in "ab" for v in vals] + [{"a": v, "b": w} for v in vals for w in vals]
    return atoms, lists, dicts


def exhaustive():
    atoms, lists, dicts = small_universe()
    U = atoms + lists + dicts
    cases = []
    n = 0
    for a in U:
        for b in U:
            n += 1
            cases.append({"f": a, "t": b, "opts": {}, "jl": bool(n & 1), "jd": bool(n & 2)})
    for a in dicts + [[d] for d in dicts[:6]]:
        for b in dicts + [[d] for d in dicts[:6]]:
            for o in OPT_SETS[1:3]:
                n += 1
                cases.append({"f": a, "t": b, "opts": o, "jl": bool(n & 1), "jd": bool(n & 2)})
    for a in lists:
        for b in lists:
            for o in OPT_SETS[3:5]:
                n += 1
                cases.append({"f": a, "t": b, "opts": o, "jl": bool(n & 1), "jd": bool(n & 2)})
    return cases


def gen(rng, tier):
    n = 260 if tier == "quick" else 16000
    cases = []
    if tier != "quick":
        cases += exhaustive()
    for i, (f, t) in enumerate(FORCED):
        for k, o in enumerate(OPT_SETS if tier != "quick" else OPT_SETS[:3]):
            cases.append({"f": f, "t": t, "opts": o, "jl": bool((i + k) & 1), "jd": bool((i + k) & 2)})
    # every hostile string against a near miss, at the root, in a list and as key / value of a mapping
    for i, h in enumerate(HOSTILE):
        g = almost_str(rng, h)
        shape = i % 4
        f, t = [(h, g), ([h, 1], [g, 1, h]), ({h: 1, "z": h}, {g: 1, "z": g}), ({"k": [h]}, {"k": [g, h]})][shape]
        cases.append({"f": f, "t": t, "opts": rng.choice(OPT_SETS[:3]), "jl": rng.random() < 0.5, "jd": rng.random() < 0.5})
    for _ in range(n):
        hostile = rng.choice([0.0, 0.3, 0.3, 0.7, 1.0])
        a = gen_doc(rng, hostile)
        b = mutate(rng, a, hostile) if rng.random() < 0.8 else gen_doc(rng, hostile)
        cases.append({"f": a, "t": b, "opts": rng.choice(OPT_SETS), "jl": rng.random() < 0.5, "jd": rng.random() < 0.5})
    for _ in range(n // 6):
        a, b = S.collide(rng, gen_doc(rng, rng.choice([0.0, 0.3])))
        cases.append({"f": a, "t": b, "opts": rng.choice(OPT_SETS), "jl": rng.random() < 0.5, "jd": rng.random() < 0.5})
    for _ in range(n // 8):
        k = "".join(rng.choice("abk") for _ in range(rng.randint(2, 5)))
        k2 = k[:-1] + rng.choice("xyz")
        v = rng.choice([1, "v", "bob", [1], {"q": 1}])
        big = rng.choice([[1, 2, 3, 4], {"a": ["aa"], "b": 2}, "a long string value", [[1, 2], [3, 4]]])
        a, b = {k: v}, {k2: v, rng.choice(["d", "zz", "extra"]): big}
        if rng.random() < 0.4:
            a, b = b, a
        cases.append({"f": a, "t": b, "opts": rng.choice(OPT_SETS[:3]), "jl": rng.random() < 0.5, "jd": rng.random() < 0.5})
    for _ in range(n // 8):
        a = gen_doc(rng, rng.choice([0.0, 0.5, 1.0]))
        cases.append({"f": a, "t": S.shuffled(rng, a), "opts": rng.choice(OPT_SETS), "jl": rng.random() < 0.5,
                      "jd": rng.random() < 0.5})
    # cases travel to the worker as JSON text: a lone high surrogate next to a lone low one comes back as ONE astral
    # character, so take the round-tripped documents as the case
    return json.loads(json.dumps(cases))


def shrink(case):
    for c in S.shrink(case):
        yield c
    for k in ("jl", "jd"):
        if case.get(k):
            yield dict(case, **{k: False})


# ------------------------------------------------------------------------------------------------ implementation side

def worker_init():
    S.worker_init()


class Unrecoverable(Exception):
    pass


def recover(raw):
    """raw printer output -> list of [char, mark] (whitespace still included)."""
    out = []
    bg = None      # None | 'red' | 'green'
    fg = None      # only cyan matters
    i = 0
    n = len(raw)
    while i < n:
        c = raw[i]
        if c == "\x1b":
            j = i + 1
            if j >= n or raw[j] != "[":
                raise Unrecoverable(f"bare ESC at {i}")
            j += 1
            k = j
            while k < n and (raw[k].isdigit() or raw[k] == ";"):
                k += 1
            if k >= n or raw[k] != "m":
                raise Unrecoverable(f"unknown escape sequence at {i}")
            for code in raw[j:k].split(";"):
                code = int(code) if code else 0
                if code == 0:
                    bg = None      # SGR 0 resets everything
                    fg = None
                elif code == 41:
                    bg = "red"
                elif code == 42:
                    bg = "green"
                elif code == 49:
                    bg = None
                elif 40 <= code <= 47 or 100 <= code <= 107:
                    bg = "other"
                elif code == 36:
                    fg = "cyan"
                elif 30 <= code <= 39 or 90 <= code <= 97:
                    fg = None
            i = k + 1
            continue
        if c in (STRIKE, UPLUS):
            raise Unrecoverable(f"combining mark without a base character at {i}")
        i += 1
        struck = plus = False
        while i < n and raw[i] in (STRIKE, UPLUS):
            if raw[i] == STRIKE:
                struck = True
            else:
                plus = True
            i += 1
        # (raw DEL / non-ASCII characters are legal JSON: whether the projections still read back is decided by json.loads in the
        # monitor, not by a character class here; the correspondence with the model, which escapes them, is a separate question)
        rem = struck or bg == "red"
        ins = plus or bg == "green"
        if (rem and ins) or bg == "other":
            raise Unrecoverable(f"character {c!r} at {i} is marked both removed and inserted")
        if fg == "cyan":
            # the cyan " -> "; it can sit on a red background when an edit is printed inside another one
            if struck or plus:
                raise Unrecoverable("arrow with a combining mark")
            m = ARROW
        else:
            m = REMOVED if rem else INSERTED if ins else PLAIN
        out.append([c, m])
    return out


def drop_ws(seq):
    """drop blanks and newlines outside string literals (escape sequences are written atomically, so a backslash
    always protects the next character)"""
    out = []
    in_str = False
    esc = False
    for c, m in seq:
        if in_str:
            out.append([c, m])
            if esc:
                esc = False
            elif c == "\\":
                esc = True
            elif c == '"':
                in_str = False
        else:
            if c in " \n":
                continue
            out.append([c, m])
            if c == '"':
                in_str = True
    if in_str:
        raise Unrecoverable("unterminated string literal")
    return out


def _print(diff, jl, jd, ansi=True):
    from graphtage import json as gj
    from graphtage.printer import Printer
    s = io.StringIO()
    p = Printer(out_stream=s, ansi_color=ansi, quiet=True, options={"join_lists": jl, "join_dict_items": jd})
    gj.JSONFormatter.DEFAULT_INSTANCE.print(p, diff)
    return s.getvalue()


def impl(case):
    import graphtage
    from graphtage import json as gj
    del S._RECORD[:]
    o = graphtage.BuildOptions(**case.get("opts", {}))
    A = gj.build_tree(case["f"], o)
    B = gj.build_tree(case["t"], o)
    diff = A.diff(B)
    raw = _print(diff, case.get("jl", False), case.get("jd", False))
    obs = {"oracle": list(S._RECORD), "rawlen": len(raw)}
    try:
        seq = drop_ws(recover(raw))
        obs["c"] = [ord(c) for c, _ in seq]
        obs["m"] = [m for _, m in seq]
    except Unrecoverable as e:
        obs["unrecoverable"] = str(e)
        obs["raw"] = raw[:2000]
        return obs
    # the same diff under the opposite layout: only whitespace may change
    raw2 = _print(diff, not case.get("jl", False), not case.get("jd", False))
    try:
        seq2 = drop_ws(recover(raw2))
        obs["layout_same"] = seq2 == seq
    except Unrecoverable as e:
        obs["layout_same"] = False
    obs["multiline"] = "\n" in raw or "\n" in raw2
    # the in-band (plain text) rendering of the same diff, in both layouts
    try:
        obs["plain"] = [_print(diff, case.get("jl", False), case.get("jd", False), ansi=False),
                        _print(diff, not case.get("jl", False), not case.get("jd", False), ansi=False)]
    except Exception as e:  # noqa
        obs["plain_error"] = type(e).__name__ + ": " + str(e)[:200]
    # C05 ("any setting of ... colour output yields the same ... script"): the coloured text without its decorations (ANSI
    # escapes, the combining strike / plus marks) is the plain text without its ~~ / ++ markers
    if "plain" in obs:
        import re
        ctext = re.sub(r"\x1b\[[0-9;]*m", "", raw).replace("\u0336", "").replace("\u031f", "")
        ptext = obs["plain"][0].replace("~~", "").replace("++", "")
        obs["colour_text_same"] = ctext == ptext
        if ctext != ptext:
            obs["colour_text"] = [ctext[:600], ptext[:600]]
    # a fresh diff of fresh trees prints the same (printing has no hidden state)
    d2 = gj.build_tree(case["f"], o).diff(gj.build_tree(case["t"], o))
    obs["repeat_same"] = _print(d2, case.get("jl", False), case.get("jd", False)) == raw
    # the script the printer walked (dumped AFTER printing, so that reading bounds cannot influence the output)
    try:
        obs["script"] = S.dump(diff.edit)
    except Exception as e:  # noqa
        obs["script"] = ["dump-error", repr(e)[:200]]
    return obs


# ------------------------------------------------------------------------------------------------ model side

def to_model(case, obs):
    if not isinstance(obs, dict) or obs.get("error") or "c" not in obs:
        return None
    o = case.get("opts", {})
    return {"s": "render", "f": S.enc(case["f"]), "t": S.enc(case["t"]),
            "ake": o.get("allow_key_edits", True), "amk": o.get("auto_match_keys", True),
            "ale": o.get("allow_list_edits", True), "alesl": o.get("allow_list_edits_when_same_length", True),
            "oracle": [r for r in obs.get("oracle", []) if "pairs" in r]}


def expect(case, obs):
    # "wf": the model's executable check that the script is a well-formed edit (hypothesis of the C06 theorems)
    return {"c": obs["c"], "m": obs["m"], "script": obs["script"], "wf": True}


# ------------------------------------------------------------------------------------------------ monitor

PUNCT = "[]{}:,"


def tokens(text):
    """JSON tokenizer: strings as single tokens, punctuation, maximal runs of anything else as literals."""
    toks = []
    i = 0
    n = len(text)
    while i < n:
        c = text[i]
        if c == '"':
            j = i + 1
            while j < n and text[j] != '"':
                j += 2 if text[j] == "\\" else 1
            toks.append(text[i:j + 1])
            i = j + 1
        elif c in PUNCT:
            toks.append(c)
            i += 1
        else:
            j = i
            while j < n and text[j] not in PUNCT and text[j] != '"':
                j += 1
            toks.append(text[i:j])
            i = j
    return toks


def repair(text):
    """ignore the commas of the projection, then put one comma between every two adjacent values"""
    toks = [t for t in tokens(text) if t != ","]
    out = []
    for k, t in enumerate(toks):
        if k > 0:
            a = toks[k - 1]
            ends_value = a not in ("[", "{", ":")
            starts_value = t not in ("]", "}", ":")
            if ends_value and starts_value:
                out.append(",")
        out.append(t)
    return "".join(out)


class Dup(Exception):
    pass


def _pairs(ps):
    d = {}
    for k, v in ps:
        if k in d:
            raise Dup(k)
        d[k] = v
    return d


def parse_projection(text):
    return json.loads(repair(text), object_pairs_hook=_pairs)


# ---- the plain-text (in-band) rendering

class PlainError(Exception):
    pass


def plain_domain(x):
    """no string and no key contains `~` or `+` (see the module docstring)"""
    if isinstance(x, str):
        return "~" not in x and "+" not in x
    if isinstance(x, list):
        return all(plain_domain(c) for c in x)
    if isinstance(x, dict):
        return all(plain_domain(k) and plain_domain(v) for k, v in x.items())
    return True


def plain_tokens(text):
    """tokens of the in-band rendering: ("p", ch) punctuation, ("rm",) `~~`, ("ins",) `++`, ("arrow",) `->`,
    ("str", first, second, marked) a string literal with its toggles resolved (JSON-escaped bodies), ("lit", text)"""
    toks = []
    i, n = 0, len(text)
    while i < n:
        c = text[i]
        if c in " \n\t\r":
            i += 1
        elif c in PUNCT:
            toks.append(("p", c))
            i += 1
        elif text.startswith("~~", i):
            toks.append(("rm",))
            i += 2
        elif text.startswith("++", i):
            toks.append(("ins",))
            i += 2
        elif text.startswith("->", i):
            toks.append(("arrow",))
            i += 2
        elif c == '"':
            i += 1
            first, second = [], []
            rem = ins = marked = False
            while True:
                if i >= n:
                    raise PlainError("unterminated string literal")
                if text.startswith("~~", i):
                    if ins:
                        raise PlainError("`~~` inside an inserted run of a string")
                    rem, marked = not rem, True
                    i += 2
                    continue
                if text.startswith("++", i):
                    if rem:
                        raise PlainError("`++` inside a removed run of a string")
                    ins, marked = not ins, True
                    i += 2
                    continue
                ch = text[i]
                if ch == '"':
                    if rem or ins:
                        raise PlainError("string literal ends inside a " + ("removed" if rem else "inserted") + " run (closing delimiter missing)")
                    i += 1
                    break
                if ch == "\\":
                    if i + 1 >= n:
                        raise PlainError("dangling backslash")
                    ch = text[i:i + 2]
                    i += 2
                else:
                    i += 1
                if not ins:
                    first.append(ch)
                if not rem:
                    second.append(ch)
            toks.append(("str", "".join(first), "".join(second), marked))
        else:
            j = i
            while j < n and text[j] not in PUNCT and text[j] not in ' "\n\t\r' and not (text.startswith("~~", j) or text.startswith("++", j) or text.startswith("->", j)):
                j += 1
            if j == i:
                raise PlainError(f"unexpected character {c!r}")
            toks.append(("lit", text[i:j]))
            i = j
    return toks


def parse_plain(text):
    """(first document, second document, any mark present) read from the in-band rendering; PlainError / Dup / ValueError if the text does
    not follow the grammar of the module docstring"""
    toks = plain_tokens(text)
    pos = [0]
    marks = [False]

    def peek():
        return toks[pos[0]] if pos[0] < len(toks) else ("eof",)

    def take(kind=None, ch=None):
        t = peek()
        if (kind is not None and t[0] != kind) or (ch is not None and (len(t) < 2 or t[1] != ch)):
            raise PlainError(f"expected {ch or kind}, found {t[:2]} at token {pos[0]}")
        pos[0] += 1
        return t

    def string(t):
        if t[3]:
            marks[0] = True
        return json.loads('"' + t[1] + '"'), json.loads('"' + t[2] + '"')

    def value():
        t = peek()
        if t[0] == "str":
            take()
            return string(t)
        if t[0] == "lit":
            take()
            v = json.loads(t[1])
            return v, v
        if t == ("p", "["):
            take()
            a, b = [], []
            for fp, fv, sp, sv in items(False, "]"):
                if fp:
                    a.append(fv)
                if sp:
                    b.append(sv)
            return a, b
        if t == ("p", "{"):
            take()
            a, b = {}, {}
            for fp, fv, sp, sv in items(True, "}"):
                for present, (k, v), d, side in ((fp, fv or (None, None), a, "first"), (sp, sv or (None, None), b, "second")):
                    if present:
                        if k in d:
                            raise Dup((side, k))
                        d[k] = v
            return a, b
        raise PlainError(f"a value cannot start with {t[:2]} at token {pos[0]}")

    def changed_value():
        a = value()
        if peek()[0] == "arrow":
            take()
            marks[0] = True
            b = value()
            return a[0], b[1]
        return a

    def thing(in_dict):
        if not in_dict:
            return changed_value()
        t = take("str")
        k1, k2 = string(t)
        if peek()[0] == "arrow":
            take()
            marks[0] = True
            k2 = string(take("str"))[1]
        take("p", ":")
        v1, v2 = changed_value()
        return (k1, v1), (k2, v2)

    def item(in_dict):
        t = peek()
        if t[0] in ("rm", "ins"):
            take()
            marks[0] = True
            a, b = thing(in_dict)
            take(t[0])          # the closing delimiter
            return (True, a, False, None) if t[0] == "rm" else (False, None, True, b)
        a, b = thing(in_dict)
        return (True, a, True, b)

    def items(in_dict, close):
        out = []
        if peek() == ("p", close):
            take()
            return out
        while True:
            out.append(item(in_dict))
            t = take("p")
            if t[1] == close:
                return out
            if t[1] != ",":
                raise PlainError(f"expected , or {close}, found {t[1]!r}")

    first, second = changed_value()
    if peek()[0] != "eof":
        raise PlainError(f"text after the document: {peek()[:2]} at token {pos[0]}")
    return first, second, marks[0]


def _has_marks_chars(case):
    """documents containing the combining marks or ESC themselves: stripping decorations would strip data"""
    t = json.dumps([case["f"], case["t"]], ensure_ascii=False)
    return any(c in t for c in ("\u0336", "\u031f", "\x1b")) or "\\u001b" in t or "\\u0336" in t or "\\u031f" in t


def monitor_plain(case, obs):
    P = "C06"
    if not (plain_domain(case["f"]) and plain_domain(case["t"])):
        return []
    if "plain_error" in obs:
        return [{"prop": P, "key": "plain:print-raises", "what": "printing the diff without colour raised " + obs["plain_error"]}]
    hits = []
    de = S.data_eq(case["f"], case["t"])
    for which, text in zip(("", "other-layout:"), obs.get("plain") or []):
        try:
            first, second, has_marks = parse_plain(text)
        except Dup as e:
            hits.append({"prop": P, "key": f"plain:{e.args[0][0]}:duplicate-key", "what": f"plain-text rendering: the {e.args[0][0]} document read back has the key {e.args[0][1]!r} twice: {text[:300]!r}"})
            continue
        except (PlainError, ValueError) as e:
            hits.append({"prop": P, "key": "plain:unparsable", "what": f"plain-text rendering ({which or 'requested layout'}) cannot be read back: {e}: {text[:300]!r}"})
            continue
        for side, back, doc in (("first", first, case["f"]), ("second", second, case["t"])):
            d = S.data_eq(back, doc)
            if d is False or (d is None and back != doc):
                hits.append({"prop": P, "key": f"plain:{side}:different",
                             "what": f"plain-text rendering: the {side} document read back is {json.dumps(back)[:200]}, expected {json.dumps(doc)[:200]}; text {text[:300]!r}"})
        if de is not None:
            if de and has_marks:
                hits.append({"prop": P, "key": "plain:marks-on-equal", "what": f"the documents are equal as data but the plain-text rendering carries marks: {text[:300]!r}"})
            if not de and not has_marks:
                hits.append({"prop": P, "key": "plain:no-marks-on-different", "what": f"the documents differ but the plain-text rendering carries no mark: {text[:300]!r}"})
    return hits


def monitor(case, obs):
    P = "C06"
    if not isinstance(obs, dict):
        return [{"prop": P, "key": "bad-observation", "what": repr(obs)[:200]}]
    if obs.get("error"):
        return [{"prop": P, "key": "internal-error:" + str(obs.get("exc", obs["error"])),
                 "what": f"{obs.get('exc', obs['error'])}: {obs.get('msg', '')}"}]
    if "unrecoverable" in obs:
        return [{"prop": P, "key": "marks-unrecoverable", "what": "the change marks cannot be recovered from the output: " + obs["unrecoverable"]}]
    hits = []
    chars = [chr(c) for c in obs["c"]]
    marks = obs["m"]
    for side, keep, doc in (("first", (PLAIN, REMOVED), case["f"]), ("second", (PLAIN, INSERTED), case["t"])):
        text = "".join(c for c, m in zip(chars, marks) if m in keep)
        try:
            back = parse_projection(text)
        except Dup as e:
            hits.append({"prop": P, "key": f"{side}:duplicate-key", "what": f"the {side} document's projection has the key {e.args[0]!r} twice: {text[:300]}"})
            continue
        except ValueError as e:
            hits.append({"prop": P, "key": f"{side}:unparsable", "what": f"deleting the {'inserted' if side == 'first' else 'removed'} text leaves text that does not parse ({e}): {text[:300]}"})
            continue
        de = S.data_eq(back, doc)
        if de is False or (de is None and back != doc):
            hits.append({"prop": P, "key": f"{side}:different", "what": f"the {side} document read back from the rendering is {json.dumps(back)[:200]}, expected {json.dumps(doc)[:200]}"})
    has_marks = any(m != PLAIN for m in marks)
    de = S.data_eq(case["f"], case["t"])
    if de is not None:
        if de and has_marks:
            hits.append({"prop": P, "key": "marks-on-equal", "what": "the documents are equal as data but the rendering carries change marks"})
        if not de and not has_marks:
            hits.append({"prop": P, "key": "no-marks-on-different", "what": "the documents differ but the rendering carries no change marks"})
    if obs.get("layout_same") is False:
        hits.append({"prop": P, "key": "layout-changes-content", "what": "join_lists/join_dict_items change more than whitespace"})
    if obs.get("repeat_same") is False:
        hits.append({"prop": P, "key": "render-not-repeatable", "what": "rendering a fresh diff of the same documents gives a different text"})
    if obs.get("colour_text_same") is False and plain_domain(case["f"]) and plain_domain(case["t"]) and not _has_marks_chars(case):
        hits.append({"prop": "C05", "key": "colour-changes-printed-script", "what": "the printed diff differs between colour on and off beyond the decorations: colour " + repr(obs["colour_text"][0][:200]) + " plain " + repr(obs["colour_text"][1][:200])})
    return hits + monitor_plain(case, obs)


def classify(case, obs):
    if not isinstance(obs, dict) or obs.get("error") or "c" not in obs:
        return "error"
    kinds = set()

    def rec(n):
        if isinstance(n, list) and len(n) == 5:
            kinds.add(n[0])
            for s in n[4]:
                rec(s)
    rec(obs.get("script"))
    o = case.get("opts", {})
    tag = "none" if not o.get("allow_key_edits", True) else ("match" if not o.get("auto_match_keys", True) else "auto")
    if not o.get("allow_list_edits", True):
        tag += "-l"
    if not o.get("allow_list_edits_when_same_length", True):
        tag += "-ll"
    comp = "+".join(sorted(k for k in kinds if k in ("ed", "fixed", "ms", "fk", "str", "kvp", "replace"))) or "leaf"
    ms = set(obs["m"])
    mk = "".join(ch for ch, v in (("r", REMOVED), ("i", INSERTED), ("a", ARROW)) if v in ms) or "-"
    nonascii = any(ord(ch) > 126 or ord(ch) < 32 for ch in json.dumps([case["f"], case["t"]], ensure_ascii=False))
    n = len(obs["c"])
    size = "s" if n < 20 else "m" if n < 120 else "l"
    pl = "plain-text:checked" if plain_domain(case["f"]) and plain_domain(case["t"]) and obs.get("plain") else "plain-text:outside-domain"
    return f"{tag}|{comp}|marks={mk}|{'hostile' if nonascii or chr(92) in json.dumps([case['f'], case['t']]) else 'tame'}|{size}|{pl}"


def nontrivial(case, obs):
    return isinstance(obs, dict) and not obs.get("error") and "c" in obs and len(obs["c"]) > 2

from . import render as _base
from ._optimized import install

install(globals(), _base)

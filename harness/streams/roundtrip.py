"""Stream `roundtrip` (C12): load a document with the real loader, print the UNEDITED tree with the file type's
default formatter, load the printed text again with the same loader, compare the two trees.

Case      {"fmt": json|json5|csv|yaml|plist|xml, "doc": <tagged document>, "src": {...source-dump options},
           optional "pre": {"fmt", "doc", "src"} = a document of another format that the SAME Printer object prints first}
          documents are tagged (see `enc`): strings are code-point lists so that lone surrogates, NUL, astral
          characters ... survive every JSON hop; floats are carried as their `repr` text.
          csv : {"k":"csv","rows":[[cell code points,...],...]}       xml : {"k":"xml","tag","attrib","text","children"}
Observation {"stage": ok|load1-raises|print-raises|reload-rejects, "eq": tree1 == tree2, "obj1"/"obj2": tagged
          `to_obj()` of both trees, "printed": code points of the printed text, ...}

Comparison of data (`obj1` vs `obj2`): floats by `repr` (so -0.0 and 0.0 are DIFFERENT, NaN equals NaN), ints exact,
bool/int distinct, strings by code points, mappings in tree order (DictNode sorts at load; both sides are loaded).
`tree1 == tree2` is additionally required, except for documents that contain NaN (NaN != NaN in Python; stated in
NOTES) .  XML text is compared modulo surrounding whitespace (as XMLElement.__eq__ does).

YAML / plist / XML have no model: the stream is the evidence.  Their numbers come from the same pools as JSON's (extreme, subnormal,
exponent-form, negative zero, +-inf, 64-bit boundaries and beyond - plist sources with integers outside [-2**63, 2**64) are written
by hand because plistlib's writer refuses them, its reader does not), YAML strings include every kind of plain scalar a YAML 1.1
resolver reads as something else (`YAML_LOOKALIKES`); other strings stay alphanumeric (the plist formatter does not escape, the YAML
formatter has the two findings in `YAML_FINDINGS`).

Model tie (json, json5, csv): the Lean model prints the same document (`GtModel.RoundTrip.printJson/printCsv`);
its text must equal the real printed text EXACTLY (including the Printer's newline/indent layout), and the model's
reader applied to the REAL printed text must return the document.
"""
import io, json, math, os, struct

NAME = "roundtrip"
ENV = {"PYTHONUTF8": "1"}          # the JSON/JSON5/CSV loaders open() files in the locale encoding

FORMATS = ("json", "json5", "csv", "yaml", "plist", "xml")


# ------------------------------------------------------------------------------------------------ encoding

def cps(s):
    return [ord(c) for c in s]


def uncps(l):
    return "".join(chr(c) for c in l)


def enc(x):
    if x is None:
        return {"k": "null"}
    if isinstance(x, bool):
        return {"k": "bool", "v": x}
    if isinstance(x, int):
        return {"k": "int", "v": x}
    if isinstance(x, float):
        return {"k": "float", "s": cps(repr(x))}
    if isinstance(x, str):
        return {"k": "str", "s": cps(x)}
    if isinstance(x, bytes):
        return {"k": "bytes", "s": list(x)}
    if isinstance(x, (list, tuple)):
        return {"k": "list", "c": [enc(c) for c in x]}
    if isinstance(x, dict):
        return {"k": "dict", "c": [[enc_key(k), enc(v)] for k, v in x.items()]}
    return {"k": "other", "s": cps(repr(x))}


def enc_key(k):
    return cps(k) if isinstance(k, str) else {"nonstr": enc(k)}


def dec(e):
    k = e["k"]
    if k == "null":
        return None
    if k in ("bool", "int"):
        return e["v"]
    if k == "float":
        return float(uncps(e["s"]))
    if k == "str":
        return uncps(e["s"])
    if k == "list":
        return [dec(c) for c in e["c"]]
    if k == "dict":
        return {(uncps(kk) if isinstance(kk, list) else dec(kk["nonstr"])): dec(v) for kk, v in e["c"]}
    raise ValueError(k)


# ------------------------------------------------------------------------------------------------ alphabets

CHAR_CLASSES = {
    "alnum": [ord(c) for c in "abzAZ019"],
    "space": [0x20],
    "quote": [0x22],
    "backslash": [0x5c],
    "slash": [0x2f],
    "apos": [0x27],
    "punct": [ord(c) for c in "!#$%&()*+,-.:;<=>?@[]^_`{|}~"],
    "nl": [0x0a],
    "cr": [0x0d],
    "tab": [0x09],
    "bs-ff": [0x08, 0x0c],
    "ctrl": [0x00, 0x01, 0x07, 0x0b, 0x0e, 0x1b, 0x1c, 0x1d, 0x1e, 0x1f],
    "del": [0x7f],
    "c1": [0x80, 0x85, 0x9f],
    "nbsp": [0xa0],
    "latin1": [0xe9, 0xff, 0xa1, 0xad],
    "bmp": [0x100, 0x3b1, 0x7ff, 0x800, 0x4e2d, 0xd7ff, 0xe000, 0xf8ff, 0xfffd, 0x0301, 0x0336, 0x031f, 0x200b, 0x202e],
    "ls-ps": [0x2028, 0x2029],
    "bom": [0xfeff],
    "nonchar": [0xfffe, 0xffff, 0xfdd0, 0xfdef],
    "astral": [0x10000, 0x1f600, 0x1d11e, 0x2f800, 0xe0001, 0xf0000, 0x1fffe, 0x10fffe, 0x10ffff, 0xfffff, 0x100000],
    "surr-hi": [0xd800, 0xdbff, 0xd83d],
    "surr-lo": [0xdc00, 0xdfff, 0xde00],
}
# priority order used for the monitor's sub-key (most specific / most hostile first)
CLASS_PRIORITY = ["surr-hi", "surr-lo", "astral", "nonchar", "bom", "ls-ps", "ctrl", "bs-ff", "del", "c1", "nbsp", "cr", "nl",
                  "tab", "quote", "backslash", "slash", "apos", "bmp", "latin1", "punct", "space", "alnum"]


def char_class(c):
    for name in CLASS_PRIORITY:
        if c in CHAR_CLASSES[name]:
            return name
    if 0xd800 <= c <= 0xdbff:
        return "surr-hi"
    if 0xdc00 <= c <= 0xdfff:
        return "surr-lo"
    if c >= 0x10000:
        return "astral"
    if c < 0x20:
        return "ctrl"
    if c < 0x7f:
        return "alnum" if chr(c).isalnum() else "punct"
    if c < 0xa0:
        return "c1"
    if c < 0x100:
        return "latin1"
    return "bmp"


JSON_CLASSES = [k for k in CHAR_CLASSES]
CSV_CLASSES = [k for k in CHAR_CLASSES if not k.startswith("surr")]     # a UTF-8 file cannot carry lone surrogates
ALNUM = "abcdefghijklmnopqrstuvwxyzABCDEFGHIJKLMNOPQRSTUVWXYZ0123456789"
LETTERS = "abcdefghijklmnopqrstuvwxyzABCDEFGHIJKLMNOPQRSTUVWXYZ"


def hostile_str(r, classes, maxlen=8):
    """A string over a few randomly chosen character classes (so that interactions between two classes occur often)."""
    n = r.choice([0, 1, 1, 2, 3, 5, maxlen])
    if n == 0:
        return ""
    ks = r.sample(classes, r.choice([1, 1, 2, 3]))
    if r.random() < 0.5:
        ks.append("alnum")
    out = []
    for _ in range(n):
        k = r.choice(ks)
        if r.random() < 0.1:
            # any scalar of the whole code space
            c = r.choice([r.randrange(0, 0x80), r.randrange(0x80, 0x800), r.randrange(0x800, 0xd800), r.randrange(0xe000, 0x10000),
                          r.randrange(0x10000, 0x110000)])
            if "surr-hi" in classes and r.random() < 0.1:
                c = r.randrange(0xd800, 0xe000)
            if "nl" not in classes and c in (0x0a, 0x0d):
                c = 0x61
            out.append(c)
        else:
            out.append(r.choice(CHAR_CLASSES[k]))
    return uncps(out)


INTS = [0, 1, -1, 7, 10, 255, -256, 2 ** 31, -2 ** 31, 2 ** 53, 2 ** 53 + 1, -(2 ** 53) - 1, 2 ** 63, 2 ** 64, -(2 ** 64), 10 ** 30,
        -(10 ** 30), 10 ** 30 + 1, 10 ** 100, 123456789012345678901234567890, -9, 99, 100, 1000000]
FLOATS = [0.0, -0.0, 0.1, -0.1, 1.5, 1.0, -1.0, 1e16, 1e15, 123456789012345680.0, 1e21, 1e22, 1e-7, 1e-4, 1e-5, 5e-324, -5e-324,
          2.2250738585072014e-308, 2.225073858507201e-308, 1.7976931348623157e308, -1.7976931348623157e308, 0.30000000000000004,
          3.141592653589793, 1e100, 1.0000000000000002, 9007199254740993.0, 4.35, 2.5e-10, 1e300]
SPECIAL_FLOATS = [float("inf"), float("-inf"), float("nan")]


def rand_float(r):
    while True:
        x = struct.unpack("<d", struct.pack("<Q", r.getrandbits(64)))[0]
        if math.isfinite(x):
            return x


def rand_int(r):
    k = r.random()
    if k < 0.5:
        return r.choice(INTS)
    if k < 0.8:
        return r.randint(-1000, 1000)
    return r.choice([1, -1]) * r.getrandbits(r.choice([16, 40, 64, 100, 200]))


def json_scalar(r, classes, special):
    k = r.random()
    if k < 0.45:
        return hostile_str(r, classes)
    if k < 0.6:
        return rand_int(r)
    if k < 0.8:
        if special and r.random() < 0.25:
            return r.choice(SPECIAL_FLOATS)
        return r.choice(FLOATS) if r.random() < 0.7 else rand_float(r)
    return r.choice([True, False, None])


def json_doc(r, classes, special, d=0, maxd=4):
    k = r.random()
    if d >= maxd or k < 0.35:
        return json_scalar(r, classes, special)
    n = r.choice([0, 1, 1, 2, 3, 4])
    if k < 0.68:
        return [json_doc(r, classes, special, d + 1, maxd) for _ in range(n)]
    return {hostile_str(r, classes, 5): json_doc(r, classes, special, d + 1, maxd) for _ in range(n)}


def deep(r, depth, leaf, kinds="ld"):
    x = leaf
    for i in range(depth):
        if r.choice(kinds) == "l":
            x = [x] if r.random() < 0.7 else [1, x]
        else:
            x = {"k%d" % (i % 3): x}
    return x


def csv_cell(r):
    k = r.random()
    if k < 0.12:
        return ""
    if k < 0.35:
        return "".join(r.choice(ALNUM) for _ in range(r.randint(1, 5)))
    if k < 0.5:
        return r.choice([" ", " a", "a ", " a ", "a b", "\t", ",", '"', '""', "\n", "\r", "\r\n", "a,b", 'a"b', '"a"', "a\nb", "a\rb", "a\r\nb",
                         "'", "a'b", ";", "1", "-1", "1.5", "true", "null", "é", "\u00a0", "\ufeff", "\U0001f600", "\x00", "a\x00b",
                         "\u2028", "\x0b", "\x0c", "\x1c", "\x85", "\\", "\\n", '\\"', "#", "=1+1", '"\n"', ',"', '",', '\n"', '"\n', ',\n',
                         "\n,", "\n\n", ",,"])
    return hostile_str(r, CSV_CLASSES, 6)


def csv_table(r):
    k = r.random()
    if k < 0.08:
        return [[csv_cell(r)] for _ in range(r.randint(0, 4))]            # single column
    rows = []
    for _ in range(r.choice([0, 1, 1, 2, 3, 4, 6])):
        if r.random() < 0.12:
            rows.append([])                                                  # empty row
        else:
            rows.append([csv_cell(r) for _ in range(r.choice([1, 1, 2, 3, 4]))])
    return rows


def alnum_str(r, empty_ok=False):
    k = r.random()
    if empty_ok and k < 0.05:
        return ""
    if k < 0.2:
        return r.choice(["123", "0", "007", "1e3", "true", "false", "null", "yes", "no", "on", "off", "y", "n", "True", "NULL", "Null", "None",
                         "0x1F", "0o17", "0b1", "inf", "nan", "NaN", "1E5", "e", "E", "a1", "1a", "0e0", "12345678901234567890", "Y", "N",
                         "TRUE", "Yes", "ON", "1d", "0777", "1f", "Inf", "nil", "x" * 90])
    return "".join(r.choice(ALNUM) for _ in range(r.choice([1, 1, 2, 3, 5, 8, 20])))


# strings that a YAML 1.1 resolver reads as something else unless they are quoted (ints in other bases and with underscores, floats,
# sexagesimals, booleans, nulls, timestamps, merge / value keys), and strings made of indicator characters
YAML_LOOKALIKES = ["0x1F", "0xff", "0XFF", "0b101", "0o17", "017", "1_000", "0x_1", "yes", "Yes", "on", "OFF", "y", "N", "~", "null", "Null", "NULL", "true",
                   "False", "1e3", "1e+3", "1.0e3", "6.02E23", ".5", "+.5", "5.", "0.", "-0", "+1", "-1", "1.5", ".inf", "-.inf", ".Inf", ".nan", ".NaN",
                   "1:30", "190:20:30", "1:30.5", "2001-12-14", "2001-12-14T21:59:43Z", "2001-12-14 21:59:43", "2001-12-14t21:59:43.10-05:00",
                   "<<", "=", "-", "--", "---", "...", "?", "- a", "a: b", "a:", ":a", "a:b", "a #b", "@x", "%y", "!t", "&a", "*a", "[a", "{a", "]", "}", ",",
                   "'q", '"q', "it's", "|", ">", " lead", "trail ", "a  b", "`x", "a,b", "a\tb", "\u00e9"]


# shrunk inputs of genuine YAML findings outside the alphanumeric domain (kept visible; the monitor gives them keys of their own)
YAML_FINDINGS = [{"a": "#c"}, ["#c"], {"a b c " * 20: 1}]


def plain_number(r, fmt):
    """numbers for the formats without a model (YAML, plist): the JSON pools - extreme, exponent-form, subnormal, negative zero, 64-bit
    boundaries and beyond, random bit patterns - plus small ones"""
    k = r.random()
    if k < 0.35:
        return r.randint(-1000, 1000)
    if k < 0.6:
        return rand_int(r)
    if k < 0.65:
        return r.choice([2 ** 63 - 1, -(2 ** 63), 2 ** 63, 2 ** 64 - 1, 2 ** 64, -(2 ** 63) - 1, 2 ** 31 - 1, 2 ** 32, 2 ** 53])
    if k < 0.9:
        return r.choice(FLOATS)
    if k < 0.97:
        return rand_float(r)
    return r.choice(SPECIAL_FLOATS[:2])        # +-inf (both formats can write them); NaN only in forced cases (NaN != NaN)


def plain_scalar(r, fmt):
    k = r.random()
    if k < 0.45:
        return alnum_str(r)
    if k < 0.5 and fmt == "yaml":
        return r.choice(YAML_LOOKALIKES)
    if k < 0.84:
        return plain_number(r, fmt)
    if k < 0.9:
        return r.choice([True, False])
    return alnum_str(r) if fmt == "plist" else None


def plain_doc(r, fmt, d=0, maxd=4, nonempty=True):
    k = r.random()
    if d >= maxd or k < 0.3:
        return plain_scalar(r, fmt)
    n = r.choice([1, 1, 2, 3, 4]) if nonempty else r.choice([0, 1, 2, 3])
    if k < 0.65:
        return [plain_doc(r, fmt, d + 1, maxd, nonempty) for _ in range(n)]
    return {alnum_str(r): plain_doc(r, fmt, d + 1, maxd, nonempty) for _ in range(n)}


def xml_name(r):
    return r.choice(LETTERS) + "".join(r.choice(ALNUM) for _ in range(r.choice([0, 1, 2, 5, 12])))


def xml_doc(r, d=0, maxd=4):
    kids = [] if d >= maxd else [xml_doc(r, d + 1, maxd) for _ in range(r.choice([0, 0, 0, 1, 2, 3]))]
    return {"k": "xml", "tag": xml_name(r), "attrib": [[xml_name(r), alnum_str(r, empty_ok=True)] for _ in range(r.choice([0, 0, 1, 2, 3]))],
            "text": (alnum_str(r) if r.random() < 0.5 else None), "children": kids}


# ------------------------------------------------------------------------------------------------ generation

JSON5_SOURCES = [
    "{unquoted: 'single', 'a': \"b\", trailing: [1, 2,],}", "[+1, .5, 5., 0x1F, -0x10, +Infinity, -Infinity, Infinity]",
    "// comment\n[1, /* c */ 2]", "'line\\\ncontinued'", "'\\x41\\u0042\\0'", "{\"\\u0061\": 1, b: {c: {}}}", "[1e3, 1E-3, -0, -0.0, 0.0]",
    "\"\\ud83d\\ude00 \\ud800 \\udc00\"", "'\"'", "\"'\"", "{$id: 1, _x: 2, \\u0061b: 3}",
]

FORCED_JSON = [
    "", " ", "\"", "\\", "/", "\"\\/\b\f\n\r\t", "\x00", "\x1f", "\x7f", "\x80\x9f\xa0", "\u2028\u2029", "\ufeff", "\ufffe\uffff", "\U00010000",
    "\U0010ffff", "\ud800", "\udfff", "\udc00\ud800", "\ud800a", "a\udc00", "\ud800\ud800", "\U0001f600\ud83d", "\\u0041", "\\\"", "\\\\", "\"\"",
    "a\"b\\c/d", "\\n", "</script>", "\u0336\u031f", "é", "\u00ff\u0100", "\ud7ff\ue000", "null", "true", "1", "NaN", "'", "{", "[", "}", ",", ":",
    "\\ud800", "\ud83d\\ude00", "\t\n\r ", " lead", "trail ", "a\x00b",
]


JSON_TEXTS = [
    '"\\/"', '"\\u00E9\\u00e9"', '"\\uD83D\\uDE00"', '[1 , 2 ]', ' {"a" : [ ] } ', '[1,]', '{"a":1,}', '01', '-', '1.', '.5', '1e', '"\\x"', '"\t"',
    'nul', '[', ']', '', ' ', '1 2', '"a" "b"', '{"a"}', '{1:2}', "'a'", '-Infinity', '-NaN', 'Infinity', '+1', '-0', '-0.0', '1e+16', '[[[[[]]]]]',
    '{"":{"":{}}}', '\ufeff1', '"\\ud800"', '"\\udc00\\ud800"', '"\\ud800\\u0041"', '"\\ud800\\n"', '"\\ud83d\\ude0"', '"\\u12"', 'true false', 'tru',
    '[1,,2]', '[,1]', '{,}', '{"a":}', '{"a" 1}', '{"a":1 "b":2}', '"\\u0000"', '"\x7f"', 'NaN', 'nan', '\n\t\r [\n1\r,\t2 ]\n', '"\x0b"', '\x0b1', '\xa01',
    '[1]x', '[1] ', '"\\ud83d\\ude00\\ud83d"', '"\\ud83d\\ud83d\\ude00"', '"\\uDBFF\\uDFFF"', '"\\ud800\\udbff"', '"\\ud800\\ue000"', '"\\uZZZZ"', '"\\u 123"',
    '"\\u+123"', '"abc', '"abc\\', '"abc\\u', '{"a":1}}', '[[]', '0', '-1', '10', '1234567890123456789012345678901234567890', '-', '--1', '1-', '0x10',
    '1.5', '-1.5e-07', '1e-07', '2.5E-10', '{"a":{"b":[1,{"c":null}]},"d":true}', '[null,true,false]', '"\\b\\f\\n\\r\\t\\"\\\\"', 'null ', ' null', 'nullx', 'truefalse',
    '[true,false,null', 'Infinit', '-Infinit', '-I', 'N', 'I', 'Na', '[NaN]', '[-Infinity,Infinity]', '{"a":NaN}',
]
JSON_MUT = list('[]{},:"\\ \n0123456789.eE+-truefalsn/ux')
CSV_TEXT_ALPHABET = ["a", "b", ",", ",", '"', '"', "\n", "\n", "\r", " ", "\u00e9", "\r\n", '""', "\t", "'"]
CSV_TEXTS = ['a,b', 'a,b\n', '"a', '"a\n', '"a\nb', 'a"b', 'a"b"', '"a"b', '"a"b"', '"a""', '"a"""', '""""', '"', '""', '"""', ',', ',,', '\n', '\n\n', '\r', '\r\r', '\r\n\r\n',
             'a\n\nb', 'a,\n', ',a\n', 'a\rb', '"a\rb"', '"a\r\nb"', 'a\r\n', '"a",b', 'a,"b"', '"a" ,b', ' "a",b', '"a", "b"', 'a, b', '"a,b"', '"a\n"', '"\n"', '"",""',
             '"" ,', 'a"', 'a""', 'a"",b', '"a"\n"b"', '"a"\n"b', '"a""b""c"', 'a,b\nc,d\n', 'a,b\r\nc,d\r\n', '\na', 'a\n,', '"a"x"b"', '"a""b"x']


def mutate_text(r, t, alphabet):
    for _ in range(r.choice([1, 1, 2, 3])):
        k = r.random()
        i = r.randrange(len(t) + 1)
        if k < 0.35 and t:
            i = min(i, len(t) - 1)
            t = t[:i] + t[i + 1:]
        elif k < 0.7:
            t = t[:i] + r.choice(alphabet) + t[i:]
        elif t:
            i = min(i, len(t) - 1)
            t = t[:i] + r.choice(alphabet) + t[i + 1:]
    return t


def gen(rng, tier):
    thorough = tier != "quick"
    cases = []

    def add(fmt, doc, **src):
        cases.append({"fmt": fmt, "doc": doc, "src": src})

    # ---- JSON / JSON5 : forced edge cases
    for fmt in ("json", "json5"):
        special = fmt == "json5"
        for s in FORCED_JSON:
            add(fmt, enc(s))
            add(fmt, enc([s, {s: s}]), ensure_ascii=not any(0xd800 <= ord(c) <= 0xdfff for c in s) and fmt == "json")
        for x in INTS + FLOATS + (SPECIAL_FLOATS if special else []) + [True, False, None]:
            add(fmt, enc(x))
        add(fmt, enc(INTS))
        add(fmt, enc(FLOATS))
        add(fmt, enc({"a": FLOATS[:6], "b": INTS[:8]}))
        for x in ([], {}, [[]], [{}], {"": []}, {"": {}}, [[], []], {"a": [], "b": {}}, [[[]]], {"": {"": {"": ""}}}, [None], [True, 1, 1.0, "1"],
                  {"a": 1, "A": 2, "b": 3, "B": 4, "": 5, " ": 6}, {"10": 1, "9": 2, "a": 3, "Z": 4, "é": 5, "\U0001f600": 6, "\uffff": 7}):
            add(fmt, enc(x))
        for depth in ((30, 12, 5) if fmt == "json" else (30, 8)):
            for kinds in ("l", "d", "ld"):
                add(fmt, enc(deep(rng, depth, rng.choice(["x", 1, [], {}, None, 1.5, "\"\\"]), kinds)))
        if special:
            add(fmt, enc([float("nan")]))
            add(fmt, enc({"n": float("nan"), "i": float("inf")}))
    for s in JSON5_SOURCES:
        cases.append({"fmt": "json5", "doc": {"k": "null"}, "src": {"text": cps(s)}})
    # every character class alone and in pairs
    names = list(CHAR_CLASSES)
    for a in names:
        for c in CHAR_CLASSES[a]:
            add("json", enc(chr(c)))
            add("json", enc({chr(c): "a" + chr(c) + "b"}), ensure_ascii=not (0xd800 <= c <= 0xdfff) and rng.random() < 0.5)
        add("json5", enc("".join(chr(c) for c in CHAR_CLASSES[a])), ensure_ascii=a.startswith("surr"))
    n = 800 if not thorough else 20000
    for i in range(n):
        d = json_doc(rng, JSON_CLASSES, False)
        add("json", enc(d), ensure_ascii=rng.random() < 0.5, indent=rng.choice([None, None, 1]))
    n = 150 if not thorough else 3000
    for i in range(n):
        add("json5", enc(json_doc(rng, JSON_CLASSES, True, maxd=3)), ensure_ascii=rng.random() < 0.5)
    if thorough:
        # all code points of the BMP edge regions + a stride over the rest, in chunks
        pts = list(range(0, 0x300)) + list(range(0x2000, 0x2070)) + list(range(0xd7f0, 0xe010)) + list(range(0xfdc0, 0xfe00)) + \
            list(range(0xfeff - 4, 0x10010)) + list(range(0x300, 0x110000, 997)) + [0x1fffe, 0x1ffff, 0x10fffe, 0x10ffff]
        for i in range(0, len(pts), 64):
            chunk = pts[i:i + 64]
            # lone surrogates stay lone: separate every code point by 'x'
            add("json", enc(["x".join(chr(c) for c in chunk)] + [chr(c) for c in chunk[:8]]))
        for i in range(0, len(pts), 256):
            add("json5", enc("x".join(chr(c) for c in pts[i:i + 256])))
        # EVERY code point of the BMP (lone surrogates included), 256 per document, each followed by 'x'
        for i in range(0, 0x10000, 256):
            add("json", enc("".join(chr(c) + "x" for c in range(i, i + 256))))
        for i in range(0x10000, 0x110000, 0x1000):      # astral: the first 64 code points of every 4096-block
            add("json", enc("".join(chr(c) for c in range(i, i + 64))))

    # ---- CSV
    forced_tables = [[], [[]], [[], []], [[""]], [["", ""]], [[""], [""]], [["a"]], [["a"], []], [[], ["a"]], [["a"], [], ["b"]], [["a"], [], []],
                     [["a", "b"], ["c"]], [[","]], [['"']], [["\n"]], [["\r"]], [["\r\n"]], [[" "]], [["a,b", 'c"d', "e\nf", "g\rh"]],
                     [["a\nb"], ["c"]], [['"', '"']], [['""']], [["a "], [" a"]], [["é", "\U0001f600", "\ufeff"]], [["\ufeffa"]], [["\x00"]],
                     [["a\n"]], [["\na"]], [["\n\n"]], [[""], []], [[], [""]], [["", "a"]], [["a", ""]], [["#"]], [["'"]], [["\\"]], [['\\"']],
                     [["\x0b", "\x0c", "\x1c", "\x1d", "\x1e", "\x85", "\u2028", "\u2029"]], [["a\x0bb"], ["c\x0cd"]], [["a\u2028b"]],
                     [["1", "2.5", "true"]], [["x" * 300]], [["a"] * 40], [["a"]] * 40]
    for t in forced_tables:
        for lt in ("\n", "\r\n"):
            cases.append({"fmt": "csv", "doc": {"k": "csv", "rows": [[cps(c) for c in row] for row in t]}, "src": {"lineterminator": cps(lt)}})
    # exhaustive small scope: every table of at most 2 rows of at most 2 cells over 8 cells (thorough) / 1 row (quick)
    small_cells = ["", "a", ",", '"', "\n", '""', 'a"', ",\n"]
    small_rows = [[]] + [[a] for a in small_cells] + [[a, b] for a in small_cells for b in small_cells]
    small_tables = [[r] for r in small_rows]
    if thorough:
        small_tables += [[r1, r2] for r1 in small_rows for r2 in small_rows]
    for t in small_tables:
        cases.append({"fmt": "csv", "doc": {"k": "csv", "rows": [[cps(c) for c in row] for row in t]}, "src": {"lineterminator": [10]}})
    n = 800 if not thorough else 20000
    for i in range(n):
        t = csv_table(rng)
        cases.append({"fmt": "csv", "doc": {"k": "csv", "rows": [[cps(c) for c in row] for row in t]},
                      "src": {"lineterminator": cps(rng.choice(["\n", "\r\n"]))}})

    # ---- reader-only cases: arbitrary text -> real loader vs model reader (readJson / readCsv as SPECIFICATIONS)
    for t in JSON_TEXTS:
        cases.append({"fmt": "json", "mode": "read", "doc": {"k": "null"}, "src": {"text": cps(t)}})
    n = 500 if not thorough else 12000
    for i in range(n):
        d = json_doc(rng, ["alnum", "space", "quote", "backslash", "slash", "nl", "tab", "ctrl", "latin1", "bmp", "astral", "surr-hi", "surr-lo", "punct"], False, maxd=3)
        try:
            t = json.dumps(d, ensure_ascii=rng.random() < 0.6, indent=rng.choice([None, None, 0, 2, "\t"]),
                           separators=rng.choice([None, (",", ":"), (" , ", " : "), (",\r\n", ":\t")]))
            t.encode("utf-8")
        except UnicodeEncodeError:
            t = json.dumps(d)
        if rng.random() < 0.55:
            t = mutate_text(rng, t, JSON_MUT)
        cases.append({"fmt": "json", "mode": "read", "doc": {"k": "null"}, "src": {"text": cps(t)}})
    # exhaustive small scope: every text over {a , " LF CR} up to length 4 (quick) / 6 (thorough)
    import itertools
    for ln in range(0, 7 if thorough else 5):
        for tup in itertools.product('a,"\n\r', repeat=ln):
            cases.append({"fmt": "csv", "mode": "read", "doc": {"k": "csv", "rows": []}, "src": {"text": cps("".join(tup))}})
    n = 600 if not thorough else 10000
    for i in range(n):
        t = "".join(rng.choice(CSV_TEXT_ALPHABET) for _ in range(rng.choice([0, 1, 2, 3, 5, 8, 12, 20])))
        cases.append({"fmt": "csv", "mode": "read", "doc": {"k": "csv", "rows": []}, "src": {"text": cps(t)}})
    for t in CSV_TEXTS:
        cases.append({"fmt": "csv", "mode": "read", "doc": {"k": "csv", "rows": []}, "src": {"text": cps(t)}})

    # ---- YAML / plist (plain alphanumeric content)
    for fmt in ("yaml", "plist"):
        forced = [1, -1, 0, "abc", "123", "true", [1, 2], {"a": 1}, {"a": {"b": {"c": [1, 2, {"d": "e"}]}}}, [[1, 2], [3]], [{"a": 1, "b": 2}, {"c": [1, 2]}],
                  {"a": [[1]]}, [1, [2, [3]]], [[[1]]], {"a": "x", "b": [{"c": 1}, "d"]}, True, [True, False], 1.5, {"k1": "v1", "k2": "v2"}, ["a", ["b"]],
                  {"123": 1}, {"true": "false"}, {"a": {"b": 1}, "c": 2}, [{"a": [{"b": [{"c": 1}]}]}], {"a": [1, 2], "b": [3]}, [[{"a": 1}]],
                  [{"a": 1}, [2], {"b": [3]}], {"a": [{"b": 1}, {"c": 2}]}, {"x": {"y": {"z": {"w": 1}}}}, ["x" * 90], {"k": "x" * 200}]
        if fmt == "yaml":
            forced += [None, [None], {"a": None}, {1: "a", 2: "b"}, {True: 1}, {"a": {1: {2: 3}}}]
        # empty containers / empty strings (no character outside the alphanumeric domain occurs in them)
        forced += [[], {}, "", [[]], [{}], {"a": []}, {"a": {}}, {"a": ""}, [""], [1, [], 2], [1, "", 2], {"": 1}, {"": {"": ""}}, {"a": 1, "b": [], "c": 2}, [[], []],
                   {"a": {"b": {}}}, [[1], []]]
        for x in forced:
            add(fmt, enc(x))
        # numbers: every entry of the JSON pools alone, in a list and as a mapping value; 64-bit boundaries and beyond
        nums = FLOATS + SPECIAL_FLOATS + INTS + [2 ** 63 - 1, -(2 ** 63), 2 ** 64 - 1, -(2 ** 63) - 1, 0.1 + 0.2, 1e23, 1.5e-9, 123456.789e3, -1e-7, 1e-10, 12345678.9]
        for x in nums:
            add(fmt, enc(x))
        add(fmt, enc(nums))
        add(fmt, enc({"n%d" % i: x for i, x in enumerate(nums)}))
        add(fmt, enc({"a": [1e-07, 0.1, 123456789.12345679, 1e+22], "b": {"c": [5e-324, -0.0, 1.7976931348623157e308]}}))
        if fmt == "yaml":
            # look-alike strings as value, list item, key, and at the top
            for x in YAML_LOOKALIKES:
                add(fmt, enc(x))
                add(fmt, enc({"k": x, "l": [x, "plain"], x: "v"}))
            add(fmt, enc(YAML_LOOKALIKES))
            add(fmt, enc({x: x for x in YAML_LOOKALIKES}))
            for x in YAML_FINDINGS:
                add(fmt, enc(x))
        for depth in (30, 10):
            for kinds in ("l", "d", "ld"):
                add(fmt, enc(deep(rng, depth, rng.choice(["x", 1, "abc"]), kinds)))
        n = 400 if not thorough else 8000
        for i in range(n):
            add(fmt, enc(plain_doc(rng, fmt)))
    # ---- one Printer object used for two documents in a row (e.g. printer.DEFAULT_PRINTER, or a printer a library user keeps): the
    # second text must still load to the second document.  First a nested document of ANOTHER format (different indentation width,
    # different quoting state), then the document under test.
    nested = {"a": {"b": {"c": [1, 2, {"d": "e"}]}}, "f": [["g"]], "h": [{"i": 1, "j": [2, {"k": 3}]}]}
    seq_docs = [{"people": [{"name": "alice", "age": 30, "tags": ["x1", {"role": "admin", "level": 3}]}, {"name": "bob", "age": 41}]},
                [{"a": 1, "b": 2}, {"c": [1, 2]}], {"a": {"b": {"c": [1, 2, {"d": "e", "f": "g"}]}}}, [[1, 2], [3, [4, {"x": 1, "y": 2}]]], "top"]
    xml_nested = fx_nested = {"k": "xml", "tag": "a", "attrib": [["k", "v"]], "text": "t", "children": [
        {"k": "xml", "tag": "b", "attrib": [], "text": None, "children": [{"k": "xml", "tag": "c", "attrib": [], "text": "x", "children": []}]}]}
    for fmt in ("yaml", "plist", "json", "json5", "xml"):
        for pre_fmt in ("json", "yaml", "plist", "xml"):
            if pre_fmt == fmt:
                continue
            pre = {"fmt": pre_fmt, "doc": xml_nested if pre_fmt == "xml" else enc(nested), "src": {}}
            docs = [xml_nested] if fmt == "xml" else [enc(d) for d in seq_docs]
            for d in docs:
                cases.append({"fmt": fmt, "doc": d, "src": {}, "pre": pre})
    for fmt in ("json", "json5", "yaml", "plist"):
        for pd in ([["left over"], ["left"]], [["abc"], ["abcd"]], [{"k": "gone"}, {"k": ""}], [["x", "tail"], ["x"]]):
            for d in (["abc", 1], {"k": "v"}, "top", [["nested"]]):
                cases.append({"fmt": fmt, "doc": enc(d), "src": {}, "prediff": pd})
    for i in range(60 if not thorough else 1500):
        fmt = rng.choice(["yaml", "yaml", "plist", "json"])
        pre_fmt = rng.choice([f for f in ("json", "yaml", "plist") if f != fmt])
        cases.append({"fmt": fmt, "doc": enc(plain_doc(rng, fmt)), "src": {},
                      "pre": {"fmt": pre_fmt, "doc": enc(plain_doc(rng, pre_fmt, maxd=5)), "src": {}}})
    # ---- XML
    fx = [{"k": "xml", "tag": "a", "attrib": [], "text": None, "children": []},
          {"k": "xml", "tag": "a", "attrib": [], "text": "t", "children": []},
          {"k": "xml", "tag": "a", "attrib": [["k", "v"]], "text": None, "children": []},
          {"k": "xml", "tag": "a", "attrib": [["k", ""]], "text": "t", "children": [{"k": "xml", "tag": "b", "attrib": [], "text": None, "children": []}]},
          {"k": "xml", "tag": "a", "attrib": [], "text": None, "children": [{"k": "xml", "tag": "b", "attrib": [], "text": "x", "children": []},
                                                                              {"k": "xml", "tag": "c", "attrib": [["p", "q"], ["r", "s"]], "text": None, "children": []}]}]
    x = {"k": "xml", "tag": "leaf", "attrib": [], "text": "t", "children": []}
    for i in range(30):
        x = {"k": "xml", "tag": "n%d" % i if False else "n" + str(i), "attrib": [], "text": None if i % 2 else "t" + str(i), "children": [x]}
    fx.append(x)
    for d in fx:
        cases.append({"fmt": "xml", "doc": d, "src": {}})
    n = 400 if not thorough else 8000
    for i in range(n):
        cases.append({"fmt": "xml", "doc": xml_doc(rng), "src": {}})
    # the same documents loaded under the other build options (--no-key-edits gives FixedKeyDictNode mappings, --no-list-edits
    # ...): what is printed must still load back as the same document.  Monitor only (the model printer is not asked).
    plain = [c for c in cases if not c.get("mode") and not c.get("pre") and not c.get("prediff") and c["fmt"] != "csv"]
    step = max(1, len(plain) // (150 if tier == "quick" else 1500))
    combos = [{"allow_key_edits": False}, {"allow_key_edits": False, "allow_list_edits": False},
              {"allow_list_edits_when_same_length": False}]
    extra = []
    for j, c in enumerate(plain[::step]):
        extra.append(dict(c, build=combos[j % len(combos)]))
    for fmt in ("yaml", "json", "json5", "plist"):   # nested mappings as VALUES of mapping keys, at two depths
        for b in combos[:2]:
            for d in ({"a": {"b": "x1", "c": "y2"}, "d": "z3"}, {"a": {"b": {"c": [1, {"e": "f"}]}}, "g": [{"h": {"i": "j"}}]}):
                extra.append({"fmt": fmt, "doc": enc(d), "src": {}, "build": b})
    return cases + extra


# ------------------------------------------------------------------------------------------------ implementation side

_TMP = None


def worker_init():
    global _TMP
    import tempfile, atexit, shutil
    base = os.path.join(os.path.dirname(os.path.dirname(os.path.dirname(os.path.abspath(__file__)))), ".tmp")
    os.makedirs(base, exist_ok=True)
    _TMP = tempfile.mkdtemp(prefix="rt", dir=base)
    atexit.register(shutil.rmtree, _TMP, True)


def source_bytes(case):
    """The file handed to the first load, produced by the format's reference dumper."""
    fmt, doc, src = case["fmt"], case["doc"], case.get("src") or {}
    if "text" in src:
        return uncps(src["text"]).encode("utf-8", "surrogatepass")
    if fmt in ("json", "json5"):
        d = dec(doc)
        try:
            t = json.dumps(d, ensure_ascii=src.get("ensure_ascii", True), indent=src.get("indent"))
            if fmt == "json5":      # the json5 library rejects raw U+2028/U+2029 inside strings
                t = t.replace("\u2028", "\\u2028").replace("\u2029", "\\u2029")
            return t.encode("utf-8")
        except UnicodeEncodeError:      # lone surrogates cannot be written raw
            return json.dumps(d, ensure_ascii=True, indent=src.get("indent")).encode("utf-8")
    if fmt == "csv":
        import csv
        s = io.StringIO()
        w = csv.writer(s, lineterminator=uncps(src.get("lineterminator", [10])))
        for row in doc["rows"]:
            w.writerow([uncps(c) for c in row])
        return s.getvalue().encode("utf-8")
    if fmt == "yaml":
        import yaml
        return yaml.dump(dec(doc), Dumper=yaml.SafeDumper).encode("utf-8")
    if fmt == "plist":
        import plistlib
        try:
            return plistlib.dumps(dec(doc), sort_keys=False)
        except OverflowError:
            # plistlib's WRITER refuses integers outside [-2**63, 2**64); its reader accepts any <integer>: write the XML by hand
            return plist_xml(dec(doc)).encode("utf-8")
    if fmt == "xml":
        import xml.etree.ElementTree as ET

        def build(d):
            e = ET.Element(d["tag"], {k: v for k, v in d["attrib"]})
            e.text = d["text"]
            for c in d["children"]:
                e.append(build(c))
            return e
        return ET.tostring(build(doc), encoding="utf-8")
    raise ValueError(fmt)


def plist_xml(d):
    """XML plist text of a document of alphanumeric strings, numbers, booleans, lists and mappings (any integer size)."""
    from xml.sax.saxutils import escape

    def w(x, out):
        if isinstance(x, bool):
            out.append("<true/>" if x else "<false/>")
        elif isinstance(x, int):
            out.append("<integer>%d</integer>" % x)
        elif isinstance(x, float):
            out.append("<real>%s</real>" % repr(x))
        elif isinstance(x, str):
            out.append("<string>%s</string>" % escape(x))
        elif isinstance(x, list):
            out.append("<array>")
            for c in x:
                w(c, out)
            out.append("</array>")
        elif isinstance(x, dict):
            out.append("<dict>")
            for k, v in x.items():
                out.append("<key>%s</key>" % escape(k))
                w(v, out)
            out.append("</dict>")
        else:
            raise ValueError(type(x))
    out = ['<?xml version="1.0" encoding="UTF-8"?>\n<!DOCTYPE plist PUBLIC "-//Apple//DTD PLIST 1.0//EN" '
           '"http://www.apple.com/DTDs/PropertyList-1.0.dtd">\n<plist version="1.0">\n']
    w(d, out)
    out.append("\n</plist>\n")
    return "".join(out)


def xml_obj(o):
    return {"k": "xml", "tag": cps(o.tag), "attrib": [[cps(k), cps(v)] for k, v in o.attrib.items()],
            "text": cps((o.text or "").strip()), "children": [xml_obj(c) for c in o.children]}


def tree_obj(fmt, tree):
    o = tree.to_obj()
    if fmt == "xml":
        return xml_obj(o)
    if fmt == "csv":
        return {"k": "csv", "rows": [[(cps(c) if isinstance(c, str) else {"nonstr": enc(c)}) for c in row] for row in o]}
    return enc(o)


EQ_MAX_DICT_DEPTH = 12


def dict_depth(e):
    if not isinstance(e, dict):
        return 0
    if e.get("k") == "dict":
        return 1 + max([dict_depth(v) for _, v in e["c"]] + [0])
    if e.get("k") == "list":
        return max([dict_depth(c) for c in e["c"]] + [0])
    return 0


def _exc(e):
    return {"exc": type(e).__name__, "msg": str(e)[:300]}


_COMB = {}


def _combines(fmt):
    """does the real loader turn the escaped surrogate pair "\\ud83d\\ude00" into ONE character?  (Python's json: yes;
    the json5 library: no, unless the JSON5 loader recombines pairs afterwards)"""
    if fmt not in _COMB:
        import graphtage
        p = os.path.join(_TMP, "probe." + fmt)
        with open(p, "wb") as f:
            f.write(b'"\\ud83d\\ude00"')
        _COMB[fmt] = len(graphtage.FILETYPES_BY_TYPENAME[fmt].build_tree(p).object) == 1
    return _COMB[fmt]


def impl(case):
    import graphtage
    from graphtage.printer import Printer
    fmt = case["fmt"]
    ft = graphtage.FILETYPES_BY_TYPENAME[fmt]
    data = source_bytes(case)
    p1 = os.path.join(_TMP, "a." + fmt)
    p2 = os.path.join(_TMP, "b." + fmt)
    with open(p1, "wb") as f:
        f.write(data)
    if case.get("mode") == "read":
        # reader-only case: what does the real loader make of this text?  (compared with the model reader)
        obs = {"printed": case["src"]["text"]}
        if fmt in ("json", "json5"):
            obs["comb"] = _combines(fmt)
        try:
            t1 = ft.build_tree(p1)
        except Exception as e:
            return dict(obs, **_exc(e), stage="read-rejects")
        return dict(obs, stage="read-ok", obj2=tree_obj(fmt, t1))
    bopts = None
    if case.get("build"):
        bopts = graphtage.BuildOptions(**case["build"])
    try:
        t1 = ft.build_tree(p1, options=bopts) if bopts is not None else ft.build_tree(p1)
    except Exception as e:  # the reference dumper's text is not accepted: no loaded document, nothing to check
        return dict(_exc(e), stage="load1-raises")
    obj1 = tree_obj(fmt, t1)
    out = io.StringIO()
    printer = Printer(out_stream=out, ansi_color=False, quiet=True)
    start = 0
    if case.get("pre"):
        # the same Printer object first prints another document (of another format)
        pre = case["pre"]
        pft = graphtage.FILETYPES_BY_TYPENAME[pre["fmt"]]
        p0 = os.path.join(_TMP, "pre." + pre["fmt"])
        with open(p0, "wb") as f:
            f.write(source_bytes(pre))
        try:
            pft.get_default_formatter().print(printer, pft.build_tree(p0))
            printer.newline()
        except Exception as e:
            return dict(_exc(e), stage="load1-raises", pre_failed=True)
        start = len(out.getvalue())
    if case.get("prediff"):
        # the same formatter and Printer first print a DIFF (without colour) whose last string ends in removed
        # characters: state kept on the shared default formatter must not leak into the next document
        from graphtage import json as gj
        try:
            f0, t0 = case["prediff"]
            ft.get_default_formatter().print(printer, gj.build_tree(f0).diff(gj.build_tree(t0)))
            printer.newline()
        except Exception as e:
            return dict(_exc(e), stage="load1-raises", pre_failed=True)
        start = len(out.getvalue())
    try:
        ft.get_default_formatter().print(printer, t1)
    except Exception as e:
        return dict(_exc(e), stage="print-raises", obj1=obj1)
    text = out.getvalue()[start:]
    obs = {"obj1": obj1, "printed": cps(text)}
    if fmt in ("json", "json5"):
        obs["comb"] = _combines(fmt)
    try:
        raw = text.encode("utf-8")
    except UnicodeEncodeError as e:
        return dict(obs, **_exc(e), stage="print-unencodable")
    with open(p2, "wb") as f:
        f.write(raw)
    try:
        t2 = ft.build_tree(p2, options=bopts) if bopts is not None else ft.build_tree(p2)
    except Exception as e:
        return dict(obs, **_exc(e), stage="reload-rejects")
    obs["stage"] = "ok"
    # tree equality of nested mappings costs 2**depth (collections.Counter.__eq__ probes both operands, and every probe
    # recurses): a 30-deep mapping would take hours.  Beyond depth EQ_MAX_DICT_DEPTH only the data comparison is made.
    if dict_depth(obj1) <= EQ_MAX_DICT_DEPTH:
        obs["eq"] = bool(t1 == t2)
        obs["eq_rev"] = bool(t2 == t1)
        if fmt == "plist":
            obs["root_eq"] = bool(t1.root == t2.root)
    else:
        obs["eq"] = obs["eq_rev"] = None
    obs["obj2"] = tree_obj(fmt, t2)
    # idempotence of printing (informational; a second print of the reloaded tree gives the same text)
    out2 = io.StringIO()
    try:
        ft.get_default_formatter().print(Printer(out_stream=out2, ansi_color=False, quiet=True), t2)
        obs["reprint_same"] = out2.getvalue() == text
    except Exception as e:
        obs["reprint_same"] = None
    return obs


# ------------------------------------------------------------------------------------------------ feature classes (monitor sub-keys)

def _str_feature(s):
    if not s:
        return "empty-str"
    cl = {char_class(c) for c in s}
    for name in CLASS_PRIORITY:
        if name in cl:
            return "str-" + name
    return "str"


def feature(e):
    """The most specific feature class of a tagged (sub)document."""
    if isinstance(e, list):
        return _str_feature(e)
    k = e.get("k")
    if k == "str":
        return _str_feature(e["s"])
    if k == "null":
        return "null"
    if k == "bool":
        return "bool"
    if k == "int":
        return "int-big" if abs(e["v"]) >= 2 ** 63 else "int"
    if k == "float":
        t = uncps(e["s"])
        if t == "nan":
            return "float-nan"
        if "inf" in t:
            return "float-inf"
        if t in ("-0.0", "0.0"):
            return "float-zero"
        return "float-exp" if "e" in t else "float"
    if k == "list":
        if not e["c"]:
            return "empty-list"
        fs = [feature(c) for c in e["c"]]
        for f in ("empty-list", "empty-dict", "empty-str"):
            if f in fs:
                return "list-with-" + f
        return "list"
    if k == "dict":
        if not e["c"]:
            return "empty-dict"
        for kk, v in e["c"]:
            if kk == []:
                return "dict-empty-key"
        fs = [feature(v) for _, v in e["c"]]
        for f in ("empty-list", "empty-dict", "empty-str"):
            if f in fs:
                return "dict-with-" + f
        return "dict"
    if k == "csv":
        rows = e["rows"]
        if not rows:
            return "no-rows"
        if any(not r for r in rows):
            return "empty-row-last" if not rows[-1] else "empty-row"
        fs = sorted({_str_feature(c) for r in rows for c in r if isinstance(c, list)}, key=lambda f: (["empty-str"] + ["str-" + n for n in CLASS_PRIORITY]).index(f))
        return "cell-" + fs[0] if fs else "cells"
    if k == "xml":
        return "xml"
    return str(k)


def all_features(e, acc=None):
    acc = set() if acc is None else acc
    if isinstance(e, list):
        acc.add(_str_feature(e))
        return acc
    acc.add(feature(e))
    k = e.get("k")
    if k == "list":
        for c in e["c"]:
            all_features(c, acc)
    elif k == "dict":
        for kk, v in e["c"]:
            if isinstance(kk, list):
                acc.add("key-" + _str_feature(kk))
            all_features(v, acc)
    elif k == "csv":
        for r in e["rows"]:
            for c in r:
                if isinstance(c, list):
                    acc.add("cell-" + _str_feature(c))
    elif k == "xml":
        for c in e["children"]:
            all_features(c, acc)
    return acc


FEATURE_PRIORITY = (["float-nan", "float-inf", "no-rows", "empty-row-last", "empty-row", "empty-list", "empty-dict", "dict-empty-key", "empty-str", "key-empty-str", "cell-empty-str"]
                    + [p + n for n in CLASS_PRIORITY[:-1] for p in ("str-", "key-str-", "cell-str-")]
                    + ["int-big", "float-exp", "float-zero", "float", "null", "bool", "int", "list", "dict", "str-alnum", "key-str-alnum", "cell-str-alnum", "xml"])


def top_feature(e):
    fs = all_features(e)
    for f in FEATURE_PRIORITY:
        if f in fs:
            return f
    return sorted(fs)[0] if fs else "none"


def _str_diff(a, b):
    """class of the first character of `a` that `b` does not reproduce"""
    if not a:
        return "empty-str"
    i = 0
    while i < len(a) and i < len(b) and a[i] == b[i]:
        i += 1
    return "str-" + char_class(a[i]) if i < len(a) else "str-extended"


def _key_diff(ka, kb):
    """class of the first key of `ka` that is not a key of `kb`, judged against the most similar unmatched key of `kb`"""
    for x in ka:
        if x not in kb:
            if not isinstance(x, list):
                return "nonstr"
            best, bl = None, -1
            for y in kb:
                if y not in ka and isinstance(y, list):
                    n = 0
                    while n < len(x) and n < len(y) and x[n] == y[n]:
                        n += 1
                    if n > bl:
                        best, bl = y, n
            return _str_diff(x, best) if best is not None else _str_feature(x)
    return "order"


def first_diff(a, b, ctx="root"):
    """(context, feature of the first sub-document of `a` that differs from `b`) or None."""
    if a == b:
        return None
    if isinstance(a, list) and isinstance(b, list):
        return (ctx, _str_diff(a, b))
    if isinstance(a, dict) and isinstance(b, dict) and a.get("k") == b.get("k"):
        k = a.get("k")
        if k == "str":
            return (ctx, _str_diff(a["s"], b["s"]))
        if k == "list" and len(a["c"]) == len(b["c"]):
            for x, y in zip(a["c"], b["c"]):
                d = first_diff(x, y, "in-list")
                if d:
                    return d
        if k == "dict" and len(a["c"]) == len(b["c"]):
            for (ka, va), (kb, vb) in zip(a["c"], b["c"]):
                if ka != kb:
                    return ("key", _key_diff([x for x, _ in a["c"]], [x for x, _ in b["c"]]))
                d = first_diff(va, vb, "in-dict")
                if d:
                    return d
        if k == "csv":
            ra, rb = a["rows"], b["rows"]
            if len(ra) != len(rb):
                return ("rows", feature(a))
            for x, y in zip(ra, rb):
                if len(x) != len(y):
                    return ("row-length", feature({"k": "csv", "rows": [x]}))
                for cx, cy in zip(x, y):
                    if cx != cy:
                        return ("cell", _str_diff(cx, cy) if isinstance(cx, list) and isinstance(cy, list) else "nonstr")
        if k == "xml":
            for fld in ("tag", "attrib", "text"):
                if a[fld] != b[fld]:
                    return ("xml-" + fld, "xml")
            if len(a["children"]) != len(b["children"]):
                return ("xml-children", "xml")
            for x, y in zip(a["children"], b["children"]):
                d = first_diff(x, y, "xml-child")
                if d:
                    return d
    return (ctx, feature(a) if isinstance(a, (dict, list)) else "?")


def _has_long_spaced_key(e):
    """a mapping key longer than 80 characters that contains a blank (yaml.dump folds it over two lines)"""
    if not isinstance(e, dict):
        return False
    if e.get("k") == "dict":
        return any((isinstance(kk, list) and len(kk) > 80 and 0x20 in kk) or _has_long_spaced_key(v) for kk, v in e["c"])
    if e.get("k") == "list":
        return any(_has_long_spaced_key(c) for c in e["c"])
    return False


def _hash_string_lost(a, b):
    """the first difference between the documents is a string that starts (after blanks) with '#' on the first side and null on the second"""
    if isinstance(a, dict) and isinstance(b, dict):
        if a.get("k") == "str" and b.get("k") == "null":
            return uncps(a["s"]).strip().startswith("#")
        if a.get("k") == b.get("k") == "list" and len(a["c"]) == len(b["c"]):
            for x, y in zip(a["c"], b["c"]):
                if x != y:
                    return _hash_string_lost(x, y)
        if a.get("k") == b.get("k") == "dict" and len(a["c"]) == len(b["c"]):
            for (ka, va), (kb, vb) in zip(a["c"], b["c"]):
                if ka != kb:
                    return False
                if va != vb:
                    return _hash_string_lost(va, vb)
    return False


def has_nan(e):
    return "float-nan" in all_features(e)


# ------------------------------------------------------------------------------------------------ monitor

def monitor(case, obs):
    fmt = case.get("fmt", "?")
    if not isinstance(obs, dict):
        return [{"prop": "C12", "key": fmt + ":bad-observation", "what": repr(obs)[:200]}]
    if obs.get("error"):
        return [{"prop": "C12", "key": f"{fmt}:internal-error:{obs.get('exc', obs['error'])}", "what": f"{obs.get('exc', obs['error'])}: {obs.get('msg', '')}"}]
    st = obs.get("stage")
    if st in ("load1-raises", "read-ok", "read-rejects"):
        return []          # no loaded document / reader-only case: outside the property
    hits = []
    o1 = obs.get("obj1")
    seq = ":after-" + case["pre"]["fmt"] if case.get("pre") else ":after-a-diff" if case.get("prediff") else ""
    if st in ("print-raises", "print-unencodable", "reload-rejects"):
        cls = "print-raises" if st != "reload-rejects" else "reload-rejects"
        feat = top_feature(o1)
        if fmt == "yaml" and st == "reload-rejects" and _has_long_spaced_key(o1):
            feat = "long-key-with-spaces"
        hits.append({"prop": "C12", "key": f"{fmt}{seq}:{cls}:{obs.get('exc')}:{feat}",
                     "what": f"{fmt}: {st}: {obs.get('exc')}: {obs.get('msg', '')[:160]}; printed text {uncps(obs.get('printed', []))[:200]!r}"})
        return hits
    d = first_diff(o1, obs["obj2"])
    if d is not None:
        key = f"{fmt}{seq}:reload-differs:{d[0]}:{d[1]}"
        if fmt == "yaml" and d[1] in ("empty-list", "empty-dict", "empty-str") and d[0] != "key" and not seq:
            key = "yaml:reload-differs:empty-value"
        elif fmt == "yaml" and d[0] != "key" and not seq and _hash_string_lost(o1, obs["obj2"]):
            key = "yaml:reload-differs:hash-string"
        hits.append({"prop": "C12", "key": key,
                     "what": f"{fmt}: the printed text loads to a different document (first difference: {d[0]}, {d[1]}); printed text "
                             f"{uncps(obs.get('printed', []))[:200]!r}"})
        return hits
    eq = obs.get("eq") and obs.get("eq_rev")
    if obs.get("eq") is not None and not eq and not has_nan(o1):
        sub = "node-eq"
        if fmt == "plist" and obs.get("root_eq"):
            sub = "plist-node-eq-identity"
        hits.append({"prop": "C12", "key": f"{fmt}{seq}:reload-differs:{sub}",
                     "what": f"{fmt}: both loads give the same data (to_obj) but tree1 == tree2 is {obs.get('eq')} / reversed {obs.get('eq_rev')}"})
    return hits


# ------------------------------------------------------------------------------------------------ model side

MODEL_FORMATS = ("json", "json5", "csv")
_SPECIAL = {"nan": "NaN", "inf": "Infinity", "-inf": "-Infinity"}


def model_doc(e):
    """the tagged document with float tokens as `json.dumps` writes them (repr, except NaN/Infinity/-Infinity)"""
    k = e.get("k")
    if k == "float":
        t = uncps(e["s"])
        return {"k": "float", "s": cps(_SPECIAL.get(t, t))}
    if k == "list":
        return {"k": "list", "c": [model_doc(c) for c in e["c"]]}
    if k == "dict":
        return {"k": "dict", "c": [[kk, model_doc(v)] for kk, v in e["c"]]}
    return e


def _modelable(e):
    k = e.get("k")
    if k == "csv":
        return all(isinstance(c, list) for r in e["rows"] for c in r)
    if k == "list":
        return all(_modelable(c) for c in e["c"])
    if k == "dict":
        return all(isinstance(kk, list) and _modelable(v) for kk, v in e["c"])
    return k in ("null", "bool", "int", "float", "str")


def _canonical_json_text(case):
    """an ACCEPTED reader-only JSON text is comparable with the model only if its float tokens are what repr() would
    print (the model keeps float tokens as text), it has no duplicate keys (the loader keeps the last) and no integer
    beyond Python's int-from-str digit limit"""
    if case["fmt"] == "csv":
        return True
    ok = [True]

    def pf(tok):
        x = float(tok)
        if repr(x) != tok:
            ok[0] = False
        return x

    def pairs(ps):
        if len({k for k, _ in ps}) != len(ps):
            ok[0] = False
        return dict(ps)
    try:
        json.loads(uncps(case["src"]["text"]), parse_float=pf, object_pairs_hook=pairs)
    except Exception:
        return False
    return ok[0]


def to_model(case, obs):
    if case.get("pre") or case.get("build"):
        # the text may legitimately differ in layout after another format changed the printer's indentation width; the round trip of
        # the data is what the monitor checks
        return None
    return _to_model(case, obs)


def _to_model(case, obs):
    if case.get("fmt") not in MODEL_FORMATS or not isinstance(obs, dict) or "printed" not in obs or obs.get("error"):
        return None
    if case.get("mode") == "read":
        if obs.get("stage") == "read-ok" and not (_modelable(obs["obj2"]) and _canonical_json_text(case)):
            return None
        return {"s": "roundtrip", "fmt": case["fmt"], "doc": case["doc"], "printed": obs["printed"], "comb": bool(obs.get("comb"))}
    if not _modelable(obs["obj1"]):
        return None
    return {"s": "roundtrip", "fmt": case["fmt"], "doc": model_doc(obs["obj1"]), "printed": obs["printed"], "comb": bool(obs.get("comb"))}


def expect(case, obs):
    """the model's printer must produce the real text exactly; the model's reader applied to the REAL printed text must
    return what the real loader returned for it (`null` if the loader rejected it); the hypothesis of the round-trip
    theorem (`valid`) must hold for every loaded document for which it is claimed: all JSON and CSV documents, and
    the JSON5 documents without astral characters while the JSON5 loader does not recombine escaped surrogate pairs"""
    fmt = case["fmt"]
    if case.get("mode") == "read":
        # dummy document (null / no rows) for the printer half; the reader half is what is compared
        rd = model_doc(obs["obj2"]) if obs.get("stage") == "read-ok" else None
        return {"print": cps("null") if fmt != "csv" else [], "read": rd, "valid": True}
    if obs.get("stage") == "ok":
        rd = model_doc(obs["obj2"])
    elif obs.get("stage") == "reload-rejects":
        rd = None
    else:
        rd = "?"
    valid = True
    if fmt in ("json", "json5") and not obs.get("comb"):
        valid = not any("astral" in f for f in all_features(obs["obj1"]))
    return {"print": obs["printed"], "read": rd, "valid": valid}


def classify(case, obs):
    fmt = case.get("fmt", "?")
    if case.get("mode") == "read":
        return f"{fmt}|{obs.get('stage') if isinstance(obs, dict) else 'error'}"
    if not isinstance(obs, dict) or obs.get("error"):
        return fmt + "|error"
    st = obs.get("stage")
    if case.get("pre"):
        return f"{fmt}|after-{case['pre']['fmt']}|{st}"
    if case.get("prediff"):
        return f"{fmt}|after-a-diff|{st}"
    if st != "ok":
        return f"{fmt}|{st}"
    if fmt == "xml":
        def depth(e):
            return 1 + max([depth(c) for c in e["children"]] + [0])

        def count(e, f):
            return (1 if f(e) else 0) + sum(count(c, f) for c in e["children"])
        o = obs["obj1"]
        dd = depth(o)
        return (f"xml|depth={'1' if dd == 1 else '2-4' if dd <= 4 else '5+'}|text={'y' if count(o, lambda e: e['text']) else 'n'}"
                f"|attrib={'y' if count(o, lambda e: e['attrib']) else 'n'}|text+children={'y' if count(o, lambda e: e['text'] and e['children']) else 'n'}")
    return f"{fmt}|{top_feature(obs['obj1'])}"


def nontrivial(case, obs):
    return isinstance(obs, dict) and obs.get("stage") in ("ok", "read-ok", "read-rejects") and len(obs.get("printed", [])) > 2


def shrink(case):
    doc = case["doc"]
    base = {"fmt": case["fmt"], "src": {k: v for k, v in (case.get("src") or {}).items() if k != "text"}}
    if case.get("pre"):
        base["pre"] = case["pre"]
    if case.get("prediff"):
        base["prediff"] = case["prediff"]
    if "text" in (case.get("src") or {}):
        return

    def subs(e):
        if isinstance(e, list):     # a code-point string
            if len(e) > 0:
                for i in range(len(e)):
                    yield e[:i] + e[i + 1:]
                for i, c in enumerate(e):
                    if c != 0x61:
                        yield e[:i] + [0x61] + e[i + 1:]
            return
        k = e.get("k")
        if k == "str":
            for s in subs(e["s"]):
                yield {"k": "str", "s": s}
        elif k == "int":
            if abs(e["v"]) > 1:
                yield {"k": "int", "v": 1}
        elif k == "float":
            if e["s"] != cps("1.5"):
                yield {"k": "float", "s": cps("1.5")}
        elif k == "list":
            c = e["c"]
            for x in c:
                yield x
            for i in range(len(c)):
                yield {"k": "list", "c": c[:i] + c[i + 1:]}
            for i, x in enumerate(c):
                for s in subs(x):
                    yield {"k": "list", "c": c[:i] + [s] + c[i + 1:]}
        elif k == "dict":
            c = e["c"]
            for _, v in c:
                yield v
            for i in range(len(c)):
                yield {"k": "dict", "c": c[:i] + c[i + 1:]}
            for i, (kk, v) in enumerate(c):
                for s in subs(v):
                    yield {"k": "dict", "c": c[:i] + [[kk, s]] + c[i + 1:]}
                if isinstance(kk, list):
                    for s in subs(kk):
                        if all(s != k2 for k2, _ in c):
                            yield {"k": "dict", "c": c[:i] + [[s, v]] + c[i + 1:]}
        elif k == "csv":
            rows = e["rows"]
            for i in range(len(rows)):
                yield {"k": "csv", "rows": rows[:i] + rows[i + 1:]}
            for i, row in enumerate(rows):
                for j in range(len(row)):
                    yield {"k": "csv", "rows": rows[:i] + [row[:j] + row[j + 1:]] + rows[i + 1:]}
                for j, cell in enumerate(row):
                    for s in subs(cell):
                        yield {"k": "csv", "rows": rows[:i] + [row[:j] + [s] + row[j + 1:]] + rows[i + 1:]}
        elif k == "xml":
            for c in e["children"]:
                yield c
            ch = e["children"]
            for i in range(len(ch)):
                yield dict(e, children=ch[:i] + ch[i + 1:])
            if e["attrib"]:
                for i in range(len(e["attrib"])):
                    yield dict(e, attrib=e["attrib"][:i] + e["attrib"][i + 1:])
            if e["text"] is not None:
                yield dict(e, text=None)
                if len(e["text"]) > 1:
                    yield dict(e, text=e["text"][:1])
            for i, c in enumerate(ch):
                for s in subs(c):
                    yield dict(e, children=ch[:i] + [s] + ch[i + 1:])

    for s in subs(doc):
        yield dict(base, doc=s)

"""Stream `script`: the fully refined edit script of the REAL engine for a pair of JSON documents under build
options, in a canonical index-based form, plus the three cost views and node equality.

Serves C01 (accounts), C02 (zero iff equal), C03 (cost = sum of parts, three views), C08 (key permutations),
C10 (options restrict the script).  The Lean model (GtModel.Model.Edits, layer L2) must reproduce `script`,
`cost` and `eq` exactly, given the recorded assignment-solver answers (oracle points).

Script node:  [kind, fi, ti, cost, subs]
   kind in match|replace|remove|insert  (leaf edits; subs = [])
           kvp|fixed|ed|ms|fk|str       (compound edits)
   fi / ti = index of the edit's from-/to-node in its parent container's child order (None at the root,
             None for ti of remove/insert); cost = final cost (for compounds: what bounds() reports).
"""
import json

NAME = "script"

OPT_SETS = [
    {},
    {"allow_key_edits": False, "auto_match_keys": False},          # --dict-strategy none (-k)
    {"auto_match_keys": False},                                     # --dict-strategy match
    {"allow_list_edits": False},                                    # -l
    {"allow_list_edits_when_same_length": False},                   # -ll
    {"allow_key_edits": False, "auto_match_keys": False, "allow_list_edits": False},
]
# every combination of the four build options (the first six above are what the command line can produce, plus one)
ALL_OPT_SETS = [{k: v for k, v in (("allow_key_edits", a), ("auto_match_keys", b), ("allow_list_edits", c),
                                    ("allow_list_edits_when_same_length", d)) if not v}
                for a in (True, False) for b in (True, False) for c in (True, False) for d in (True, False)]
# the list options alone (the only ones a CSV table can feel: its cells are strings): default, -l, -ll, both
LIST_OPT_SETS = [{}, {"allow_list_edits": False}, {"allow_list_edits_when_same_length": False},
                 {"allow_list_edits": False, "allow_list_edits_when_same_length": False}]

SCALARS = [0, 1, 2, 10, 12, -1, -2, "a", "ab", "abc", "abd", "xbc", "", True, False, None, 1.5, 2.25,
           "hello world", "hello wrld", "1", "True", "None", "0", " "]
KEYS = ["a", "b", "c", "d", "ab", "ac", "zz", "", "k1", "key5", "Id", "ID", "id", "B", "\u00e9", "Z"]


# ------------------------------------------------------------------------------------------------ generation

def gen_doc(r, d=0, maxd=3):
    k = r.random()
    if d >= maxd or k < 0.35:
        return r.choice(SCALARS)
    if k < 0.7:
        return [gen_doc(r, d + 1, maxd) for _ in range(r.randint(0, 4))]
    return {r.choice(KEYS): gen_doc(r, d + 1, maxd) for _ in range(r.randint(0, 4))}


def mutate(r, x, d=0):
    if r.random() < 0.2:
        return gen_doc(r, d)
    if isinstance(x, list):
        y = [mutate(r, c, d + 1) if r.random() < 0.4 else c for c in x]
        if y and r.random() < 0.3:
            y.pop(r.randrange(len(y)))
        if r.random() < 0.3:
            y.insert(r.randint(0, len(y)), gen_doc(r, d + 1))
        if len(y) >= 2 and r.random() < 0.15:
            i, j = r.sample(range(len(y)), 2)
            y[i], y[j] = y[j], y[i]
        return y
    if isinstance(x, dict):
        y = {k: (mutate(r, v, d + 1) if r.random() < 0.4 else v) for k, v in x.items()}
        if y and r.random() < 0.3:
            y.pop(r.choice(list(y)))
        if r.random() < 0.3:
            y[r.choice(KEYS)] = gen_doc(r, d + 1)
        if r.random() < 0.3 and y:
            k = r.choice(list(y))
            y[k + "x"] = y.pop(k)
        if r.random() < 0.25 and y:
            # rename a key to a same-length name AND change its value (pairs that only the matcher can pair up)
            k = r.choice(list(y))
            v = y.pop(k)
            nk = (k[:-1] + ("q" if not k.endswith("q") else "r")) if k else "q"
            y[nk] = almost(r, v) if not isinstance(v, (list, dict)) else mutate(r, v, d + 1)
        return y
    if r.random() < 0.5:
        return almost(r, x)
    return x


def almost(r, x):
    """A scalar that differs from x minimally (type only, one character, emptiness)."""
    if isinstance(x, bool):
        return r.choice([int(x), str(x), not x])
    if isinstance(x, int):
        return r.choice([str(x), x + 1, bool(x) if x in (0, 1) else -x, None, "", x * 1000 + 7])
    if isinstance(x, str):
        if x == "":
            return r.choice([None, " ", 0])
        i = r.randrange(len(x))
        return r.choice([x[:i] + x[i + 1:], x[:i] + "z" + x[i:], x[:i] + "q" + x[i + 1:], "", x + x[-1]])
    if x is None:
        return r.choice(["", "None", 0, False])
    return x


# CPython hashes that collide for unequal JSON values: hash(-1) == hash(-2), hash(True) == hash(1), hash(False) == hash(0)
COLLIDE = [(-1, -2), (-2, -1), (True, 1), (1, True), (False, 0), (0, False)]      # (a list: True and 1 are ONE dict key)


def _ckey(v):
    return (type(v) is bool, v)


def collide(r, x):
    """(a, b): a copy of x holding at least one of -1 / -2 / true / 1 / false / 0, and the same document with exactly ONE
    such scalar replaced by the unequal value with the same hash — everything else (keys, sizes, order) identical."""
    import copy
    a = copy.deepcopy(x)
    if not isinstance(a, (list, dict)):
        a = {"a": a, "b": r.choice([-1, True, 0])}
    slots = []

    def walk(n):
        it = list(n.items()) if isinstance(n, dict) else list(enumerate(n))
        for k, v in it:
            if isinstance(v, (list, dict)):
                walk(v)
            elif isinstance(v, (bool, int)) and any(_ckey(v) == _ckey(c) for c, _ in COLLIDE):
                slots.append((n, k))
    walk(a)
    if not slots:
        conts = []

        def cw(n):
            conts.append(n)
            for v in (n.values() if isinstance(n, dict) else n):
                if isinstance(v, (list, dict)):
                    cw(v)
        cw(a)
        n = r.choice(conts)
        v = r.choice([-1, -2, True, 1, False, 0])
        if isinstance(n, dict):
            k = r.choice(["a", "b", "c", "zz"])
            n[k] = v
        else:
            k = r.randint(0, len(n))
            n.insert(k, v)
        slots = [(n, k)]
    b = copy.deepcopy(a)
    # the same slot in the copy: replay the path
    n, k = r.choice(slots)

    def find(na, nb):
        if na is n:
            return nb
        for kk, v in (na.items() if isinstance(na, dict) else enumerate(na)):
            if isinstance(v, (list, dict)):
                got = find(v, nb[kk])
                if got is not None:
                    return got
        return None
    nb = find(a, b)
    old = nb[k]
    nb[k] = next(v for c, v in COLLIDE if _ckey(c) == _ckey(old))
    return a, b


def shuffled(r, x):
    """Deep copy with every mapping's key order permuted."""
    if isinstance(x, dict):
        items = [(k, shuffled(r, v)) for k, v in x.items()]
        r.shuffle(items)
        return dict(items)
    if isinstance(x, list):
        return [shuffled(r, c) for c in x]
    return x


FORCED = [
    ([1, 2, 3], [1, 5]), ([1, 2], [1, 2, 3, 4]), ([], []), ([], [1]), ([1], []), ({}, {}), ({}, {"a": 1}),
    ([1, None], [1]), (["", 1], [1, ""]), ([True], [1]), ([0], [False]), (1, "1"), (5, ""), ("None", None),
    ({"x": "aaaaaaaaaaaa", "b": 2, "c": 3}, {"y": "aaaaaaaaaaab"}),
    ([0, 1, {"k1": 22, "key5": "alpha", "key6": 22}], ["q", "q", {"k1": 22, "key6": 22, "new": "v"}]),
    ([[[2]]], [[], [[10, "a"]]]), ({"a": {"b": [1, 2, 3]}}, {"a": {"b": [1, 3]}, "c": None}),
    ([1, 2, 3, 4, 5], [1, 2, 9, 4, 5]), ([1, 1, 1], [1, 1]), (["a", "b", "c"], ["c", "b", "a"]),
    ({"a": 1, "b": 2}, {"b": 2, "a": 1}), ({"a": 1, "b": 2}, {"a": 2, "b": 1}), ([{"a": 1}], [{"a": 1}, {"a": 1}]),
    ({"a": "foo", "zzzzzzzzz": "some long thing"}, {"b": "bar"}), ({"b": "bar"}, {"a": "foo", "zzzzzzzzz": [1, 2, 3, 4, 5, 6]}),
    ({"name": "bob"}, {"nome": "bob", "d": [1, 2, 3, 4]}), ({"k": [[1], "x"]}, {"k": [[1, 2, 3], "y", {"z": None}]}), ([], ["", "b"]),
    ("abc", "abd"), ("a", "b"), ("", "a"), ("hello", "help"), ([[1, 2], [3]], [[3], [1, 2]]),
    ({"ab": [1, 2], "ac": [1, 2]}, {"ab": [1, 2, 3]}), ([None, None], [None]), ([[], []], [[]]),
    # a multi-character non-string scalar against the empty string / null (levenshtein_distance with an empty side)
    ([123456], [""]), ([""], [123456]), ([12.5, 7], ["", 7]), ({"a": 123456}, {"a": ""}), ([True], [""]), ([123456], [None]),
]


# CSV tables on which default / -l / -ll give three different scripts: equal numbers of rows and cells with
# shifted / swapped content, a surplus tail, single rows and single cells
CSV_FORCED = [
    ([["a", "b", "c"], ["1", "2", "3"]], [["b", "c", "a"], ["1", "2", "3"]]),
    ([["a", "b"], ["c", "d"], ["e", "f"]], [["c", "d"], ["e", "f"], ["a", "b"]]),
    ([["a", "b"], ["c", "d"], ["e", "f"]], [["c", "d"], ["e", "f"]]),
    ([["a", "b", "c"]], [["b", "c"]]), ([["a"]], [["b"]]), ([["a", "b"]], [["b", "a"]]), ([], [["a"]]), ([["a"], ["b"]], []),
    ([["x", "1"], ["y", "2"]], [["x", "1"], ["new", "0"], ["y", "2"]]), ([[""]], [[]]), ([[], ["a"]], [["a"], []]),
    ([["ab", "abc", "10"], ["x y", "", "1"]], [["abc", "10", "ab"], ["", "1", "x y"]]),
]


def csv_same_shape(r, a, cells):
    """a table with the same numbers of rows and cells as `a`: rows / cells rotated, swapped or overwritten (the
    inputs on which --no-list-edits-when-same-length changes the script)"""
    b = [list(row) for row in a]
    for _ in range(r.randint(1, 3)):
        k = r.random()
        if k < 0.3 and len(b) >= 2:
            b = b[1:] + b[:1]
        elif k < 0.45 and len(b) >= 2:
            i, j = r.sample(range(len(b)), 2)
            b[i], b[j] = b[j], b[i]
        elif b:
            i = r.randrange(len(b))
            row = b[i]
            if k < 0.7 and len(row) >= 2:
                b[i] = row[1:] + row[:1]
            elif row:
                row[r.randrange(len(row))] = r.choice(cells)
    return b


def gen(rng, tier):
    n = 150 if tier == "quick" else 2500
    cases = []
    for f, t in FORCED:
        for o in OPT_SETS:
            cases.append({"f": f, "t": t, "opts": o})
    for _ in range(n):
        a = gen_doc(rng)
        b = mutate(rng, a) if rng.random() < 0.8 else gen_doc(rng)
        o = rng.choice(OPT_SETS) if rng.random() < 0.6 else rng.choice(ALL_OPT_SETS)
        c = {"f": a, "t": b, "opts": o}
        if rng.random() < 0.35:
            c["f2"] = shuffled(rng, a)
            c["t2"] = shuffled(rng, b)
        cases.append(c)
    # accumulated costs far beyond 16 bits (constant-cost Replace cells keep it fast)
    big = [[0] * 700 for _ in range(60)]
    cases.append({"f": big, "t": [1] * 60, "opts": {}})
    cases.append({"f": [2] * 50, "t": [[5] * 900 for _ in range(50)] + [3], "opts": {}})
    # lists of a few to a few dozen medium or large elements that are all REPLACED (string against list or number:
    # constant-cost cells), so that the accumulated cost sweeps across 2^8 and 2^16 while every single element and the
    # length stay far below those limits
    for i in range(24 if tier == "quick" else 200):
        k = rng.choice([2, 3, 5, 8, 13, 40, 60])
        sz = int(10 ** rng.uniform(1, 3.45))
        while k * sz > 200000:
            sz //= 2
        a = ["s" * (sz + j % 3) + str(j) for j in range(k)]
        b = [[j] * max(1, sz // 2 + (j % 2)) for j in range(k + rng.choice([0, 0, 1, -1]))]
        cases.append({"f": a, "t": b, "opts": rng.choice([{}, {"allow_list_edits": False}, {}])})
    # lists of a few hundred elements with list edits switched off (positional pairing must not depend on the length)
    for L, o in ((255, {"allow_list_edits": False}), (256, {"allow_list_edits": False}), (300, {"allow_list_edits_when_same_length": False}),
                 (257, {"allow_list_edits": False, "allow_key_edits": False, "auto_match_keys": False})):
        a = list(range(L))
        b = a[1:] + [a[0]] if "allow_list_edits_when_same_length" in o else a[1:]
        cases.append({"f": a, "t": b, "opts": o})
        cases.append({"f": {"k": a, "n": 1}, "t": {"k": b, "n": 1}, "opts": o})
    # string edits whose cost is an exact multiple of 2^8 (a cost matrix that wraps would report 0)
    for f, t in (("x" * 256, ""), ("", "y" * 512), ({"k": "ab" * 150}, {"k": "ab" * 22}), (["q" * 256 + "r"], ["r"]), ("a" * 128 + "b", "b" + "c" * 128)):
        cases.append({"f": f, "t": t, "opts": {}})
    # five 40-character strings replaced by five unrelated ones, and the like (cumulative cost of a few hundred)
    for i in range(10 if tier == "quick" else 80):
        k, L = rng.choice([(5, 40), (4, 60), (3, 80), (6, 30), (2, 120)])
        a = ["".join(rng.choice("abcdefghijklm") for _ in range(L)) for _ in range(k)]
        b = ["".join(rng.choice("nopqrstuvwxyz") for _ in range(L)) for _ in range(k - (i % 2))]
        cases.append({"f": a if i % 3 else {"rows": a, "n": 1}, "t": b if i % 3 else {"rows": b, "n": 2}, "opts": {}})
    # CSV tables, through the REAL loader (a file written with the csv module, `graphtage.csv.build_tree` or the
    # registered file type): CSVNode(rows) of CSVRow(cells) of StringNodes, both ListNodes carrying the two list
    # options; at the level of edits this is the JSON diff of a list of lists of strings under the same options.
    # Every pair runs under default / -l / -ll (and sometimes a fourth, arbitrary combination of all four options).
    cells = ["1", "2", "a", "b", "ab", "abc", "", "x y", "10"]
    k = 0
    for f, t in CSV_FORCED:
        for o in LIST_OPT_SETS:
            k += 1
            cases.append({"f": f, "t": t, "opts": o, "via": "csv", "loader": ("module", "filetype")[k % 2]})
    for _ in range(n // 5):
        w = rng.randint(1, 4)
        a = [[rng.choice(cells) for _ in range(w if rng.random() < 0.8 else rng.randint(1, 4))] for _ in range(rng.randint(0, 4))]
        kind = rng.random()
        if kind < 0.55:
            b = mutate(rng, a)
        elif kind < 0.85:
            b = csv_same_shape(rng, a, cells)
        else:
            b = [[rng.choice(cells) for _ in range(rng.randint(1, 3))] for _ in range(rng.randint(0, 3))]
        b = [[str(c) if not isinstance(c, str) else c for c in (row if isinstance(row, list) else [row])] for row in (b if isinstance(b, list) else [[b]])]
        b = [[c if isinstance(c, str) else "x" for c in row] for row in b]
        osets = LIST_OPT_SETS[:3] + ([rng.choice(ALL_OPT_SETS)] if rng.random() < 0.3 else [])
        for o in osets:
            k += 1
            cases.append({"f": a, "t": b, "opts": o, "via": "csv", "loader": ("module", "filetype")[k % 2]})
    # a list and the same list with two unequal elements swapped (all-leaf lists and mixed ones)
    for _ in range(n // 3):
        a = [rng.choice(SCALARS) if rng.random() < 0.8 else gen_doc(rng, 2) for _ in range(rng.randint(2, 5))]
        i, j = rng.sample(range(len(a)), 2)
        b = list(a)
        b[i], b[j] = b[j], b[i]
        cases.append({"f": a, "t": b, "opts": rng.choice(OPT_SETS)})
    # ... and swaps of two EMPTY values of different kinds (an empty list is not an empty mapping, string, null, 0 or false):
    # every container-level shortcut on emptiness / size 0 has to keep them apart
    empties = [[], {}, "", None, 0, False]
    ke = 0
    for x in range(len(empties)):
        for y in range(x + 1, len(empties)):
            for wrap in (lambda u, v: [u, v], lambda u, v: [1, u, "a", v], lambda u, v: {"k": [u, v, 2]}):
                cases.append({"f": wrap(empties[x], empties[y]), "t": wrap(empties[y], empties[x]), "opts": OPT_SETS[ke % len(OPT_SETS)]})
                ke += 1
    # equal documents (possibly key-permuted)
    for _ in range(n // 6):
        a = gen_doc(rng)
        cases.append({"f": a, "t": shuffled(rng, a), "opts": rng.choice(OPT_SETS)})
    # lists over a tiny alphabet (runs of equal neighbours), one element duplicated or deleted somewhere: shared prefix and
    # shared suffix of the two lists overlap
    for i in range(n // 2):
        al = rng.choice([[1, 2], [1, 2, 3], ["a", "b"], [1, "a", None], [[1], [2]], [{"k": 1}, 2]])
        a = [rng.choice(al) for _ in range(rng.randint(2, 7))]
        b = list(a)
        j = rng.randrange(len(b))
        if rng.random() < 0.5:
            b.insert(j, b[j])
        else:
            b.pop(j)
        if rng.random() < 0.3:
            a, b = b, a
        if i % 4 == 3:
            a, b = {"k": a, "z": 1}, {"k": b, "z": 1}
        cases.append({"f": a, "t": b, "opts": rng.choice(OPT_SETS)})
    # documents that differ in ONE scalar whose replacement has the same hash (-1 / -2, true / 1, false / 0)
    for _ in range(n // 3):
        a, b = collide(rng, gen_doc(rng))
        cases.append({"f": a, "t": b, "opts": rng.choice(ALL_OPT_SETS)})
    return cases


def shrink(case):
    def subs(x):
        if isinstance(x, list):
            for i in range(len(x)):
                yield x[:i] + x[i + 1:]
            for i, c in enumerate(x):
                for s in subs(c):
                    yield x[:i] + [s] + x[i + 1:]
            for c in x:
                yield c
        elif isinstance(x, dict):
            for k in x:
                yield {kk: v for kk, v in x.items() if kk != k}
            for k, v in x.items():
                for s in subs(v):
                    y = dict(x)
                    y[k] = s
                    yield y
            for v in x.values():
                yield v
        elif isinstance(x, str) and len(x) > 1:
            yield x[1:]
            yield x[:-1]
        elif isinstance(x, int) and not isinstance(x, bool) and abs(x) > 1:
            yield 1
    base = {k: v for k, v in case.items() if k not in ("f2", "t2")}
    for s in subs(case["f"]):
        yield dict(base, f=s)
    for s in subs(case["t"]):
        yield dict(base, t=s)
    if case.get("opts"):
        for k in case["opts"]:
            yield dict(base, opts={kk: v for kk, v in case["opts"].items() if kk != k})


# ------------------------------------------------------------------------------------------------ implementation side

_RECORD = []


def worker_init():
    import graphtage.matching as gm
    from graphtage.printer import DEFAULT_PRINTER
    DEFAULT_PRINTER.quiet = True
    orig = gm.min_weight_bipartite_matching

    def wrapped(from_nodes, to_nodes, get_edges):
        res = orig(from_nodes, to_nodes, get_edges)
        try:
            _RECORD.append({"f": [_vpath(n) for n in from_nodes], "t": [_vpath(n) for n in to_nodes],
                            "pairs": sorted([int(f), int(t)] for f, (t, _) in res.items())})
        except Exception as e:  # never let the recorder change behaviour
            _RECORD.append({"error": repr(e)})
        return res
    gm.min_weight_bipartite_matching = wrapped


def _index_in_parent(n):
    p = n.parent
    if p is None:
        return None
    for i, c in enumerate(p.children()):
        if c is n:
            return i
    return -1


def _vpath(n):
    """Index path of a node from its root."""
    path = []
    while n.parent is not None:
        path.append(_index_in_parent(n))
        n = n.parent
    return list(reversed(path))


def _full(e):
    guard = 0
    while e.tighten_bounds():
        guard += 1
        if guard > 200000:
            raise RuntimeError("tighten_bounds does not converge")
    return e


def dump(e, top=True):
    from graphtage import Match, Replace, Remove, Insert, KeyValuePairEdit, StringEdit, FixedKeyDictNodeEdit
    from graphtage.sequences import FixedLengthSequenceEdit
    from graphtage.levenshtein import EditDistance
    from graphtage.multiset import MultiSetEdit
    fi = None if top else _index_in_parent(e.from_node)
    if isinstance(e, (Remove, Insert)):
        _full(e)
        return ["remove" if isinstance(e, Remove) else "insert", fi, None, _ub(e), []]
    ti = None if top else _index_in_parent(e.to_node)
    if not top and e.to_node is e.from_node:
        ti = "="      # MultiSetEdit emits Match(n, n, 0) for an element that also occurs in the other multiset
    if isinstance(e, StringEdit):
        subs = [dump(s, False) for s in e.edit_distance.edits()]
        return ["str", fi, ti, _ub(e), subs]
    for cls, k in ((KeyValuePairEdit, "kvp"), (FixedLengthSequenceEdit, "fixed"), (EditDistance, "ed"),
                   (MultiSetEdit, "ms"), (FixedKeyDictNodeEdit, "fk")):
        if isinstance(e, cls):
            subs = [dump(s, False) for s in e.edits()]
            return [k, fi, ti, _ub(e), subs]
    _full(e)
    if isinstance(e, Match):
        return ["match", fi, ti, _ub(e), []]
    if isinstance(e, Replace):
        return ["replace", fi, ti, _ub(e), []]
    return ["other:" + type(e).__name__, fi, ti, _ub(e), []]


def _ub(e):
    b = e.bounds()
    lo, hi = b.lower_bound, b.upper_bound
    if lo != hi:
        return {"lo": _num(lo), "hi": _num(hi)}
    return _num(hi)


def _num(x):
    try:
        return int(x)
    except Exception:
        return str(x)


def _val(n):
    """canonical text of the datum a node stands for (mappings by sorted key)"""
    try:
        if hasattr(n, "key") and hasattr(n, "value"):
            o = (n.key.to_obj(), n.value.to_obj())      # KeyValuePairNode.to_obj() returns the two NODES
        else:
            o = n.to_obj()
    except Exception:
        return "?" + type(n).__name__

    def c(o):
        if isinstance(o, dict):
            return "{" + ",".join(sorted(f"{c(k)}:{c(v)}" for k, v in o.items())) + "}"
        if isinstance(o, (list, tuple)):
            return "[" + ",".join(c(x) for x in o) + "]"
        if isinstance(o, float) and not isinstance(o, bool):
            if o != o:
                return "num:nan"
            if o in (float("inf"), float("-inf")):
                return f"num:{o!r}"
            if o == int(o):
                return f"num:{int(o)!r}"         # 1.0 and 1 (0.0 and -0.0) are the same datum for graphtage
            return f"num:{o!r}"
        if isinstance(o, int) and not isinstance(o, bool):
            return f"num:{o!r}"
        return f"{type(o).__name__}:{o!r}"
    return c(o)


def _marks_check(root):
    """C01 on the ANNOTATED tree that diff() returns (the marks `removed`, `inserted`, `edit.to_node`): inside every
    container whose edit is a compound edit, every child is either marked removed or carries an edit towards a node of
    the second document; the kept children's targets together with the nodes listed in `inserted` are exactly the
    children of the second container (as data, with multiplicity), and for lists the kept targets appear in order."""
    from collections import Counter
    from graphtage import ListNode, MultiSetNode, FixedKeyDictNode
    from graphtage.tree import CompoundEdit
    problems = []
    stack = [(root, "")]
    while stack:
        n, path = stack.pop()
        e = getattr(n, "edit", None)
        if e is None or not isinstance(e, CompoundEdit) or getattr(n, "removed", False):
            continue
        m = e.to_node
        if not isinstance(n, (ListNode, MultiSetNode, FixedKeyDictNode)) or type(m).__name__.replace("Edited", "") != type(n).__name__.replace("Edited", ""):
            continue
        kids = list(n.children())
        kept = []
        for i, c in enumerate(kids):
            ce = getattr(c, "edit", None)
            if getattr(c, "removed", False):
                continue
            if ce is None:
                problems.append(["child-unaccounted", f"{path}/{i}: neither marked removed nor given an edit"])
                continue
            kept.append(_val(ce.to_node))
            stack.append((c, f"{path}/{i}"))
            if hasattr(c, "value") and hasattr(c, "key"):        # key/value pair: descend into the value
                stack.append((c.value, f"{path}/{i}.value"))
        ins = [_val(x) for x in getattr(n, "inserted", [])]
        target = [_val(x) for x in m.children()]
        if Counter(kept) + Counter(ins) != Counter(target):
            extra = Counter(kept) + Counter(ins) - Counter(target)
            missing = Counter(target) - (Counter(kept) + Counter(ins))
            problems.append(["second-document-not-accounted", f"{path}: kept+inserted differs from the second container: missing {dict(missing)}, surplus {dict(extra)}"])
        elif isinstance(n, ListNode):
            it = iter(target)
            if not all(any(k == t for t in it) for k in kept):
                problems.append(["kept-order", f"{path}: the kept elements do not appear in the second list in this order"])
    return problems


_TMP = None


def _tmpdir():
    """a private scratch directory under verif/.tmp (git-ignored), removed when the worker exits"""
    global _TMP
    if _TMP is None:
        import atexit, os, shutil, tempfile
        base = os.path.join(os.path.dirname(os.path.dirname(os.path.dirname(os.path.abspath(__file__)))), ".tmp")
        os.makedirs(base, exist_ok=True)
        _TMP = tempfile.mkdtemp(prefix="csv", dir=base)
        atexit.register(shutil.rmtree, _TMP, True)
    return _TMP


def _csv_file(rows):
    import csv, os, tempfile
    fd, path = tempfile.mkstemp(suffix=".csv", dir=_tmpdir())
    with os.fdopen(fd, "w", newline="") as fh:
        csv.writer(fh).writerows(rows)
    return path


def _csv_rows(path):
    """what Python's csv module reads back from the file (parsing is outside graphtage): the document the model is given"""
    import csv
    with open(path) as fh:
        return [list(row) for row in csv.reader(fh)]


def _csv_tree(path, o, loader="module"):
    """the REAL loader on a CSV file: `graphtage.csv.build_tree`, or the registered file type's `build_tree`"""
    if loader == "filetype":
        from graphtage.graphtage import FILETYPES_BY_TYPENAME
        return FILETYPES_BY_TYPENAME["csv"].build_tree(path, o)
    from graphtage import csv as gc
    return gc.build_tree(path, o)


def one(f, t, opts, via=None, loader="module"):
    import graphtage
    from graphtage import json as gj
    del _RECORD[:]
    o = graphtage.BuildOptions(**opts)
    if via == "csv":
        import os
        paths = {}
        try:
            paths["f"] = _csv_file(f)
            paths["t"] = _csv_file(t)
            docs = [_csv_rows(paths["f"]), _csv_rows(paths["t"])]
            obs = _one(lambda w: _csv_tree(paths[w], o, loader), "f", "t")
            obs["docs"] = docs
            return obs
        finally:
            for p in paths.values():
                try:
                    os.unlink(p)
                except OSError:
                    pass
    else:
        build = lambda x: gj.build_tree(x, o)
    return _one(build, f, t)


def _one(build, f, t):
    A = build(f)
    B = build(t)
    e = A.edits(B)
    _full(e)
    script = dump(e)
    oracle = list(_RECORD)
    root = _ub(e)
    # independent views on fresh trees
    A2 = build(f)
    B2 = build(t)
    etree = A2.diff(B2)
    edited = etree.edited_cost()
    try:
        marks = _marks_check(etree)
    except Exception as ex:          # the walk itself must not hide a result
        marks = [["walk-error", f"{type(ex).__name__}: {ex}"]]
    # a diff result is a tree: diffed again (against the FIRST document: nothing to do) it costs nothing, and the first
    # result keeps its cost
    try:
        d2 = etree.diff(build(f))
        chain = [int(d2.edited_cost()), int(etree.edited_cost())]
    except Exception as ex:
        chain = ["EXC:" + type(ex).__name__, None]
    A3 = build(f)
    B3 = build(t)
    flat = 0
    nflat = 0
    kinds = []
    from graphtage import Match, Replace, Remove, Insert, StringEdit
    for ed in A3.get_all_edits(B3):
        _full(ed)
        flat += int(ed.bounds().upper_bound)
        nflat += 1
        kinds.append(next((k for c, k in ((Remove, "remove"), (Insert, "insert"), (StringEdit, "str"), (Replace, "replace"),
                                          (Match, "match")) if isinstance(ed, c)), "other:" + type(ed).__name__))
    eq = bool(A._children == B._children) if type(A).__name__ == "CSVNode" else bool(A == B)   # CSVNode.__eq__ also equates "empty" tables
    obs = {"script": script, "oracle": oracle, "root": root, "edited_cost": int(edited), "flat_sum": flat,
           "flat_n": nflat, "flat_kinds": sorted(kinds), "marks": marks, "chain": chain, "eq": eq, "sizes": [int(A.total_size), int(B.total_size)]}
    if type(A).__name__ == "CSVNode":
        # the classes and list flags the loader gave the table and its first row (informative only; C10 is judged on the script)
        def flags(n):
            return [type(n).__name__, bool(n.allow_list_edits), bool(n.allow_list_edits_when_same_length)]
        obs["classes"] = [flags(n) for T in (A, B) for n in [T] + list(T._children)[:1]]
    return obs


def impl(case):
    obs = one(case["f"], case["t"], case.get("opts", {}), case.get("via"), case.get("loader", "module"))
    if "f2" in case:
        obs["perm"] = one(case["f2"], case["t2"], case.get("opts", {}), case.get("via"), case.get("loader", "module"))
    return obs


def _docs(case, obs):
    """the two documents the trees were built from: for CSV what the csv module parsed back from the files"""
    if isinstance(obs, dict) and obs.get("docs"):
        return obs["docs"]
    return [case["f"], case["t"]]


# ------------------------------------------------------------------------------------------------ model side

def enc(x):
    """Document encoding for the Lean model: scalars carry Python's str() so the model never prints floats."""
    if x is None:
        return {"k": "null"}
    if isinstance(x, bool):
        return {"k": "bool", "v": x}
    if isinstance(x, int):
        return {"k": "int", "v": x}
    if isinstance(x, float):
        return {"k": "float", "s": [ord(c) for c in str(x)]}
    if isinstance(x, str):
        return {"k": "str", "s": [ord(c) for c in x]}
    if isinstance(x, list):
        return {"k": "list", "c": [enc(c) for c in x]}
    if isinstance(x, dict):
        return {"k": "dict", "c": [[[ord(ch) for ch in k], enc(v)] for k, v in x.items()]}
    raise ValueError(x)


MODEL_READY = True


def to_model(case, obs):
    if not MODEL_READY or not isinstance(obs, dict) or obs.get("error"):
        return None
    bad = [r for r in obs.get("oracle", []) if "pairs" not in r]
    if bad:
        # the recorder of the assignment solver's answers failed: the model would silently fall back to its own choice
        raise RuntimeError("solver answers could not be recorded: " + repr(bad[:1]))
    o = case.get("opts", {})
    f, t = _docs(case, obs)
    # `via: csv`: a CSV table is a list (rows) of lists (cells) of strings, all three built with the same options as
    # `json.build_tree` would build that document — the model runs the L2 `edits` on exactly that tree
    return {"s": "script", "f": enc(f), "t": enc(t),
            "ake": o.get("allow_key_edits", True), "amk": o.get("auto_match_keys", True),
            "ale": o.get("allow_list_edits", True), "alesl": o.get("allow_list_edits_when_same_length", True),
            "oracle": [r for r in obs.get("oracle", []) if "pairs" in r]}


def expect(case, obs):
    return {"script": obs["script"], "eq": obs["eq"], "sizes": obs["sizes"]}


# ------------------------------------------------------------------------------------------------ monitors

def data_eq(a, b):
    """Specification of 'equal as data' (None = outside the domain: numerically equal int/float pair)."""
    if isinstance(a, bool) or isinstance(b, bool):
        return isinstance(a, bool) and isinstance(b, bool) and a == b
    if a is None or b is None:
        return a is None and b is None
    if isinstance(a, (int, float)) and isinstance(b, (int, float)):
        if type(a) is not type(b) and a == b:
            return None
        return a == b
    if isinstance(a, str) or isinstance(b, str):
        return isinstance(a, str) and isinstance(b, str) and a == b
    if isinstance(a, list) or isinstance(b, list):
        if not (isinstance(a, list) and isinstance(b, list)) or len(a) != len(b):
            return False
        res = True
        for x, y in zip(a, b):
            r = data_eq(x, y)
            if r is False:
                return False
            if r is None:
                res = None
        return res
    if isinstance(a, dict) and isinstance(b, dict):
        if set(a) != set(b):
            return False
        res = True
        for k in a:
            r = data_eq(a[k], b[k])
            if r is False:
                return False
            if r is None:
                res = None
        return res
    return False


def _cost(node):
    c = node[3]
    return c if isinstance(c, int) else None


def _children(doc, kind_hint=None):
    if isinstance(doc, list):
        return list(doc)
    if isinstance(doc, dict):
        return None  # handled by key
    return None


def _pair_eq(a, b):
    if isinstance(a, tuple) and isinstance(b, tuple):
        return a[0] == b[0] and data_eq(a[1], b[1]) is not False
    return data_eq(a, b) is not False


def _resolve_same(subs, fl, tl):
    """Replace the "=" to-index of identity matches by the index of an unaccounted equal to-child."""
    used = {s[2] for s in subs if isinstance(s[2], int) and s[0] not in ("insert", "remove")}
    used |= {s[1] for s in subs if s[0] == "insert"}
    out = []
    for s in subs:
        if s[2] == "=":
            cand = [j for j in range(len(tl)) if j not in used and isinstance(s[1], int) and s[1] < len(fl) and _pair_eq(fl[s[1]], tl[j])]
            if cand:
                used.add(cand[0])
                s = [s[0], s[1], cand[0], s[3], s[4]]
            else:
                s = [s[0], s[1], -1, s[3], s[4]]
        out.append(s)
    return out


def _walk(node, f, t, opts, hits, path="", in_str=False):
    """Check one script node against the documents it claims to relate.  f / t are the python values of the
    edit's from- and to-node (t is None for remove/insert)."""
    kind, fi, ti, cost, subs = node
    if not isinstance(cost, int):
        hits.append(("C04", "non-definitive-final", f"edit {kind} at {path or '/'} is not definitive after full refinement: {cost}"))
        return
    if kind in ("match", "replace", "remove", "insert"):
        return
    ssum = 0
    for s in subs:
        if not isinstance(s[3], int):
            hits.append(("C04", "non-definitive-final", f"sub-edit {s[0]} under {path or '/'} not definitive: {s[3]}"))
            return
        ssum += s[3]
    if ssum != cost:
        hits.append(("C03", "reported-ne-sum:" + kind, f"{kind} edit at {path or '/'} reports cost {cost} but its sub-edits sum to {ssum}"))
    # ---- C01: accounting
    if kind == "kvp":
        if len(subs) != 2:
            hits.append(("C01", "kvp-arity", f"kvp edit with {len(subs)} parts"))
            return
        return
    if kind == "str":
        fl = list(f)
        tl = list(t)
    elif isinstance(f, list) and isinstance(t, list):
        fl, tl = f, t
    elif isinstance(f, dict) and isinstance(t, dict):
        fl, tl = _dict_children(f, opts), _dict_children(t, opts)
    else:
        hits.append(("C01", "compound-on-noncontainer", f"{kind} edit relates {type(f).__name__} to {type(t).__name__}"))
        return
    subs = _resolve_same(subs, fl, tl)
    fseen = []
    tseen = []
    for s in subs:
        sk, sfi, sti = s[0], s[1], s[2]
        if sk == "insert":
            tseen.append(sfi)      # an Insert's from_node is the inserted (to-side) node
        elif sk == "remove":
            fseen.append(sfi)
        else:
            fseen.append(sfi)
            tseen.append(sti)
    ordered = kind in ("ed", "fixed", "str")
    for seen, n, side in ((fseen, len(fl), "first"), (tseen, len(tl), "second")):
        if sorted(x for x in seen if isinstance(x, int)) != list(range(n)) or len(seen) != n:
            hits.append(("C01", f"accounts:{kind}:{side}", f"{kind} edit at {path or '/'}: elements of the {side} container accounted {seen}, expected each of 0..{n - 1} exactly once"))
            return
        if ordered and seen != sorted(seen):
            hits.append(("C01", f"order:{kind}:{side}", f"{kind} edit at {path or '/'}: {side} elements out of order {seen}"))
            return
    # ---- C10: options
    ake = opts.get("allow_key_edits", True)
    amk = opts.get("auto_match_keys", True)
    ale = opts.get("allow_list_edits", True)
    alesl = opts.get("allow_list_edits_when_same_length", True)
    if isinstance(f, dict) and isinstance(t, dict):
        for s in subs:
            if s[0] in ("insert", "remove"):
                continue
            kf, kt = fl[s[1]][0], tl[s[2]][0]
            if not ake and kf != kt:
                hits.append(("C10", "none-cross-key", f"dict strategy none: pair '{kf}' with '{kt}' at {path or '/'}"))
        if ake and amk:
            paired = {(fl[s[1]][0], tl[s[2]][0]) for s in subs if s[0] not in ("insert", "remove")}
            for k in set(f) & set(t):
                if (k, k) not in paired:
                    hits.append(("C10", "auto-same-key-unpaired", f"dict strategy auto: key '{k}' present in both mappings is not paired with itself at {path or '/'}"))
    if isinstance(f, list) and isinstance(t, list) and kind != "str":
        positional = (not ale) or (len(f) == len(t) and not alesl)
        if positional:
            n = min(len(f), len(t))
            ok = True
            for i, s in enumerate(subs):
                if i < n:
                    ok = ok and s[0] not in ("insert", "remove") and s[1] == i and s[2] == i
                elif len(f) > len(t):
                    ok = ok and s[0] == "remove" and s[1] == i
                else:
                    ok = ok and s[0] == "insert" and s[1] == i
            if not ok or len(subs) != max(len(f), len(t)):
                hits.append(("C10", "list-edits-off-not-positional", f"list edits disabled but the script at {path or '/'} is not positional: {[(s[0], s[1], s[2]) for s in subs]}"))
    # ---- recurse
    for s in subs:
        sk, sfi, sti = s[0], s[1], s[2]
        if sk in ("match", "replace", "remove", "insert"):
            continue
        if kind == "str":
            continue
        cf = fl[sfi]
        ct = tl[sti]
        if sk == "kvp":
            # cf, ct are (key, value) pairs
            ksub, vsub = s[4][0], s[4][1]
            _walk_child(ksub, cf[0], ct[0], opts, hits, path + "/" + str(cf[0]) + "#key")
            _walk_child(vsub, cf[1], ct[1], opts, hits, path + "/" + str(cf[0]))
        else:
            if isinstance(f, dict):
                hits.append(("C01", "dict-child-not-kvp", f"mapping child edit of kind {sk}"))
                continue
            _walk(s, cf, ct, opts, hits, path + "/" + str(sfi))


def _walk_child(node, f, t, opts, hits, path):
    if node[0] in ("match", "replace", "remove", "insert"):
        return
    _walk(node, f, t, opts, hits, path)


def _dict_children(d, opts):
    items = list(d.items())
    if opts.get("allow_key_edits", True):
        items.sort(key=lambda kv: kv[0])
    return items


def _pairing(node, f, t, opts, path=()):
    """Set of (from-path, to-path, kind) triples with mapping children addressed by KEY (so that it is
    invariant under key permutation)."""
    out = set()
    kind, fi, ti, cost, subs = node
    if kind in ("match", "replace", "remove", "insert", "str"):
        return out
    if kind == "kvp":
        return out
    if isinstance(f, dict) and isinstance(t, dict):
        fl, tl = _dict_children(f, opts), _dict_children(t, opts)
        subs = _resolve_same(subs, fl, tl)
        for s in subs:
            if s[0] == "remove":
                out.add((path, "remove", fl[s[1]][0], None, s[3]))
            elif s[0] == "insert":
                out.add((path, "insert", None, tl[s[1]][0], s[3]))
            else:
                kf, kt = fl[s[1]][0], tl[s[2]][0]
                out.add((path, "pair", kf, kt, s[3]))
                if s[0] == "kvp":
                    out |= _pairing(s[4][1], fl[s[1]][1], tl[s[2]][1], opts, path + (kf,))
    elif isinstance(f, list) and isinstance(t, list):
        for s in subs:
            if s[0] == "remove":
                out.add((path, "remove", s[1], None, s[3]))
            elif s[0] == "insert":
                out.add((path, "insert", None, s[1], s[3]))
            else:
                out.add((path, "pair", s[1], s[2], s[3]))
                out |= _pairing(s, f[s[1]], t[s[2]], opts, path + (s[1],))
    return out


def via_plain(case):
    return case.get("via") is None


def _leaf_kinds(node):
    """Kinds of the non-compound edits with a positive cost, as get_all_edits() is documented to list them."""
    kind, fi, ti, cost, subs = node
    if kind in ("match", "replace", "remove", "insert", "str") or kind.startswith("other:"):
        return [kind] if isinstance(cost, int) and cost > 0 else []
    return [k for s in subs for k in _leaf_kinds(s)]


def monitor(case, obs):
    hits = []
    if not isinstance(obs, dict):
        return [{"prop": p, "key": "bad-observation", "what": repr(obs)[:200]} for p in ("C01", "C02", "C03", "C05", "C10")]
    if obs.get("error"):
        what = f"{obs.get('exc', obs['error'])}: {obs.get('msg', '')}"
        key = "internal-error:" + str(obs.get("exc", obs["error"]))
        return [{"prop": p, "key": key, "what": what} for p in ("C01", "C02", "C03", "C04", "C05", "C08", "C10")]
    opts = case.get("opts", {})
    raw = []
    cf, ct = _docs(case, obs)
    _walk(obs["script"], cf, ct, opts, raw)
    root = obs["script"][3]
    # ---- C03: the three views
    if isinstance(root, int):
        if not (obs["edited_cost"] == obs["flat_sum"] == root):
            raw.append(("C03", "three-views", f"annotated tree says {obs['edited_cost']}, flat edit list sums to {obs['flat_sum']}, root edit reports {root}"))
    # ---- C01: the flat edit list (get_all_edits, --only-edits, --edit-digest) reports the same leaf edits as the tree
    if "flat_kinds" in obs and isinstance(root, int):
        leaves = sorted(_leaf_kinds(obs["script"]))
        if leaves != obs["flat_kinds"]:
            from collections import Counter
            a, b = Counter(leaves), Counter(obs["flat_kinds"])
            raw.append(("C01", "flat-list-differs", f"edit tree has leaf edits {dict(a - b)} that the flat edit list lacks; the flat list has {dict(b - a)} extra"))
    for kind, what in obs.get("marks", []) or []:
        raw.append(("C01", "marks:" + kind, "annotated tree (diff()): " + what))
    ch = obs.get("chain")
    if ch and isinstance(root, int) and via_plain(case):
        if ch[0] != 0:
            raw.append(("C03", "chained-diff-cost", f"the result of the first diff, diffed against the first document again, reports cost {ch[0]} (expected 0)"))
        elif ch[1] != obs["edited_cost"]:
            raw.append(("C03", "chained-diff-changes-first-result", f"after the second diff the first result reports {ch[1]} instead of {obs['edited_cost']}"))
    # ---- C02
    de = data_eq(cf, ct)
    if de is not None and isinstance(root, int):
        if de and root != 0:
            raw.append(("C02", "equal-but-cost", f"documents are equal as data but cost is {root}"))
        if not de and root == 0:
            raw.append(("C02", "differ-but-zero", "documents differ but the reported cost is 0"))
        if not de and obs["edited_cost"] == 0:
            raw.append(("C02", "differ-but-zero-annotated", "documents differ but edited_cost() is 0"))
        if de != obs["eq"]:
            raw.append(("C02", "node-eq-vs-data-eq", f"tree equality is {obs['eq']} but the documents are {'equal' if de else 'different'} as data"))
    # ---- C08 (second sentence): swapping two unequal elements of a list always yields a non-zero cost
    if isinstance(root, int) and root == 0 and isinstance(cf, list) and isinstance(ct, list) \
            and len(cf) == len(ct) and de is False:
        diffs = [i for i, (x, y) in enumerate(zip(cf, ct)) if data_eq(x, y) is False]
        if len(diffs) == 2 and data_eq(cf[diffs[0]], ct[diffs[1]]) and data_eq(cf[diffs[1]], ct[diffs[0]]):
            raw.append(("C08", "list-swap-zero", f"swapping elements {diffs[0]} and {diffs[1]} of a list costs 0"))
    # ---- C08: key permutation invariance
    if "perm" in obs and isinstance(root, int):
        p = obs["perm"]
        if p["script"][3] != root:
            raw.append(("C08", "perm-cost", f"cost {root} becomes {p['script'][3]} after permuting mapping keys"))
        else:
            a = _pairing(obs["script"], cf, ct, opts)
            b = _pairing(p["script"], case["f2"], case["t2"], opts)
            if a != b:
                d = sorted(map(repr, a ^ b))[:4]
                raw.append(("C08", "perm-pairing", f"pairing changes after permuting mapping keys: {d}"))
    return [{"prop": p, "key": k, "what": w} for p, k, w in raw]


def classify(case, obs):
    if not isinstance(obs, dict) or obs.get("error"):
        return "error"
    kinds = set()

    def rec(n):
        kinds.add(n[0])
        for s in n[4]:
            rec(s)
    rec(obs["script"])
    o = case.get("opts", {})
    tag = "none" if not o.get("allow_key_edits", True) else ("match" if not o.get("auto_match_keys", True) else "auto")
    if not o.get("allow_list_edits", True):
        tag += "-l"
    if not o.get("allow_list_edits_when_same_length", True):
        tag += "-ll"
    comp = "+".join(sorted(k for k in kinds if k in ("ed", "fixed", "ms", "fk", "str", "kvp"))) or "leaf"
    via = "csv|" if case.get("via") == "csv" else ""
    return f"{via}{tag}|{comp}|oracle={min(len(obs.get('oracle', [])), 3)}"


def nontrivial(case, obs):
    return isinstance(obs, dict) and not obs.get("error") and obs["script"][0] not in ("match", "replace")

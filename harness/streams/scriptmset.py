"""Stream `scriptmset`: the fully refined edit script of the REAL engine for two `MultiSetNode`s of ARBITRARY nodes
WITH duplicates (library API only: `graphtage.MultiSetNode([...])`), compared EXACTLY with the Lean model
`GtModel.MSet.msGeneral` (Model/MSetEdits.lean), plus monitors for C01 (accounting by multiplicity) and C03
(cost = sum of parts; known defect D21).

Case: {"f": [doc, ...], "t": [doc, ...], "opts": {...}}; the elements are built by `json.build_tree`.
Script node: [kind, fi, ti, cost, subs] as in stream `script`.  Equal elements of a multiset share ONE node object
(`HashableCounter` key), so `fi` / `ti` are the index of the FIRST occurrence of that object in `children()`; the
observation carries `classes` = for both nodes, children() as first-occurrence indices, compared with the model too.
The assignment-solver answers are recorded (script.worker_init) and shipped as oracle.
"""
import json

from harness.streams import script as S

NAME = "scriptmset"

OPT_SETS = S.OPT_SETS
POOL = [1, 1, 2, 3, 12, "a", "a", "b", "ab", [1], [1], [1, 2], [2], None, "", True, 0, {"k": 1}, {"k": 1}, {"k": 2}, [[1]], [[1]]]

FORCED = [
    ([1, 1], [4, 5]), ([1, 1], [4, 55]), ([1, 1, 2], [4, 5]), ([1, 1, 1], [1, 4, 5]), ([1, 2], [4, 4, 4]),
    ([[1], [1]], [[2], [3]]), ([1, 1], [4]), ([1, 1, 2], [3, 4, 5]), ([1, 1], [1]), ([], []), ([1], []), ([], [1, 1]),
    ([1, 1], [1, 1]), ([1, 2, 1], [2, 1, 1]), ([1, True], [True, 1]), ([1, 1, "a", "a"], ["b", "b", 2, 2]),
    ([{"k": 1}, {"k": 1}], [{"k": 2}, {"j": 1}]), ([[1, 2], [1, 2], [1, 2]], [[1, 3], [1], [5, 6, 7]]),
    (["a", "a", "a"], ["b", "c"]), ([None, None], [0, ""]), ([12, 12], [13, 2]), ([1, 1, 1, 1], [2, 3]),
]


def gen_mset(r):
    return [r.choice(POOL) for _ in range(r.choice([0, 1, 2, 2, 3, 3, 4, 5, 6]))]


def gen(rng, tier):
    n = 150 if tier == "quick" else 3000
    cases = []
    for f, t in FORCED:
        for o in ({}, {"allow_key_edits": False, "auto_match_keys": False}):
            cases.append({"f": f, "t": t, "opts": o})
    for _ in range(n):
        a = gen_mset(rng)
        if rng.random() < 0.75:
            b = list(a)
            rng.shuffle(b)
            for _ in range(rng.choice([0, 1, 1, 2, 3])):
                k = rng.random()
                if k < 0.45 and b:
                    b[rng.randrange(len(b))] = rng.choice(POOL + [4, 5, "zz", [2, 2], [3]])
                elif k < 0.7:
                    b.append(rng.choice(POOL + [4, "zz"]))
                elif b:
                    b.pop(rng.randrange(len(b)))
        else:
            b = gen_mset(rng)
        cases.append({"f": a, "t": b, "opts": rng.choice(OPT_SETS)})
    return cases


def shrink(case):
    for side in ("f", "t"):
        for i in range(len(case[side])):
            yield dict(case, **{side: case[side][:i] + case[side][i + 1:]})
    if case.get("opts"):
        yield dict(case, opts={})


# ---------------------------------------------------------------------------------------------- implementation

ENV = {"VERIF_CASE_TIMEOUT": "3"}      # D21b: some duplicate cases never terminate


def worker_init():
    import logging
    S.worker_init()
    # `repeat_until_tightened` logs a warning in every round of the D21b loop; the logging module swallows exceptions
    # raised inside a handler, which would swallow the worker's alarm too
    logging.disable(logging.WARNING)


def _first_idx(node):
    ch = list(node.children())
    out = []
    for c in ch:
        for i, d in enumerate(ch):
            if d is c:
                out.append(i)
                break
    return out


def impl(case):
    import graphtage
    from graphtage import json as gj
    o = graphtage.BuildOptions(**case.get("opts", {}))
    build = lambda x: graphtage.MultiSetNode([gj.build_tree(c, o) for c in x])
    del S._RECORD[:]
    obs = S._one(build, case["f"], case["t"])
    A, B = build(case["f"]), build(case["t"])
    obs["classes"] = [_first_idx(A), _first_idx(B)]
    return obs


# ---------------------------------------------------------------------------------------------- model side

def to_model(case, obs):
    if not isinstance(obs, dict) or obs.get("error"):
        return None
    o = case.get("opts", {})
    return {"s": "scriptmset", "f": S.enc(case["f"]), "t": S.enc(case["t"]),
            "ake": o.get("allow_key_edits", True), "amk": o.get("auto_match_keys", True),
            "ale": o.get("allow_list_edits", True), "alesl": o.get("allow_list_edits_when_same_length", True),
            "oracle": [r for r in obs.get("oracle", []) if "pairs" in r]}


def expect(case, obs):
    return {"script": obs["script"], "sizes": obs["sizes"], "classes": obs["classes"]}


# ---------------------------------------------------------------------------------------------- monitors

def _key(x):
    return json.dumps(x, sort_keys=True) + ("#b" if isinstance(x, bool) else "")


def _class_list(elems):
    """children() of MultiSetNode(elems) as data: grouped by first occurrence"""
    keys, cnt = [], {}
    for x in elems:
        k = _key(x)
        if k not in cnt:
            keys.append(k)
            cnt[k] = 0
        cnt[k] += 1
    out = []
    for k in keys:
        out += [k] * cnt[k]
    return out


def monitor(case, obs):
    if not isinstance(obs, dict):
        return [{"prop": p, "key": "bad-observation", "what": repr(obs)[:200]} for p in ("C01", "C03")]
    fch, tch = _class_list(case["f"]), _class_list(case["t"])
    dup = len(set(fch)) < len(fch) or len(set(tch)) < len(tch)
    suffix = ":duplicates" if dup else ""
    if obs.get("error") == "hang":
        # D21b: the node-keyed matching dict drops pairs, the matcher's bounds fall BELOW its earlier lower bound and
        # `repeat_until_tightened` loops forever
        return [{"prop": p, "key": "hang:MultiSetEdit" + suffix, "what": "tighten_bounds() does not terminate on " + json.dumps([case["f"], case["t"]])}
                for p in ("C03", "C05")]
    if obs.get("error"):
        what = f"{obs.get('exc', obs['error'])}: {obs.get('msg', '')}"
        key = "internal-error:" + str(obs.get("exc", obs["error"]))
        return [{"prop": p, "key": key, "what": what} for p in ("C01", "C02", "C03", "C04", "C05")]
    raw = []
    kind, _, _, cost, subs = obs["script"]
    if not isinstance(cost, int):
        raw.append(("C04", "non-definitive-final", f"root {kind} not definitive after full refinement: {cost}"))
    elif kind == "ms":
        ssum = sum(s[3] for s in subs if isinstance(s[3], int))
        if ssum != cost:
            raw.append(("C03", "reported-ne-sum:MultiSetEdit" + suffix, f"MultiSetEdit reports {cost}, its sub-edits sum to {ssum}"))
        # C01 by multiplicity: the multiset of from-elements named by the non-insert sub-edits is the first multiset, …
        fseen = sorted(fch[s[1]] for s in subs if s[0] != "insert" and isinstance(s[1], int) and 0 <= s[1] < len(fch))
        nf = len([s for s in subs if s[0] != "insert"])
        if fseen != sorted(fch) or nf != len(fch):
            raw.append(("C01", "accounts:MultiSetEdit:first" + suffix, f"from-elements accounted {fseen}, expected {sorted(fch)}"))
        tseen = []
        for s in subs:
            if s[0] == "remove":
                continue
            if s[0] == "insert":
                tseen.append(tch[s[1]] if isinstance(s[1], int) and 0 <= s[1] < len(tch) else None)
            elif s[2] == "=":
                tseen.append(fch[s[1]] if isinstance(s[1], int) and 0 <= s[1] < len(fch) else None)   # the same element on both sides
            else:
                tseen.append(tch[s[2]] if isinstance(s[2], int) and 0 <= s[2] < len(tch) else None)
        if sorted(map(str, tseen)) != sorted(tch):
            raw.append(("C01", "accounts:MultiSetEdit:second" + suffix, f"to-elements accounted {sorted(map(str, tseen))}, expected {sorted(tch)}"))
        # nested scripts: the monitors of stream `script` on every matched pair
        felems = {}
        for x in case["f"]:
            felems.setdefault(_key(x), x)
        telems = {}
        for x in case["t"]:
            telems.setdefault(_key(x), x)
        for s in subs:
            if s[0] in ("match", "replace", "remove", "insert") or s[2] == "=":
                continue
            hits = []
            S._walk(s, felems[fch[s[1]]], telems[tch[s[2]]], case.get("opts", {}), hits, f"/{s[1]}")
            raw.extend(hits)
    root = cost
    if isinstance(root, int):
        if not (obs["edited_cost"] == obs["flat_sum"] == root):
            raw.append(("C03", "three-views" + suffix, f"annotated tree says {obs['edited_cost']}, flat edit list sums to {obs['flat_sum']}, root edit reports {root}"))
        de = sorted(fch) == sorted(tch)
        if de and root != 0:
            raw.append(("C02", "equal-but-cost:mset", f"equal multisets but cost {root}"))
        if not de and root == 0:
            raw.append(("C02", "differ-but-zero:mset", "different multisets but cost 0"))
    return [{"prop": p, "key": k, "what": w} for p, k, w in raw]


def classify(case, obs):
    if isinstance(obs, dict) and obs.get("error") == "hang":
        return "hang(D21b)"
    if not isinstance(obs, dict) or obs.get("error"):
        return "error"
    fch, tch = _class_list(case["f"]), _class_list(case["t"])
    dup = "dup" if (len(set(fch)) < len(fch) or len(set(tch)) < len(tch)) else "nodup"
    kind, _, _, cost, subs = obs["script"]
    col = "-"
    if kind == "ms" and isinstance(cost, int):
        col = "sum-ok" if sum(s[3] for s in subs if isinstance(s[3], int)) == cost else "D21"
    return f"{kind}|{dup}|{col}|n={min(len(fch), 4)}x{min(len(tch), 4)}|oracle={min(len(obs.get('oracle', [])), 3)}"


def nontrivial(case, obs):
    return isinstance(obs, dict) and not obs.get("error") and obs["script"][0] == "ms"

"""Stream `scriptx`: fully refined edit scripts of the REAL engine on trees the L2 model does not cover yet —
XML / HTML elements, CSV tables, multisets with duplicate elements (library API), plist wrappers — with generic
structural monitors for C01 (accounting by child index), C02 (zero cost iff equal) and C03 (cost = sum of parts,
three views) and C10 (dictionary strategy on XML attributes; with list edits disabled the rows of a CSV table, the
cells of its rows and the children of XML elements are paired by position).  CSV tables are written to a file with the
csv module and loaded by the REAL loader (`graphtage.csv.build_tree` / the registered file type) under default, -l
and -ll.  Monitor-only: there is no Lean model behind this stream (stated in the evidence)."""
import json

LIST_OPT_SETS = [{}, {"allow_list_edits": False}, {"allow_list_edits_when_same_length": False}]
XML_OPT_SETS = [{}, {"allow_key_edits": False}, {"auto_match_keys": False}, {"allow_list_edits": False},
                {"allow_list_edits_when_same_length": False}]

NAME = "scriptx"

TAGS = ["a", "b", "item", "row", "x"]
TEXTS = [None, "", "t", "text", "hello", " hello ", "hellp", "1", "2"]
ATTRS = ["k", "id", "n", "cls"]
CELLS = ["1", "2", "a", "b", "ab", "abc", "", "x y", "10"]


def gen_xml(r, d=0):
    n = 0 if d >= 2 else r.randint(0, 3)
    return {"tag": r.choice(TAGS), "attrib": {a: r.choice(CELLS) for a in r.sample(ATTRS, r.randint(0, 2))},
            "text": r.choice(TEXTS), "children": [gen_xml(r, d + 1) for _ in range(n)]}


def mut_xml(r, x, d=0):
    y = {"tag": x["tag"], "attrib": dict(x["attrib"]), "text": x["text"], "children": [mut_xml(r, c, d + 1) if r.random() < 0.4 else c for c in x["children"]]}
    k = r.random()
    if k < 0.15:
        y["tag"] = r.choice(TAGS)
    elif k < 0.3:
        y["text"] = r.choice(TEXTS)
    elif k < 0.45:
        y["attrib"][r.choice(ATTRS)] = r.choice(CELLS)
    elif k < 0.55 and y["attrib"]:
        y["attrib"].pop(r.choice(list(y["attrib"])))
    elif k < 0.7 and y["children"]:
        y["children"].pop(r.randrange(len(y["children"])))
    elif k < 0.85 and d < 2:
        y["children"].insert(r.randint(0, len(y["children"])), gen_xml(r, d + 1))
    return y


def gen_csv(r):
    w = r.randint(1, 4)
    return [[r.choice(CELLS) for _ in range(w if r.random() < 0.8 else r.randint(1, 4))] for _ in range(r.randint(0, 4))]


def mut_csv(r, t):
    y = [list(row) for row in t]
    k = r.random()
    if k < 0.3 and y:
        row = r.choice(y)
        if row:
            row[r.randrange(len(row))] = r.choice(CELLS)
    elif k < 0.5 and y:
        y.pop(r.randrange(len(y)))
    elif k < 0.7:
        y.insert(r.randint(0, len(y)), [r.choice(CELLS) for _ in range(r.randint(1, 4))])
    elif k < 0.8 and y:
        i = r.randrange(len(y))
        y[i] = y[i] + [r.choice(CELLS)]
    elif k < 0.9 and len(y) >= 2:
        y = y[1:] + y[:1]                # same number of rows, every row shifted
    elif y:
        i = r.randrange(len(y))
        y[i] = y[i][1:] + y[i][:1]      # same number of cells, every cell shifted
    return y


def gen_mset(r):
    pool = [1, 1, 2, 3, "a", "a", "b", [1], [1], [1, 2], None]
    return [r.choice(pool) for _ in range(r.randint(0, 5))]


def gen(rng, tier):
    n = 60 if tier == "quick" else 800
    cases = []
    for _ in range(n):
        a = gen_xml(rng)
        cases.append({"kind": "xml", "f": a, "t": mut_xml(rng, a) if rng.random() < 0.85 else gen_xml(rng), "opts": rng.choice(XML_OPT_SETS)})
    for i in range(n):
        a = gen_csv(rng)
        b = mut_csv(rng, a) if rng.random() < 0.85 else gen_csv(rng)
        if rng.random() < 0.3:
            b = mut_csv(rng, b)
        cases.append({"kind": "csv", "f": a, "t": b, "opts": LIST_OPT_SETS[i % 3], "loader": ("module", "filetype")[(i // 3) % 2]})
    for _ in range(n // 2):
        a = gen_mset(rng)
        b = list(a)
        rng.shuffle(b)
        if rng.random() < 0.7 and b:
            b[rng.randrange(len(b))] = rng.choice([1, 2, "a", "zz", [1], [2, 2]])
        if rng.random() < 0.4:
            b.append(rng.choice([1, "a", [1]]))
        if rng.random() < 0.3 and b:
            b.pop()
        cases.append({"kind": "mset", "f": a, "t": b, "opts": {}})
    from harness.streams.script import gen_doc, mutate
    def no_null(x):      # a plist cannot express null
        if x is None:
            return "null"
        if isinstance(x, list):
            return [no_null(c) for c in x]
        if isinstance(x, dict):
            return {k: no_null(v) for k, v in x.items()}
        return x
    for _ in range(n // 3):
        a = gen_doc(rng)
        cases.append({"kind": "plist", "f": no_null(a), "t": no_null(mutate(rng, a)), "opts": {}, "wrap": rng.choice(["both", "from"])})
    # plists whose root mapping (or a one-element root array holding it) has exactly one renamed key with a changed value
    for f, t in (({"name": "some value"}, {"nome": "some other text"}), ([{"k1": "abcdef", "z": 1}], [{"k2": "abcxyz", "z": 1}]),
                 ({"a": [1, 2, 3], "n": 1}, {"b": [1, 2, 4, 5], "n": 1}), ({"title": "release notes"}, {"titel": "release notes for version 2"})):
        for wrap in ("both", "from"):
            cases.append({"kind": "plist", "f": f, "t": t, "opts": {}, "wrap": wrap})
    cases += [
        {"kind": "xml", "f": {"tag": "a", "attrib": {}, "text": "x", "children": []}, "t": {"tag": "a", "attrib": {}, "text": None, "children": []}, "opts": {}},
        {"kind": "xml", "f": {"tag": "a", "attrib": {}, "text": " x ", "children": []}, "t": {"tag": "a", "attrib": {}, "text": "x", "children": []}, "opts": {}},
        {"kind": "csv", "f": [], "t": [[""]], "opts": {}}, {"kind": "csv", "f": [["a", "b"], ["c"]], "t": [["a"], ["c", "b"]], "opts": {}},
    ] + [
        {"kind": "csv", "f": f, "t": t, "opts": o, "loader": ld}
        for f, t in (([["a", "b", "c"], ["1", "2", "3"]], [["b", "c", "a"], ["1", "2", "3"]]),
                     ([["a", "b"], ["c", "d"], ["e", "f"]], [["c", "d"], ["e", "f"], ["a", "b"]]),
                     ([["a", "b"], ["c", "d"], ["e", "f"]], [["c", "d"], ["e", "f"]]))
        for o in LIST_OPT_SETS for ld in ("module", "filetype")
    ] + [
        {"kind": "mset", "f": [1, 1, 2], "t": [3, 4, 5], "opts": {}}, {"kind": "mset", "f": [1, 1], "t": [1], "opts": {}}, {"kind": "mset", "f": [], "t": [], "opts": {}},
    ]
    return cases


def shrink(case):
    if case["kind"] in ("csv", "mset"):
        for side in ("f", "t"):
            for i in range(len(case[side])):
                yield dict(case, **{side: case[side][:i] + case[side][i + 1:]})
    if case["kind"] == "xml":
        for side in ("f", "t"):
            x = case[side]
            for i in range(len(x["children"])):
                yield dict(case, **{side: dict(x, children=x["children"][:i] + x["children"][i + 1:])})
            for c in x["children"]:
                yield dict(case, **{side: c})
            if x["attrib"]:
                yield dict(case, **{side: dict(x, attrib={})})


# ---------------------------------------------------------------------------------------------- implementation

def worker_init():
    from graphtage.printer import DEFAULT_PRINTER
    DEFAULT_PRINTER.quiet = True


def _xml_to_et(x):
    import xml.etree.ElementTree as ET
    e = ET.Element(x["tag"], dict(x["attrib"]))
    e.text = x["text"]
    for c in x["children"]:
        e.append(_xml_to_et(c))
    return e


def _build(case, which):
    import graphtage
    from graphtage import json as gj
    o = graphtage.BuildOptions(**case.get("opts", {}))
    v = case[which]
    k = case["kind"]
    if k == "xml":
        from graphtage import xml as gx
        return gx.build_tree(_xml_to_et(v), o)
    if k == "csv":
        # the REAL loader on a file written with the csv module
        from harness.streams import script as S
        import os
        path = S._csv_file(v)
        try:
            return S._csv_tree(path, o, case.get("loader", "module"))
        finally:
            os.unlink(path)
    if k == "mset":
        return graphtage.MultiSetNode([gj.build_tree(c, options=o) for c in v])
    if k == "plist":
        from graphtage.plist import PLISTNode
        t = gj.build_tree(v, o)
        if case.get("wrap") == "both" or which == "f":
            return PLISTNode(t)
        return t
    raise ValueError(k)


def _full(e):
    n = 0
    while e.tighten_bounds():
        n += 1
        if n > 200000:
            raise RuntimeError("tighten_bounds does not converge")


def _idx(n, container_children):
    for i, c in enumerate(container_children):
        if c is n:
            return i
    return -1


def _classes(children):
    """index -> index of the first child equal (==) to it"""
    out = []
    for i, c in enumerate(children):
        k = i
        for j in range(i):
            if children[j] == c:
                k = j
                break
        out.append(k)
    return out


def dump(e, fparent=None, tparent=None, fself=None):
    """[kind, fi, ti, cost, subs, n_from_children, n_to_children]; indices by identity in the PARENT EDIT's
    from-/to-node children (None at the root)."""
    from graphtage import Remove, Insert, Match, Replace, StringEdit
    from graphtage.tree import CompoundEdit
    _full(e)
    b = e.bounds()
    cost = int(b.upper_bound) if b.lower_bound == b.upper_bound else {"lo": int(b.lower_bound), "hi": int(b.upper_bound)}
    kind = type(e).__name__
    fi = _idx(e.from_node, fparent) if fparent is not None else None
    if fself is not None and e.from_node is fself:
        fi = "self"          # e.g. PLISTNode's EditCollection lists Match(self, node, 0) for the wrapper itself
    if isinstance(e, Insert):
        # the inserted node lives in the to-container
        return [kind, None, _idx(e.from_node, tparent) if tparent is not None else None, cost, [], 0, 0]
    if isinstance(e, Remove):
        return [kind, fi, None, cost, [], 0, 0]
    ti = None
    if tparent is not None:
        ti = "=" if e.to_node is e.from_node else _idx(e.to_node, tparent)
    if isinstance(e, StringEdit) or not isinstance(e, CompoundEdit):
        return [kind, fi, ti, cost, [], 0, 0]
    fc = list(e.from_node.children())
    tc = list(e.to_node.children()) if e.to_node is not None else []
    subs = [dump(s, fc, tc, e.from_node) for s in e.edits()]
    res = [kind, fi, ti, cost, subs, len(fc), len(tc)]
    if kind == "MultiSetEdit":
        res.append([_classes(fc), _classes(tc)])
    return res


def _plain(case, which):
    return case[which]


def impl(case):
    A, B = _build(case, "f"), _build(case, "t")
    e = A.edits(B)
    script = dump(e)
    A2, B2 = _build(case, "f"), _build(case, "t")
    edited = int(A2.diff(B2).edited_cost())
    A3, B3 = _build(case, "f"), _build(case, "t")
    flat = 0
    for ed in A3.get_all_edits(B3):
        _full(ed)
        flat += int(ed.bounds().upper_bound)
    A4, B4 = _build(case, "f"), _build(case, "t")
    return {"script": script, "edited_cost": edited, "flat_sum": flat, "eq": bool(A4 == B4)}


# ---------------------------------------------------------------------------------------------- monitors

def _xml_eq(a, b):
    return (a["tag"] == b["tag"] and a["attrib"] == b["attrib"] and (a["text"] or "").strip() == (b["text"] or "").strip()
            and len(a["children"]) == len(b["children"]) and all(_xml_eq(x, y) for x, y in zip(a["children"], b["children"])))


def _csv_empty(t):
    return not t or not any(t)


def data_eq(case):
    from harness.streams.script import data_eq as deq
    k = case["kind"]
    if k == "xml":
        return _xml_eq(case["f"], case["t"])
    if k == "csv":
        return case["f"] == case["t"] or (_csv_empty(case["f"]) and _csv_empty(case["t"]))
    if k == "mset":
        a = sorted(json.dumps(x, sort_keys=True) for x in case["f"])
        b = sorted(json.dumps(x, sort_keys=True) for x in case["t"])
        return a == b
    if k == "plist":
        return deq(case["f"], case["t"])
    return None


ORDERED = ("EditDistance", "FixedLengthSequenceEdit", "XMLElementEdit", "KeyValuePairEdit", "EditCollection")


def _walk(node, hits, path=""):
    kind, fi, ti, cost, subs, n, m = node[:7]
    if not isinstance(cost, int):
        hits.append(("C04", "non-definitive-final", f"{kind} at {path or '/'} not definitive after full refinement: {cost}"))
        return
    if not subs and n == 0 and m == 0:
        return
    ssum = 0
    for s in subs:
        if not isinstance(s[3], int):
            hits.append(("C04", "non-definitive-final", f"sub-edit {s[0]} under {path or '/'} not definitive"))
            return
        ssum += s[3]
    if ssum != cost:
        dup = ""
        if kind == "MultiSetEdit" and len(node) > 7 and (len(set(node[7][0])) < len(node[7][0]) or len(set(node[7][1])) < len(node[7][1])):
            dup = ":duplicates"      # a multiset holding several EQUAL elements (only constructible through the library API)
        hits.append(("C03", "reported-ne-sum:" + kind + dup, f"{kind} at {path or '/'} reports {cost}, sub-edits sum to {ssum}"))
    subs_acc = [s for s in subs if s[1] != "self"]
    if kind == "MultiSetEdit" and len(node) > 7:
        # multisets: elements() repeats ONE representative object for equal elements, so account by equality class
        fcl, tcl = node[7]
        fs = sorted(fcl[s[1]] for s in subs_acc if s[0] != "Insert" and isinstance(s[1], int) and 0 <= s[1] < n)
        ts = sorted(tcl[s[2]] for s in subs_acc if s[0] != "Remove" and isinstance(s[2], int) and 0 <= s[2] < m)
        same = sorted(fcl[s[1]] for s in subs_acc if s[2] == "=" and isinstance(s[1], int) and 0 <= s[1] < n)
        nf = len([s for s in subs_acc if s[0] != "Insert"])
        nt = len([s for s in subs_acc if s[0] != "Remove"])
        if fs != sorted(fcl) or nf != n:
            hits.append(("C01", "accounts:MultiSetEdit:first", f"MultiSetEdit at {path or '/'}: from-elements accounted by class {fs}, expected {sorted(fcl)}"))
        if nt != m or len(ts) + len(same) != m:
            hits.append(("C01", "accounts:MultiSetEdit:second", f"MultiSetEdit at {path or '/'}: {nt} to-elements accounted, expected {m}"))
        for i, s in enumerate(subs):
            _walk(s, hits, path + "/" + str(i))
        return
    fseen = [s[1] for s in subs_acc if s[0] != "Insert"]
    tseen_raw = [s[2] for s in subs_acc if s[0] != "Remove"]
    nsame = sum(1 for x in tseen_raw if x == "=")
    tseen = [x for x in tseen_raw if x != "="]
    if sorted(x for x in fseen if isinstance(x, int)) != list(range(n)) or len(fseen) != n or -1 in fseen:
        hits.append(("C01", f"accounts:{kind}:first", f"{kind} at {path or '/'}: from-children accounted {fseen}, expected 0..{n - 1} once each"))
    elif kind in ORDERED and fseen != sorted(fseen):
        hits.append(("C01", f"order:{kind}:first", f"{kind} at {path or '/'}: from-children out of order {fseen}"))
    if len(set(tseen)) != len(tseen) or len(tseen) + nsame != m or any((not isinstance(x, int)) or x < 0 or x >= m for x in tseen):
        hits.append(("C01", f"accounts:{kind}:second", f"{kind} at {path or '/'}: to-children accounted {tseen_raw}, expected each of 0..{m - 1} once"))
    elif kind in ORDERED and tseen != sorted(tseen):
        hits.append(("C01", f"order:{kind}:second", f"{kind} at {path or '/'}: to-children out of order {tseen}"))
    for i, s in enumerate(subs):
        _walk(s, hits, path + "/" + str(i))


def _has_dup_mset(node):
    if node[0] == "MultiSetEdit" and len(node) > 7 and (len(set(node[7][0])) < len(node[7][0]) or len(set(node[7][1])) < len(node[7][1])):
        return True
    return any(_has_dup_mset(s) for s in node[4])


def monitor(case, obs):
    if not isinstance(obs, dict):
        return []
    if obs.get("error"):
        key = "internal-error:" + str(obs.get("exc", obs["error"]))
        what = f"{case['kind']}: {obs.get('exc')}: {obs.get('msg', '')}"
        return [{"prop": p, "key": key, "what": what} for p in ("C01", "C02", "C03", "C05", "C10")]
    raw = []
    _walk(obs["script"], raw)
    root = obs["script"][3]
    if not isinstance(root, int) and obs.get("edited_cost") != obs.get("flat_sum") and not _has_dup_mset(obs["script"]):
        # the root edit never became a single value; the other two views must still agree with each other
        raw.append(("C03", "three-views:annotated-vs-flat", f"annotated tree {obs['edited_cost']}, flat list {obs['flat_sum']} (root edit reports {root})"))
    if isinstance(root, int):
        if not (obs["edited_cost"] == obs["flat_sum"] == root):
            raw.append(("C03", "three-views" + (":duplicates" if _has_dup_mset(obs["script"]) else ""),
                        f"annotated tree {obs['edited_cost']}, flat list {obs['flat_sum']}, root edit {root}"))
        de = data_eq(case)
        wrapped_one_side = case["kind"] == "plist" and case.get("wrap") == "from"
        if de is not None:
            if de and root != 0:
                raw.append(("C02", "equal-but-cost:" + case["kind"], f"equal {case['kind']} documents but cost {root}"))
            if not de and root == 0:
                raw.append(("C02", "differ-but-zero:" + case["kind"], f"different {case['kind']} documents but cost 0"))
            if de != obs["eq"] and not case["kind"] == "plist":
                raw.append(("C02", "node-eq-vs-data-eq:" + case["kind"], f"tree equality {obs['eq']} but documents are {'equal' if de else 'different'}"))
    # ---- C10: list edits disabled (always, or for equal lengths): rows of a CSV table, cells of a row and children of
    # an XML element are paired strictly by position; only a surplus tail is removed or inserted
    if case["kind"] in ("csv", "xml"):
        ale = case.get("opts", {}).get("allow_list_edits", True)
        alesl = case.get("opts", {}).get("allow_list_edits_when_same_length", True)

        def pos(node, path="/"):
            kind, subs, n, m = node[0], node[4], node[5], node[6]
            if kind in ("EditDistance", "FixedLengthSequenceEdit") and ((not ale) or (n == m and not alesl)):
                k = min(n, m)
                want = [("pair", i, i) for i in range(k)] + [("Remove", i, None) for i in range(k, n)] \
                    + [("Insert", None, i) for i in range(k, m)]
                got = [(s[0] if s[0] in ("Remove", "Insert") else "pair", s[1], s[2]) for s in subs]
                if got != want:
                    raw.append(("C10", "list-edits-off-not-positional:" + case["kind"],
                                f"list edits disabled ({'always' if not ale else 'for equal lengths'}) but the {kind} over {n} / {m} elements at {path} is not positional: {got}"))
            for i, s in enumerate(subs):
                pos(s, path + str(i) + "/")
        pos(obs["script"])
    # ---- C10 on XML attributes: the dictionary strategy reaches every element's attribute mapping
    if case["kind"] == "xml":
        ake = case.get("opts", {}).get("allow_key_edits", True)
        amk = case.get("opts", {}).get("auto_match_keys", True)

        def rec(node, path="/"):
            kind, subs = node[0], node[4]
            if not ake and kind == "MultiSetEdit":
                raw.append(("C10", "none-strategy-multiset:xml", f"dict strategy none, but attributes at {path} are compared with key edits (MultiSetEdit)"))
            if not ake and kind == "KeyValuePairEdit" and subs and isinstance(subs[0][3], int) and subs[0][3] > 0:
                raw.append(("C10", "none-cross-key:xml", f"dict strategy none, but two attributes with different names are paired at {path}"))
            for i, s in enumerate(subs):
                rec(s, path + str(i) + "/")
        rec(obs["script"])
    return [{"prop": p, "key": k, "what": w} for p, k, w in raw]


def classify(case, obs):
    if not isinstance(obs, dict) or obs.get("error"):
        return case["kind"] + ":error"
    o = case.get("opts", {})
    tag = ("-l" if not o.get("allow_list_edits", True) else "") + ("-ll" if not o.get("allow_list_edits_when_same_length", True) else "")
    return case["kind"] + (tag and "|" + tag) + ":" + obs["script"][0]


def nontrivial(case, obs):
    return isinstance(obs, dict) and not obs.get("error") and bool(obs["script"][4])

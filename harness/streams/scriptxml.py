"""Stream `scriptxml`: the fully refined edit script of the REAL engine for a pair of XML / HTML element trees
(`graphtage.xml.build_tree`, the builder behind both the XML and the HTML file type), compared EXACTLY with the
Lean model `GtModel.Xml.xmlEdits` (Model/XmlEdits.lean, layer L2x on top of L2), plus independent monitors for
C01 (accounting), C02 (zero cost iff equal), C03 (cost = sum of parts, three views) and C10 (the dictionary strategy
reaches the attribute mappings; with list edits disabled the children of every element are paired by position).

Kinds of cases
  xml    {"f": doc, "t": doc, "opts": {...}, "via": None | "xml" | "html"}
         doc = {"tag": str, "attrib": {name: value}, "text": str | None, "children": [doc], "tail": str | None}
         ("tail" optional: ElementTree's text AFTER the element's end tag; only for non-root elements)
         via None: the ElementTree elements are constructed directly (any code point may occur);
         via "xml"/"html": the document is serialised to a FILE ("ser": "auto" = ElementTree's ns0: prefixes,
         "default" = the root's namespace as default namespace, "prefixed" = registered prefixes pa: / pb:) and the
         path is handed to the registered file type's `build_tree`; the documents ElementTree parses back from the
         files are what the model is given (parsing is outside graphtage).
         Tags and attribute names may carry a namespace in ElementTree's form `{urn:a}item`, `{urn:a}k`; for graphtage
         (and the model) they are opaque strings, so two documents that differ only in a namespace DIFFER.
  space  {"lo": a, "hi": b, "strs": [...]}: `str.isspace()` on every code point of [a, b) and `str.strip()` on the
         strings, against the model's white-space table (`XMLElement.__eq__` strips the text).

Script node: [kind, fi, ti, cost, subs] as in stream `script`, with the additional kind "xml" (XMLElementEdit);
the sub-edits of an XMLElementEdit are indexed in `XMLElement.children()` = (tag, attrib, [text], _children).
The assignment-solver answers (attribute MultiSetEdits) are recorded by `script.worker_init` and shipped as oracle.
"""
import json

from harness.streams import script as S

NAME = "scriptxml"

# the six option sets of stream `script` (default, -k, match, -l, -ll, -k -l) plus -l -ll and -k -ll: eight
OPT_SETS = S.OPT_SETS + [
    {"allow_list_edits": False, "allow_list_edits_when_same_length": False},
    {"allow_key_edits": False, "auto_match_keys": False, "allow_list_edits_when_same_length": False},
]
LIST_OFF = [o for o in OPT_SETS if not o.get("allow_list_edits", True) or not o.get("allow_list_edits_when_same_length", True)]
VIAS = [None, "xml", "html"]

TAGS = ["a", "b", "item", "row", "x", "ab"]
TEXTS = [None, None, "", "t", "text", "hello", " hello ", "hellp", "hello\n", "\n  ", " ", "1", "2", " t", "t ",
         "te xt", "\tt"]
ATTRS = ["k", "id", "n", "cls", "kk", "i"]
VALS = ["1", "2", "a", "b", "ab", "abc", "", "x y", "10", " 1"]
TAILS = ["\n", "\n  ", " tail", "three", " three ", "x"]
# namespaced names in ElementTree's form; used by the documents generated with ns=True
NS_TAGS = ["{urn:a}item", "{urn:b}item", "{urn:a}row", "{urn:b}x", "item", "row"]
NS_ATTRS = ["{urn:a}k", "{urn:b}k", "{urn:a}id", "k", "id", "n"]
URIS = ["urn:a", "urn:b"]
WEIRD = ["\x1ct", "t\x1f", "\x85t", " t　", "​t", " ", "﻿t", "t᠎"]   # only via None


def gen_xml(r, d=0, maxd=3, weird=False, ns=False):
    n = 0 if d >= maxd else r.choice([0, 0, 1, 1, 2, 2, 3, 4])
    texts = TEXTS + (WEIRD if weird else [])
    tags, attrs = (NS_TAGS, NS_ATTRS) if ns else (TAGS, ATTRS)
    x = {"tag": r.choice(tags), "attrib": {a: r.choice(VALS) for a in r.sample(attrs, r.choice([0, 0, 1, 1, 2, 3]))},
         "text": r.choice(texts), "children": [gen_xml(r, d + 1, maxd, weird, ns) for _ in range(n)]}
    if d > 0 and r.random() < 0.3:
        x["tail"] = r.choice(TAILS)
    return x


def _ws_variant(r, s):
    """the same text up to surrounding white space (or absent / empty)"""
    if s is None or s.strip() == "":
        return r.choice([None, "", " ", "\n\t", None])
    core = s.strip()
    return r.choice(["", " ", "\n", "  "]) + core + r.choice(["", " ", "\n"])


def split_ns(name):
    """('urn:a', 'item') for '{urn:a}item', (None, 'item') for 'item'"""
    if name.startswith("{") and "}" in name:
        uri, local = name[1:].split("}", 1)
        return uri, local
    return None, name


def ns_variants(name):
    """the same local name in every other namespace (and in none)"""
    uri, local = split_ns(name)
    return [local if u is None else "{" + u + "}" + local for u in URIS + [None] if u != uri]


def other_ns(r, name):
    return r.choice(ns_variants(name))


def has_ns(x):
    return x["tag"].startswith("{") or any(a.startswith("{") for a in x["attrib"]) or any(has_ns(c) for c in x["children"])


def ns_only(r, x):
    """a copy of x in which exactly ONE tag or ONE attribute name changed its namespace — nothing else differs"""
    nodes = []

    def walk(n, path):
        nodes.append(path)
        for i, c in enumerate(n["children"]):
            walk(c, path + [i])
    walk(x, [])
    target = r.choice(nodes)

    def copy(n, path):
        y = {"tag": n["tag"], "attrib": dict(n["attrib"]), "text": n["text"],
             "children": [copy(c, path + [i]) for i, c in enumerate(n["children"])]}
        if n.get("tail") is not None:
            y["tail"] = n["tail"]
        if path == target:
            renames = [(a, na) for a in y["attrib"] for na in ns_variants(a) if na not in y["attrib"]]
            if renames and r.random() < 0.4:
                a, na = r.choice(renames)
                y["attrib"] = {(na if k == a else k): v for k, v in y["attrib"].items()}     # same position
            else:
                y["tag"] = other_ns(r, y["tag"])
        return y
    return copy(x, [])


def mut_xml(r, x, d=0, weird=False, ns=False):
    y = {"tag": x["tag"], "attrib": dict(x["attrib"]), "text": x["text"],
         "children": [mut_xml(r, c, d + 1, weird, ns) if r.random() < 0.4 else c for c in x["children"]]}
    if x.get("tail") is not None:
        y["tail"] = x["tail"]
    if d > 0 and r.random() < 0.12:
        y["tail"] = r.choice(TAILS + [None])     # D23: never seen by graphtage
    k = r.random()
    if k < 0.10:
        y["tag"] = r.choice(TAGS)
    elif k < 0.20:
        y["text"] = r.choice(TEXTS + (WEIRD if weird else []))
    elif k < 0.32:
        y["text"] = _ws_variant(r, y["text"])
    elif k < 0.42:
        y["attrib"][r.choice(ATTRS)] = r.choice(VALS)
    elif k < 0.50 and y["attrib"]:
        y["attrib"].pop(r.choice(list(y["attrib"])))
    elif k < 0.56 and y["attrib"]:
        a = r.choice(list(y["attrib"]))
        v = y["attrib"].pop(a)
        y["attrib"][a + "x"] = v
    elif k < 0.62 and len(y["attrib"]) > 1:
        items = list(y["attrib"].items())
        r.shuffle(items)
        y["attrib"] = dict(items)
    elif k < 0.72 and y["children"]:
        y["children"].pop(r.randrange(len(y["children"])))
    elif k < 0.84 and d < 3:
        y["children"].insert(r.randint(0, len(y["children"])), gen_xml(r, d + 1, 3, weird, ns))
    elif k < 0.90 and len(y["children"]) >= 2:
        i, j = r.sample(range(len(y["children"])), 2)
        y["children"][i], y["children"][j] = y["children"][j], y["children"][i]
    elif k < 0.93 and len(y["children"]) >= 2:
        y["children"] = y["children"][1:] + y["children"][:1]      # same length, every child shifted
    elif k >= 0.93 and ns:
        # ONLY the namespace of this element's tag or of one attribute name changes
        if y["attrib"] and r.random() < 0.4:
            a = r.choice(list(y["attrib"]))
            na = other_ns(r, a)
            if na not in y["attrib"]:
                y["attrib"] = {(na if kk == a else kk): v for kk, v in y["attrib"].items()}
        else:
            y["tag"] = other_ns(r, y["tag"])
    return y


def el(tag, attrib=None, text=None, children=(), tail=None):
    x = {"tag": tag, "attrib": dict(attrib or {}), "text": text, "children": list(children)}
    if tail is not None:
        x["tail"] = tail
    return x


FORCED = [
    (el("a"), el("a")), (el("a"), el("b")), (el("a", text="x"), el("a")), (el("a"), el("a", text="x")),
    (el("a", text=" x "), el("a", text="x")), (el("a", text=""), el("a")), (el("a"), el("a", text="  ")),
    (el("a", {"k": "1"}, " x "), el("a", {"k": "2"}, "x")),                 # whitespace-only text difference in unequal parents
    (el("a", {"k": "1"}), el("a", {"k": "1"}, "  ")),
    (el("r", {"k": "1"}, None, [el("b")]), el("r", {"k": "1"}, " q ", [el("c")])),
    (el("r", {}, None, [el("b", text=" y "), el("c")]), el("r", {}, None, [el("b", text="y"), el("d"), el("e")])),
    (el("r", {}, None, [el("b")]), el("r", {}, None, [el("c")])),          # FixedLengthSequenceEdit (1 vs 1)
    (el("p", {}, "one ", [el("b", {}, "two", tail=" three")]), el("p", {}, "one ", [el("b", {}, "two", tail=" FOUR")])),   # D23
    (el("p", {}, None, [el("b", tail="x"), el("c")]), el("p", {}, None, [el("b"), el("c", tail="x")])),                   # D23
    (el("r", {}, None, [el("b"), el("c")]), el("r", {}, None, [el("c"), el("b")])),
    (el("r", {}, None, []), el("r", {}, None, [el("c")])), (el("r", {}, None, [el("c"), el("c")]), el("r", {}, None, [])),
    (el("r", {"a": "1", "b": "2"}), el("r", {"b": "2", "a": "1"})), (el("r", {"a": "1", "b": "2"}), el("r", {"b": "1", "a": "2"})),
    (el("r", {"a": "1", "b": "2", "c": "3"}), el("r", {"ax": "1", "d": "2"})),
    (el("r", {"k": "aaaaaaaaaaaa", "b": "2", "c": "3"}), el("r", {"y": "aaaaaaaaaaab"})),
    (el("r", {}, None, [el("i", {"id": "1"}, "a"), el("i", {"id": "2"}, "b"), el("i", {"id": "3"}, "c")]),
     el("r", {}, None, [el("i", {"id": "1"}, "a"), el("i", {"id": "3"}, "c")])),
    (el("r", {}, "t", [el("i", {"id": "1", "n": "x"}, None, [el("j", {"k": "1"}), el("j", {"k": "2"})])]),
     el("r", {}, None, [el("i", {"id": "1", "m": "x"}, None, [el("j", {"k": "2"}), el("j", {"kk": "1"})]), el("i")])),
    # the list options: same number of children shifted / swapped (default, -l and -ll give different scripts), a
    # surplus tail, and the same one level down
    (el("r", {}, None, [el("a"), el("b"), el("c")]), el("r", {}, None, [el("b"), el("c"), el("a")])),
    (el("r", {}, None, [el("a"), el("b"), el("c")]), el("r", {}, None, [el("b"), el("c")])),
    (el("r", {}, None, [el("b"), el("c")]), el("r", {}, None, [el("a"), el("b"), el("c")])),
    (el("r", {}, None, [el("i", {"id": "1"}, "a"), el("i", {"id": "2"}, "b"), el("i", {"id": "3"}, "c")]),
     el("r", {}, None, [el("i", {"id": "0"}, "z"), el("i", {"id": "1"}, "a"), el("i", {"id": "2"}, "b")])),
    (el("r", {}, None, [el("g", {}, None, [el("a"), el("b"), el("c")]), el("h")]),
     el("r", {}, None, [el("g", {}, None, [el("c"), el("a"), el("b")]), el("h", {}, "x")])),
    (el("r", {}, None, [el("g", {}, None, [el("a"), el("b"), el("c")]), el("h")]),
     el("r", {}, None, [el("h"), el("g", {}, None, [el("b"), el("c")]), el("x")])),
    # namespaces: documents that differ ONLY in the namespace of a tag or of an attribute name
    (el("{urn:a}item"), el("{urn:b}item")), (el("{urn:a}item"), el("item")), (el("item", text="x"), el("{urn:b}item", text="x")),
    (el("r", {"{urn:a}k": "1"}), el("r", {"{urn:b}k": "1"})), (el("r", {"{urn:a}k": "1", "n": "2"}), el("r", {"k": "1", "n": "2"})),
    (el("{urn:a}r", {"{urn:a}k": "1"}, None, [el("{urn:a}item", {"id": "1"}, "x"), el("{urn:a}item", {"id": "2"}, "y")]),
     el("{urn:a}r", {"{urn:a}k": "1"}, None, [el("{urn:a}item", {"id": "1"}, "x"), el("{urn:b}item", {"id": "2"}, "y")])),
    (el("{urn:a}r", {}, None, [el("{urn:a}item", {"{urn:a}id": "1"}, "x")]), el("{urn:a}r", {}, None, [el("{urn:a}item", {"id": "1"}, "x")])),
    (el("{urn:a}r", {}, None, [el("{urn:a}item"), el("{urn:a}row")]), el("{urn:a}r", {}, None, [el("{urn:a}item"), el("{urn:a}row")])),
]
SERS = ["auto", "default", "prefixed"]


def gen(rng, tier):
    n = 120 if tier == "quick" else 2500
    cases = []
    for p, (f, t) in enumerate(FORCED):
        for j, o in enumerate(OPT_SETS):
            # every forced pair under all eight option sets; the path (direct ElementTree elements / the registered
            # XML file type / the registered HTML file type) rotates with the pair, so every (option set, path)
            # combination occurs on a third of the pairs
            c = {"kind": "xml", "f": f, "t": t, "opts": o}
            if VIAS[(p + j) % 3]:
                c["via"] = VIAS[(p + j) % 3]
                if has_ns(f) or has_ns(t):
                    c["ser"] = SERS[(p + j // 3) % 3]
            cases.append(c)
    for i in range(n):
        weird = rng.random() < 0.15
        ns = not weird and rng.random() < 0.25        # a quarter of the pairs use namespaced tags / attribute names
        maxd = rng.choice([1, 2, 2, 3])
        a = gen_xml(rng, 0, maxd, weird, ns)
        b = mut_xml(rng, a, 0, weird, ns) if rng.random() < 0.85 else gen_xml(rng, 0, maxd, weird, ns)
        for _ in range(3):          # few equal pairs here (they have their own generator below); several edits per pair
            if xml_eq(a, b) or rng.random() < 0.35:
                b = mut_xml(rng, b, 0, weird, ns)
        # half of the pairs run with one of the list options off
        c = {"kind": "xml", "f": a, "t": b, "opts": rng.choice(LIST_OFF) if rng.random() < 0.4 else rng.choice(OPT_SETS)}
        if not weird and rng.random() < 0.4:
            c["via"] = rng.choice(["xml", "html"])
            if ns:
                c["ser"] = rng.choice(SERS)
        cases.append(c)
    for i in range(n // 5):     # documents that differ in NOTHING but the namespace of one tag or one attribute name
        a = gen_xml(rng, 0, rng.choice([1, 2, 2, 3]), False, rng.random() < 0.8)
        c = {"kind": "xml", "f": a, "t": ns_only(rng, a), "opts": rng.choice(OPT_SETS)}
        if i % 3:
            c["via"] = ("xml", "html")[i % 2]
            c["ser"] = SERS[(i // 3) % 3]
        cases.append(c)
    for _ in range(n // 6):     # equal up to attribute order and surrounding white space
        a = gen_xml(rng, 0, 2)

        def same(x):
            items = list(x["attrib"].items())
            rng.shuffle(items)
            y = {"tag": x["tag"], "attrib": dict(items), "text": _ws_variant(rng, x["text"]) if rng.random() < 0.5 else x["text"],
                 "children": [same(c) for c in x["children"]]}
            if x.get("tail") is not None:
                y["tail"] = x["tail"]
            return y
        cases.append({"kind": "xml", "f": a, "t": same(a), "opts": rng.choice(OPT_SETS)})
    # white space table
    strs = ["", " ", " a ", "\ta\n", "a b", "\x1c\x1d\x1e\x1fa\x85\xa0", "   a    　",
            "​a", "a᠎", "﻿a", "   ", "\x0b\x0c\r a \x00"]
    if tier == "quick":
        cases.append({"kind": "space", "lo": 0, "hi": 0x3100, "strs": strs})
    else:
        for lo in range(0, 0x110000, 0x8000):
            cases.append({"kind": "space", "lo": lo, "hi": lo + 0x8000, "strs": strs if lo == 0 else []})
    return cases


def shrink(case):
    if case.get("kind") != "xml":
        return
    base = {k: v for k, v in case.items() if k != "via"}
    for side in ("f", "t"):
        x = case[side]
        for c in x["children"]:
            yield dict(base, **{side: c})
        for i in range(len(x["children"])):
            yield dict(base, **{side: dict(x, children=x["children"][:i] + x["children"][i + 1:])})
        for i, c in enumerate(x["children"]):
            for g in c["children"]:
                yield dict(base, **{side: dict(x, children=x["children"][:i] + [g] + x["children"][i + 1:])})
            if c["attrib"] or c["text"] is not None:
                yield dict(base, **{side: dict(x, children=x["children"][:i] + [dict(c, attrib={}, text=None)] + x["children"][i + 1:])})
        for a in x["attrib"]:
            yield dict(base, **{side: dict(x, attrib={k: v for k, v in x["attrib"].items() if k != a})})
        if x["text"] is not None:
            yield dict(base, **{side: dict(x, text=None)})
        for i, c in enumerate(x["children"]):
            if c.get("tail") is not None:
                yield dict(base, **{side: dict(x, children=x["children"][:i] + [{k: v for k, v in c.items() if k != "tail"}] + x["children"][i + 1:])})
    if case.get("opts"):
        yield dict(base, opts={})


# ---------------------------------------------------------------------------------------------- implementation

def worker_init():
    S.worker_init()


def _to_et(x):
    import xml.etree.ElementTree as ET
    e = ET.Element(x["tag"], dict(x["attrib"]))
    e.text = x["text"]
    e.tail = x.get("tail")
    for c in x["children"]:
        e.append(_to_et(c))
    return e


def _from_et(e):
    # attributes as a list of pairs: observations travel as JSON with sorted keys, the order must survive
    return {"tag": e.tag, "attrib": [[k, v] for k, v in e.attrib.items()], "text": e.text, "tail": e.tail,
            "children": [_from_et(c) for c in e]}


def _undoc(x):
    return {"tag": x["tag"], "attrib": {k: v for k, v in x["attrib"]}, "text": x["text"], "tail": x.get("tail"),
            "children": [_undoc(c) for c in x["children"]]}


def dump(e, top=True):
    """`script.dump` extended by XMLElementEdit (kind "xml")."""
    from graphtage import Match, Replace, Remove, Insert, KeyValuePairEdit, StringEdit, FixedKeyDictNodeEdit
    from graphtage.sequences import FixedLengthSequenceEdit
    from graphtage.levenshtein import EditDistance
    from graphtage.multiset import MultiSetEdit
    from graphtage.xml import XMLElementEdit
    fi = None if top else S._index_in_parent(e.from_node)
    if isinstance(e, (Remove, Insert)):
        S._full(e)
        return ["remove" if isinstance(e, Remove) else "insert", fi, None, S._ub(e), []]
    ti = None if top else S._index_in_parent(e.to_node)
    if not top and e.to_node is e.from_node:
        ti = "="
    if isinstance(e, StringEdit):
        return ["str", fi, ti, S._ub(e), [dump(s, False) for s in e.edit_distance.edits()]]
    for cls, k in ((XMLElementEdit, "xml"), (KeyValuePairEdit, "kvp"), (FixedLengthSequenceEdit, "fixed"), (EditDistance, "ed"),
                   (MultiSetEdit, "ms"), (FixedKeyDictNodeEdit, "fk")):
        if isinstance(e, cls):
            return [k, fi, ti, S._ub(e), [dump(s, False) for s in e.edits()]]
    S._full(e)
    if isinstance(e, Match):
        return ["match", fi, ti, S._ub(e), []]
    if isinstance(e, Replace):
        return ["replace", fi, ti, S._ub(e), []]
    return ["other:" + type(e).__name__, fi, ti, S._ub(e), []]


def _same_et(a, b):
    return (a.tag == b.tag and list(a.attrib.items()) == list(b.attrib.items()) and (a.text or None) == (b.text or None)
            and (a.tail or None) == (b.tail or None) and len(a) == len(b) and all(_same_et(x, y) for x, y in zip(a, b)))


def _serialise(x, form="auto"):
    """the document as XML text: "auto" = ElementTree's generated ns0: prefixes, "default" = the root tag's namespace
    declared as the default namespace, "prefixed" = registered prefixes pa: / pb:.  A form ElementTree cannot produce
    for this document (unqualified names under a default namespace; an attribute that would collide) falls back to "auto"."""
    import xml.etree.ElementTree as ET
    e = _to_et(x)
    if form == "default" and x["tag"].startswith("{"):
        try:
            s = ET.tostring(e, encoding="unicode", default_namespace=split_ns(x["tag"])[0])
            if _same_et(ET.fromstring(s), e):     # (ElementTree writes a qualified attribute of the default namespace unprefixed)
                return s
        except Exception:
            pass
    if form == "prefixed":
        ET.register_namespace("pa", "urn:a")
        ET.register_namespace("pb", "urn:b")
        try:
            return ET.tostring(e, encoding="unicode")
        finally:
            for u in ("urn:a", "urn:b"):      # keep the worker's global prefix table as it was
                getattr(ET, "_namespace_map", {}).pop(u, None)
    return ET.tostring(e, encoding="unicode")


def _xml_file(x, form):
    import os, tempfile
    fd, path = tempfile.mkstemp(suffix=".xml", dir=S._tmpdir())
    with os.fdopen(fd, "wb") as fh:
        fh.write(_serialise(x, form).encode("utf-8"))
    return path


def _elements(e):
    yield e
    for c in e._children:
        yield from _elements(c)


def impl(case):
    if case["kind"] == "space":
        return {"spaces": [c for c in range(case["lo"], case["hi"]) if chr(c).isspace()],
                "stripped": [[ord(ch) for ch in s.strip()] for s in case["strs"]],
                "strip_is_isspace": all((chr(c).strip() == "") == chr(c).isspace() for c in range(case["lo"], case["hi"]))}
    import graphtage
    import xml.etree.ElementTree as ET
    from graphtage import xml as gx
    o = graphtage.BuildOptions(**case.get("opts", {}))
    via = case.get("via")
    docs = None
    paths = []
    try:
        if via:
            from graphtage.graphtage import FILETYPES_BY_TYPENAME
            ft = FILETYPES_BY_TYPENAME[via]          # the registered XML / HTML file type instances
            paths = [_xml_file(case[w], case.get("ser", "auto")) for w in ("f", "t")]
            docs = [_from_et(ET.parse(p).getroot()) for p in paths]
            build = lambda i: ft.build_tree(paths[i], o)
        else:
            build = lambda i: gx.build_tree(_to_et(case["ft"[i]]), o)
        return _impl_xml(case, build, docs)
    finally:
        import os
        for p in paths:
            try:
                os.unlink(p)
            except OSError:
                pass


def _impl_xml(case, build, docs):
    del S._RECORD[:]
    A, B = build(0), build(1)
    e = A.edits(B)
    S._full(e)
    script = dump(e)
    oracle = list(S._RECORD)
    root = S._ub(e)
    A2, B2 = build(0), build(1)
    edited = int(A2.diff(B2).edited_cost())
    A3, B3 = build(0), build(1)
    flat = 0
    for ed in A3.get_all_edits(B3):
        S._full(ed)
        flat += int(ed.bounds().upper_bound)
    A4, B4 = build(0), build(1)
    obs = {"script": script, "oracle": oracle, "root": root, "edited_cost": edited, "flat_sum": flat,
           "eq": bool(A4 == B4), "eq_rev": bool(B4 == A4), "sizes": [int(A.total_size), int(B.total_size)],
           "classes": [type(A.attrib).__name__, type(A._children).__name__,
                       bool(A._children.allow_list_edits), bool(A._children.allow_list_edits_when_same_length)],
           # the list flags of EVERY element's child list, both trees, as a set
           "list_flags": sorted({(bool(n._children.allow_list_edits), bool(n._children.allow_list_edits_when_same_length))
                                 for T in (A, B) for n in _elements(T)})}
    if docs is not None:
        obs["docs"] = docs
    return obs


# ---------------------------------------------------------------------------------------------- model side

def _s(x):
    return [ord(c) for c in x]


def enc(x):
    return {"tag": _s(x["tag"]), "attrib": [[_s(k), _s(v)] for k, v in x["attrib"].items()],
            "text": None if x["text"] is None else _s(x["text"]),
            "tail": None if x.get("tail") is None else _s(x["tail"]), "children": [enc(c) for c in x["children"]]}


def _docs(case, obs):
    if isinstance(obs, dict) and obs.get("docs"):
        return [_undoc(d) for d in obs["docs"]]
    return [case["f"], case["t"]]


def to_model(case, obs):
    if not isinstance(obs, dict) or obs.get("error"):
        return None
    if case["kind"] == "space":
        return {"s": "pyspace", "lo": case["lo"], "hi": case["hi"], "strs": [_s(x) for x in case["strs"]]}
    o = case.get("opts", {})
    f, t = _docs(case, obs)
    return {"s": "scriptxml", "f": enc(f), "t": enc(t),
            "ake": o.get("allow_key_edits", True), "amk": o.get("auto_match_keys", True),
            "ale": o.get("allow_list_edits", True), "alesl": o.get("allow_list_edits_when_same_length", True),
            "oracle": [r for r in obs.get("oracle", []) if "pairs" in r]}


def expect(case, obs):
    if case["kind"] == "space":
        return {"spaces": obs["spaces"], "stripped": obs["stripped"]}
    return {"script": obs["script"], "eq": obs["eq"], "sizes": obs["sizes"]}


# ---------------------------------------------------------------------------------------------- monitors

def xml_eq(a, b):
    """Specification of equality of two elements: same tag, same attributes (as a finite map), same text up to
    surrounding white space (absent = empty), pairwise equal children in order."""
    return (a["tag"] == b["tag"] and a["attrib"] == b["attrib"] and (a["text"] or "").strip() == (b["text"] or "").strip()
            and len(a["children"]) == len(b["children"]) and all(xml_eq(x, y) for x, y in zip(a["children"], b["children"])))


def tails_eq(a, b):
    """the tails (text after an element's end tag) of two structurally equal documents agree, modulo surrounding
    white space (indentation)"""
    return ((a.get("tail") or "").strip() == (b.get("tail") or "").strip()
            and len(a["children"]) == len(b["children"]) and all(tails_eq(x, y) for x, y in zip(a["children"], b["children"])))


def _attr_doc(x):
    return dict(x["attrib"])


def _seq_accounts(kind, subs, nf, nt, path, hits):
    fseen, tseen = [], []
    for s in subs:
        if s[0] == "insert":
            tseen.append(s[1])
        elif s[0] == "remove":
            fseen.append(s[1])
        else:
            fseen.append(s[1])
            tseen.append(s[2])
    for seen, n, side in ((fseen, nf, "first"), (tseen, nt, "second")):
        if seen != list(range(n)):
            if sorted(x for x in seen if isinstance(x, int)) != list(range(n)) or len(seen) != n:
                hits.append(("C01", f"accounts:{kind}:{side}:xml", f"{kind} edit at {path or '/'}: children of the {side} element list accounted {seen}, expected each of 0..{n - 1} exactly once"))
            else:
                hits.append(("C01", f"order:{kind}:{side}:xml", f"{kind} edit at {path or '/'}: {side} children out of order {seen}"))
            return False
    return True


def _walk(node, f, t, opts, hits, path=""):
    """node relates elements f and t (documents as parsed)."""
    kind, fi, ti, cost, subs = node
    if not isinstance(cost, int):
        hits.append(("C04", "non-definitive-final", f"edit {kind} at {path or '/'} is not definitive after full refinement: {cost}"))
        return
    if kind == "match":
        return
    if kind != "xml":
        hits.append(("C01", "element-edit-kind", f"two elements related by a {kind} edit at {path or '/'}"))
        return
    for s in subs:
        if not isinstance(s[3], int):
            hits.append(("C04", "non-definitive-final", f"sub-edit {s[0]} under {path or '/'} not definitive: {s[3]}"))
            return
    if sum(s[3] for s in subs) != cost:
        hits.append(("C03", "reported-ne-sum:xml", f"XMLElementEdit at {path or '/'} reports {cost} but its parts sum to {sum(s[3] for s in subs)}"))
    ftext = f["text"] if f["text"] else None
    ttext = t["text"] if t["text"] else None
    kf = 3 if ftext is not None else 2
    kt = 3 if ttext is not None else 2
    # ---- C01: the parts of the element edit: tag, attributes, text (when either side has one), children
    want = [("tag", 0, 0), ("attrib", 1, 1)]
    if ftext is not None and ttext is not None:
        want.append(("text", 2, 2))
    elif ftext is not None:
        want.append(("text-removed", 2, None))
    elif ttext is not None:
        want.append(("text-inserted", 2, None))
    want.append(("children", kf, kt))
    got = [(s[0], s[1], s[2]) for s in subs]
    ok = len(got) == len(want)
    if ok:
        for (what, wf, wt), (k, gf, gt) in zip(want, got):
            if what == "text-removed":
                ok = ok and k == "remove" and gf == 2
            elif what == "text-inserted":
                ok = ok and k == "insert" and gf == 2
            else:
                ok = ok and k not in ("remove", "insert") and gf == wf and gt == wt
    if not ok:
        hits.append(("C01", "accounts:xml-parts", f"XMLElementEdit at {path or '/'}: parts {got}, expected {want}"))
        return
    # attributes: an L2 script over the attribute mapping -> the monitors of stream `script`
    ad = subs[1]
    raw = []
    S._walk(ad, _attr_doc(f), _attr_doc(t), opts, raw, path + "/@")
    hits.extend(raw)
    for s, a, b in ((subs[0], f["tag"], t["tag"]),) + (((subs[2], ftext, ttext),) if ftext is not None and ttext is not None else ()):
        if s[0] == "str":
            raw = []
            S._walk(s, a, b, opts, raw, path + "/#")
            hits.extend(raw)
        if (s[3] == 0) != (a == b):
            hits.append(("C02", "string-part-zero-iff-equal:xml", f"string part {a!r} -> {b!r} at {path or '/'} costs {s[3]}"))
    # children
    ce = subs[-1]
    fl, tl = f["children"], t["children"]
    if ce[0] == "match":
        if ce[3] != 0 or not (len(fl) == len(tl) and all(xml_eq(x, y) for x, y in zip(fl, tl))):
            hits.append(("C02", "children-match-but-differ:xml", f"children at {path or '/'} reported as matching (cost {ce[3]}) but they differ"))
        return
    if ce[0] not in ("fixed", "ed"):
        hits.append(("C01", "children-edit-kind:xml", f"children at {path or '/'} edited by {ce[0]}"))
        return
    if sum(s[3] for s in ce[4] if isinstance(s[3], int)) != ce[3]:
        hits.append(("C03", "reported-ne-sum:" + ce[0] + ":xml", f"{ce[0]} edit over the children at {path or '/'} reports {ce[3]}, sub-edits sum to {sum(s[3] for s in ce[4] if isinstance(s[3], int))}"))
    if not _seq_accounts(ce[0], ce[4], len(fl), len(tl), path, hits):
        return
    # ---- C10: list edits disabled (always, or for equally many children): the children are paired strictly by
    # position and only a surplus tail is removed or inserted
    ale = opts.get("allow_list_edits", True)
    alesl = opts.get("allow_list_edits_when_same_length", True)
    if (not ale) or (len(fl) == len(tl) and not alesl):
        n = min(len(fl), len(tl))
        want = [("pair", i, i) for i in range(n)] + [("remove", i, None) for i in range(n, len(fl))] \
            + [("insert", i, None) for i in range(n, len(tl))]
        got = [(s[0] if s[0] in ("remove", "insert") else "pair", s[1], s[2]) for s in ce[4]]
        if got != want:
            hits.append(("C10", "list-edits-off-not-positional:xml", f"list edits disabled ({'always' if not ale else 'for equal lengths'}) but the {ce[0]} edit over the {len(fl)} / {len(tl)} children at {path or '/'} is not positional: {got}"))
    for s in ce[4]:
        if s[0] in ("remove", "insert"):
            continue
        _walk(s, fl[s[1]], tl[s[2]], opts, hits, path + "/" + str(s[1]))
        if s[0] == "match" and (s[3] == 0) != xml_eq(fl[s[1]], tl[s[2]]):
            hits.append(("C02", "child-zero-iff-equal:xml", f"children {s[1]} -> {s[2]} at {path or '/'} matched at cost {s[3]}"))


def monitor(case, obs):
    if not isinstance(obs, dict):
        return [{"prop": p, "key": "bad-observation", "what": repr(obs)[:200]} for p in ("C01", "C02", "C03", "C10")]
    if obs.get("error"):
        what = f"{obs.get('exc', obs['error'])}: {obs.get('msg', '')}"
        key = "internal-error:" + str(obs.get("exc", obs["error"]))
        return [{"prop": p, "key": key, "what": what} for p in ("C01", "C02", "C03", "C04", "C05", "C10")]
    if case["kind"] == "space":
        if not obs.get("strip_is_isspace"):
            return [{"prop": "C02", "key": "strip-vs-isspace", "what": "str.strip() and str.isspace() disagree on a code point"}]
        return []
    opts = case.get("opts", {})
    f, t = _docs(case, obs)
    raw = []
    _walk(obs["script"], f, t, opts, raw)
    root = obs["script"][3]
    if isinstance(root, int):
        if not (obs["edited_cost"] == obs["flat_sum"] == root):
            raw.append(("C03", "three-views:xml", f"annotated tree says {obs['edited_cost']}, flat edit list sums to {obs['flat_sum']}, root edit reports {root}"))
        de = xml_eq(f, t)
        if de and root != 0:
            raw.append(("C02", "equal-but-cost:xml", f"elements are equal but cost is {root}"))
        if not de and root == 0:
            raw.append(("C02", "differ-but-zero:xml", "elements differ but the reported cost is 0"))
        if de and not tails_eq(f, t) and root == 0:
            raw.append(("C02", "differ-but-zero:xml-tail", "the documents differ in text that follows a child element (ElementTree tail) but the reported cost is 0"))
        if not de and obs["edited_cost"] == 0:
            raw.append(("C02", "differ-but-zero-annotated:xml", "elements differ but edited_cost() is 0"))
        if de != obs["eq"] or obs["eq"] != obs["eq_rev"]:
            raw.append(("C02", "node-eq-vs-data-eq:xml", f"tree equality is {obs['eq']} / reversed {obs['eq_rev']} but the elements are {'equal' if de else 'different'}"))
    # C10: the dictionary strategy reaches the attribute mappings (the list options: behavioural check in `_walk`)
    cl = obs.get("classes")
    if cl:
        want = "DictNode" if opts.get("allow_key_edits", True) else "FixedKeyDictNode"
        if cl[0] != want:
            raw.append(("C10", "attrib-class:xml", f"attributes built as {cl[0]}, options ask for {want}"))
    return [{"prop": p, "key": k, "what": w} for p, k, w in raw]


def classify(case, obs):
    if case["kind"] == "space":
        return "space"
    if not isinstance(obs, dict) or obs.get("error"):
        return "xml:error"
    kinds = set()
    depth = [0]

    def rec(n, d):
        kinds.add(n[0])
        if n[0] == "xml":
            depth[0] = max(depth[0], d)
        for s in n[4]:
            rec(s, d + (1 if n[0] == "xml" else 0))
    rec(obs["script"], 1)
    o = case.get("opts", {})
    tag = "none" if not o.get("allow_key_edits", True) else ("match" if not o.get("auto_match_keys", True) else "auto")
    if not o.get("allow_list_edits", True):
        tag += "-l"
    if not o.get("allow_list_edits_when_same_length", True):
        tag += "-ll"
    comp = "+".join(sorted(k for k in kinds if k in ("ed", "fixed", "ms", "fk", "str", "insert", "remove"))) or "flat"
    nsm = ""
    if has_ns(case["f"]) or has_ns(case["t"]):
        nsm = "+ns" + (":" + case["ser"] if case.get("via") and case.get("ser") else "")
    return f"xml{'/' + case['via'] if case.get('via') else ''}{nsm}|{tag}|{obs['script'][0]}|depth={depth[0]}|{comp}|oracle={min(len(obs.get('oracle', [])), 3)}"


def nontrivial(case, obs):
    return case["kind"] == "xml" and isinstance(obs, dict) and not obs.get("error") and obs["script"][0] == "xml"

"""Stream `strscript`: per-character edit script of StringNode(a).edits(StringNode(b)) (model: GtModel.EditMatrix.strScript).

A case is {"a": "<string>", "b": "<string>", "drive": "tighten"|"edits"|"bounds"}.
`impl` runs the REAL StringNode.edits; for a StringEdit it fully tightens it and reads `edit.edit_distance.edits()`
exactly as StringFormatter.print_StringEdit does (Match of equal chars = kept, Match of different chars =
substitution (printed as removed + inserted), Remove, Insert).

The monitor decides C11 on the observation alone with an independent LCS dynamic program.
"""
import itertools

NAME = "strscript"
DRIVES = ("tighten", "edits", "bounds")


# ------------------------------------------------------------------------------------------------ generator

def _all_strings(alphabet, maxlen):
    for n in range(maxlen + 1):
        for t in itertools.product(alphabet, repeat=n):
            yield "".join(t)


def _rand_pair(rng):
    k = rng.randint(2, 4)
    alpha = "abcd"[:k]
    style = rng.random()

    def s(maxlen):
        return "".join(rng.choice(alpha) for _ in range(rng.randint(0, maxlen)))
    if style < 0.35:
        a, b = s(12), s(12)
    elif style < 0.7:
        # shared ends around different middles
        p, q = s(4), s(4)
        a, b = p + s(8) + q, p + s(8) + q
    elif style < 0.85:
        # b is an edited copy of a
        a = s(12)
        bl = list(a)
        for _ in range(rng.randint(1, 4)):
            op = rng.random()
            pos = rng.randint(0, len(bl))
            if op < 0.4:
                bl.insert(pos, rng.choice(alpha))
            elif bl and op < 0.8:
                del bl[min(pos, len(bl) - 1)]
            elif bl:
                bl[min(pos, len(bl) - 1)] = rng.choice(alpha)
        b = "".join(bl)
    else:
        # long runs of a repeated character
        a = "".join(rng.choice(alpha) * rng.randint(1, 4) for _ in range(rng.randint(0, 4)))[:12]
        b = "".join(rng.choice(alpha) * rng.randint(1, 4) for _ in range(rng.randint(0, 4)))[:12]
    return a, b


def gen(rng, tier):
    quick = tier == "quick"
    cases = []
    k = 0
    alpha, maxlen = ("ab", 4) if quick else ("abc", 5)
    strings = list(_all_strings(alpha, maxlen))
    for a in strings:
        for b in strings:
            cases.append({"a": a, "b": b, "drive": DRIVES[k % 3]})
            k += 1
    for _ in range(2000 if quick else 40000):
        a, b = _rand_pair(rng)
        cases.append({"a": a, "b": b, "drive": rng.choice(DRIVES)})
    for _ in range(30 if quick else 300):
        n = rng.choice([20, 30, 40])
        alpha2 = "ab" if rng.random() < 0.5 else "abcdefgh"
        a = "".join(rng.choice(alpha2) for _ in range(rng.randint(n // 2, n)))
        b = "".join(rng.choice(alpha2) for _ in range(rng.randint(n // 2, n)))
        cases.append({"a": a, "b": b, "drive": rng.choice(DRIVES)})
    # a few hundred characters: accumulated costs and path lengths cross 8-bit limits (128, 255, 256, 512)
    for i in range(14 if quick else 120):
        la, lb = rng.choice([(100, 60), (128, 128), (130, 126), (200, 180), (255, 255), (256, 2), (300, 280), (129, 127)])
        kind = i % 4
        if kind == 0:      # nothing in common
            a = "".join(rng.choice("abcdefghijklm") for _ in range(la))
            b = "".join(rng.choice("nopqrstuvwxyz") for _ in range(lb))
        elif kind == 1:    # one common character in the middle of otherwise disjoint strings
            a = "a" * (la // 2) + "M" + "a" * (la - la // 2 - 1)
            b = "b" * (lb // 2) + "M" + "b" * (lb - lb // 2 - 1)
        elif kind == 2:    # random over a medium alphabet
            a = "".join(rng.choice("abcdefghijklmnopqrstuvwxyz") for _ in range(la))
            b = "".join(rng.choice("abcdefghijklmnopqrstuvwxyz") for _ in range(lb))
        else:              # a long common run with different ends
            mid = "".join(rng.choice("xyz") for _ in range(min(la, lb) // 2))
            a = "a" * ((la - len(mid)) // 2) + mid + "c" * (la - len(mid) - (la - len(mid)) // 2)
            b = "b" * ((lb - len(mid)) // 2) + mid + "d" * (lb - len(mid) - (lb - len(mid)) // 2)
        cases.append({"a": a, "b": b, "drive": DRIVES[i % 3]})
    # the same few distinct non-ASCII characters in another order (sizes measured in code points, not bytes)
    for a, b in [("\u00e9\u00fc", "\u00fc\u00e9"), ("\u65e5\u672c", "\u672c\u65e5"), ("\u03b1\u03b2\u03b3", "\u03b3\u03b1\u03b2"),
                 ("\U0001F600\U0001F601x", "x\U0001F601\U0001F600"), ("a\u00e9b\u00fcc", "c\u00fcb\u00e9a")]:
        cases.append({"a": a, "b": b, "drive": DRIVES[len(cases) % 3]})
    for _ in range(20 if quick else 300):
        al = rng.choice(["\u00e9\u00fc\u00e8", "\u65e5\u672c\u8a9e", "\u03b1\u03b2\u03b3\u03b4", "a\u00e9\U0001F600"])
        a = "".join(rng.choice(al) for _ in range(rng.randint(1, 6)))
        b = "".join(rng.choice(al) for _ in range(rng.randint(1, 6)))
        cases.append({"a": a, "b": b, "drive": rng.choice(DRIVES)})
    # bytes objects (pickles, the Python-object builders): the same algorithm over ints
    small = list(_all_strings("ab", 3))
    for a in small:
        for b in small:
            cases.append({"a": a, "b": b, "drive": DRIVES[len(cases) % 3], "bytes": True})
    for _ in range(150 if quick else 3000):
        al = rng.choice(["ab", "abc\x00\xff", "\n\t x", "abcdefgh"])
        a = "".join(rng.choice(al) for _ in range(rng.randint(0, 9)))
        b = "".join(rng.choice(al) for _ in range(rng.randint(0, 9)))
        cases.append({"a": a, "b": b, "drive": rng.choice(DRIVES), "bytes": True})
    # a few non-ASCII / special characters
    for a, b in [("é", "e"), ("naïve", "naive"), ("\u0000a", "a\u0000"), ("a\nb", "ab\n"), ("😀x", "x😀"), ("\"q\"", "q")]:
        cases.append({"a": a, "b": b, "drive": "tighten"})
    for i, c in enumerate(cases):      # alternate the status-output flag deterministically
        c.setdefault("quiet", i % 2 == 1)
        if i % (7 if quick else 5) == 0 and len(c["a"]) + len(c["b"]) <= 40:
            c["shown"] = True          # also read the coloured rendering back
    # bytes strings sharing a NUL / quote / backslash: what is shown must be what the script says
    for a, b in [("a\x00b", "a\x00c"), ("\x00", "\x00\x00"), ('a"b', 'a"c'), ("x\\y", "x\\z"), ("\x00ab\x00", "ab\x00")]:
        cases.append({"a": a, "b": b, "drive": "tighten", "bytes": True, "shown": True, "quiet": True})
        cases.append({"a": a, "b": b, "drive": "tighten", "shown": True, "quiet": True})
    # strings with line breaks rendered by the YAML formatter (block scalars; a changed newline is shown as a marked U+23CE):
    # what is shown on red / green must be what the script removes / inserts
    nl = [("ab", "a\nb"), ("a\nb", "ab"), ("x", "x\n"), ("\na", "a"), ("a", "\na"), ("a\nb\n", "a\nc\nb\n"),
          ("a\n\nb", "a\nb"), ("ab\nba", "ba\nab"), ("\n", "\n\n"), ("a\nb", "a\nb\nc")]
    for _ in range(40 if quick else 600):
        nl.append(("".join(rng.choice("ab\n") for _ in range(rng.randint(1, 7))), "".join(rng.choice("ab\n") for _ in range(rng.randint(1, 7)))))
    for a, b in nl:
        cases.append({"a": a, "b": b, "drive": "tighten", "shown": True, "yaml": True, "quiet": True})
    # several comparisons of the SAME shape alive at once, refined in turns
    for _ in range(40 if quick else 600):
        k = rng.randint(2, 4)
        la, lb = rng.randint(2, 6), rng.randint(2, 6)
        al = rng.choice(["ab", "abc", "abcdef"])
        pairs = [["".join(rng.choice(al) for _ in range(la)), "".join(rng.choice(al) for _ in range(lb))] for _ in range(k)]
        cases.append({"multi": pairs, "a": "", "b": "", "drive": "tighten", "quiet": True})
    return cases


# ------------------------------------------------------------------------------------------------ implementation

def impl(case):
    """Every case runs with the default printer's `quiet` flag as the case says (status output is an API-visible
    global that `EditDistance.tighten_bounds` consults; the result must not depend on it)."""
    import graphtage.printer, graphtage.levenshtein
    q = bool(case.get("quiet", False))
    olds = (graphtage.printer.DEFAULT_PRINTER.quiet, graphtage.levenshtein.DEFAULT_PRINTER.quiet)
    graphtage.printer.DEFAULT_PRINTER.quiet = q
    graphtage.levenshtein.DEFAULT_PRINTER.quiet = q
    try:
        return _impl(case)
    finally:
        graphtage.printer.DEFAULT_PRINTER.quiet, graphtage.levenshtein.DEFAULT_PRINTER.quiet = olds


def _shown(a, b):
    """What is SHOWN for the diff of two strings: the coloured rendering of StringNode(a).diff(StringNode(b)) through the
    default formatter, read back as counts of characters printed plain / on red / on green (quotes, the b prefix of bytes
    and the arrow excluded).  None if the rendering cannot be read."""
    import io
    from graphtage import StringNode
    from graphtage import json as gj
    from graphtage.printer import Printer
    from harness.streams import render as R
    d = StringNode(a).diff(StringNode(b))
    buf = io.StringIO()
    p = Printer(out_stream=buf, ansi_color=True, quiet=True)
    gj.JSONFormatter.DEFAULT_INSTANCE.print(p, d)
    raw = buf.getvalue()
    try:
        seq = R.recover(raw)
    except Exception as e:          # noqa
        return {"unreadable": str(e)[:100], "raw": raw[:200]}
    text = {0: "", 1: "", 2: ""}
    for ch, m in seq:
        if m in text:
            text[m] += ch
    return {"plain": text[0], "removed": text[1], "inserted": text[2]}


def _shown_yaml(a, b):
    """The coloured rendering of the same string diff through the YAML formatter: the characters on red / green with the
    layout of block scalars (line breaks, indentation) and the combining strike / plus marks taken out; U+23CE stands for a
    changed newline.  Only used on strings over {a, b, newline}."""
    import io
    from graphtage import StringNode
    from graphtage import yaml as gy
    from graphtage.printer import Printer
    from harness.streams import render as R
    d = StringNode(a).diff(StringNode(b))
    buf = io.StringIO()
    p = Printer(out_stream=buf, ansi_color=True, quiet=True)
    gy.YAMLFormatter.DEFAULT_INSTANCE.print(p, d)
    raw = buf.getvalue()
    try:
        seq = R.recover(raw)
    except Exception as e:          # noqa
        return {"unreadable": str(e)[:100], "raw": raw[:200]}
    text = {1: "", 2: ""}
    for ch, m in seq:
        if m in text and ch in "abcx\u23ce":
            text[m] += ch
    return {"removed": text[1], "inserted": text[2]}


def _impl_multi(case):
    """several comparisons alive at once, refined in turns (what a mapping with renamed keys does to its candidate pairs)"""
    from graphtage import StringNode, StringEdit
    from graphtage.edits import Insert, Match, Remove
    pairs = case["multi"]
    edits = [StringNode(a).edits(StringNode(b)) for a, b in pairs]
    live = [e for e in edits if isinstance(e, StringEdit)]
    guard = 0
    while live:
        guard += 1
        if guard > 200000:
            raise RuntimeError("tighten_bounds does not terminate")
        live = [e for e in live if e.tighten_bounds()]
    out = []
    for (a, b), e in zip(pairs, edits):
        if not isinstance(e, StringEdit):
            out.append(None)
            continue
        kept = rem = ins = 0
        for sub in e.edit_distance.edits():
            if isinstance(sub, Match):
                if sub.from_node.object == sub.to_node.object:
                    kept += 1
                else:
                    rem += 1
                    ins += 1
            elif isinstance(sub, Remove):
                rem += 1
            elif isinstance(sub, Insert):
                ins += 1
        c = e.bounds()
        out.append([kept, rem, ins, int(c.lower_bound), int(c.upper_bound)])
    return {"kind": "multi", "multi": out}


def _impl(case):
    from graphtage import StringNode, StringEdit
    from graphtage.edits import Insert, Match, Remove
    if "multi" in case:
        return _impl_multi(case)
    a, b = case["a"], case["b"]
    if case.get("bytes"):
        # bytes objects: the elements graphtage compares are ints; reported here as the Latin-1 characters of the same
        # code so that model line, expectation and monitor are the ones of str
        a, b = a.encode("latin-1"), b.encode("latin-1")
    ch = lambda o: chr(o) if isinstance(o, int) else o
    e = StringNode(a).edits(StringNode(b))
    if isinstance(e, Match):
        cost = e.bounds()
        return {"kind": "match", "cost": [int(cost.lower_bound), int(cost.upper_bound)], "script": None}
    if not isinstance(e, StringEdit):
        return {"kind": type(e).__name__, "cost": None, "script": None}
    n = 0
    if case["drive"] == "tighten":
        while e.tighten_bounds():
            n += 1
            if n > 100000:
                raise RuntimeError("tighten_bounds does not terminate")
    elif case["drive"] == "bounds":
        e.bounds()
        while e.tighten_bounds():
            e.bounds()
            n += 1
            if n > 100000:
                raise RuntimeError("tighten_bounds does not terminate")
    script = []
    for sub in e.edit_distance.edits():
        c = sub.bounds()
        cc = [int(c.lower_bound), int(c.upper_bound)]
        if isinstance(sub, Match):
            if sub.from_node.object == sub.to_node.object:
                script.append(["k", ch(sub.from_node.object), cc])
            else:
                script.append(["s", ch(sub.from_node.object), ch(sub.to_node.object), cc])
        elif isinstance(sub, Remove):
            script.append(["r", ch(sub.from_node.object), cc])
        elif isinstance(sub, Insert):
            script.append(["i", ch(sub.to_insert.object), cc])
        else:
            script.append(["?", type(sub).__name__, cc])
    cost = e.bounds()
    obs = {"kind": "stringedit", "cost": [int(cost.lower_bound), int(cost.upper_bound)], "script": script,
           "tighten_after": bool(e.tighten_bounds())}
    if case.get("shown"):
        obs["shown"] = _shown(a, b)
    if case.get("yaml"):
        obs["shown_yaml"] = _shown_yaml(a, b)
    return obs


# ------------------------------------------------------------------------------------------------ model / expectation

def _ops(case, obs):
    """The per-character view: list of ["k",c] / ["r",c] / ["i",c] / ["s",x,y] (characters as strings)."""
    if obs["kind"] == "match":
        if obs["cost"] == [0, 0]:
            return "match0", [["k", ch] for ch in case["a"]]
        return "match1", [["s", case["a"], case["b"]]]
    return "stringedit", [op[:-1] for op in obs["script"]]


def to_model(case, obs):
    if not isinstance(obs, dict) or obs.get("error") or "multi" in case:
        return None
    return {"s": NAME, "a": [ord(ch) for ch in case["a"]], "b": [ord(ch) for ch in case["b"]]}


def expect(case, obs):
    if not isinstance(obs, dict) or obs.get("error"):
        return obs
    if obs["kind"] not in ("match", "stringedit") or obs["cost"] is None or obs["cost"][0] != obs["cost"][1]:
        return {"unexpected": obs}
    kind, ops = _ops(case, obs)
    if kind == "match1" and not (len(case["a"]) == 1 and len(case["b"]) == 1):
        return {"unexpected": obs}
    return {"kind": kind, "cost": obs["cost"][1], "script": [[op[0]] + [ord(x) for x in op[1:]] for op in ops]}


# ------------------------------------------------------------------------------------------------ monitor (C11)

def lcs_len(a, b):
    prev = [0] * (len(b) + 1)
    for x in a:
        cur = [0]
        for j, y in enumerate(b):
            cur.append(prev[j] + 1 if x == y else max(prev[j + 1], cur[j]))
        prev = cur
    return prev[len(b)]


def _hit(key, what):
    return {"prop": "C11", "key": key, "what": what}


def _monitor_multi(case, obs):
    hits = []
    for (a, b), r in zip(case["multi"], obs.get("multi") or []):
        if r is None:
            continue
        kept, rem, ins, lo, hi = r
        L = lcs_len(a, b)
        if kept != L or rem + ins != len(a) + len(b) - 2 * L:
            hits.append(_hit("string-not-lcs:interleaved", f"{len(case['multi'])} comparisons refined in turns: {a!r} -> {b!r} keeps {kept} characters, the longest common subsequence has {L}"))
            break
        if lo != hi or hi != rem + ins:
            hits.append(_hit("string-cost:interleaved", f"{a!r} -> {b!r} (refined in turns with others): bounds [{lo}, {hi}], {rem}+{ins} characters changed"))
            break
    return hits


def _monitor_shown(case, obs):
    """the characters SHOWN as unchanged / removed / inserted in the coloured rendering"""
    sh = obs.get("shown")
    if not sh:
        return []
    a, b = case["a"], case["b"]
    shy = obs.get("shown_yaml")
    if shy:
        if "unreadable" in shy:
            return [_hit("string-shown-unreadable:yaml", f"{a!r} -> {b!r}: the YAML rendering cannot be read back: {shy}")]
        ops = _ops(case, obs)[1]
        nrem = sum(1 for op in ops if op[0] in "rs")
        nins = sum(1 for op in ops if op[0] in "is")
        if len(shy["removed"]) != nrem or len(shy["inserted"]) != nins:
            return [_hit("string-shown-differs-from-script:yaml", f"{a!r} -> {b!r}: the YAML rendering shows {len(shy['removed'])} removed / {len(shy['inserted'])} inserted characters ({shy}), the script removes {nrem} and inserts {nins}")]
    if "unreadable" in sh:
        return [_hit("string-shown-unreadable", f"{a!r} -> {b!r}: the rendering cannot be read back: {sh}")]
    esc = (lambda x: x)
    L = lcs_len(a, b)
    # printed characters are escaped (a quote is two characters): compare through the printed length of single characters
    def plen(text):
        import json
        return sum(len(json.dumps(ch if not case.get("bytes") else _bytes_char(ch))[1:-1]) for ch in text)
    kept_printed = len(sh["plain"]) - 2 - (1 if case.get("bytes") else 0) * 0
    hits = []
    quotes = sh["plain"].count('"')
    body = sh["plain"]
    # strip the delimiters: leading (b)" and trailing "
    if body.startswith('b"'):
        body = body[2:]
    elif body.startswith('"'):
        body = body[1:]
    if body.endswith('"'):
        body = body[:-1]
    want_min, removed_min, inserted_min = None, None, None
    kept_chars = [op[1] for op in _ops(case, obs)[1] if op[0] == "k"]
    rem_chars = [op[1] for op in _ops(case, obs)[1] if op[0] in "rs"]
    ins_chars = [(op[2] if op[0] == "s" else op[1]) for op in _ops(case, obs)[1] if op[0] in "is"]
    if len(body) != plen(kept_chars) or len(sh["removed"]) != plen(rem_chars) or len(sh["inserted"]) != plen(ins_chars):
        hits.append(_hit("string-shown-differs-from-script", f"{a!r} -> {b!r}: the rendering shows {len(body)} unchanged / {len(sh['removed'])} removed / {len(sh['inserted'])} inserted printed characters, the script has {plen(kept_chars)} / {plen(rem_chars)} / {plen(ins_chars)}: {sh}"))
    return hits


def _bytes_char(ch):
    """StringFormatter.write_char's text for one element of a bytes object (before the JSON formatter escapes it)"""
    c = ord(ch)
    if 32 <= c <= 126 or ch in "\n\t\r":
        return ch
    return "\\x%02x" % c


def monitor(case, obs):
    if "multi" in case:
        if not isinstance(obs, dict) or obs.get("error"):
            return [_hit("string-crash:" + str(obs.get("exc", "?") if isinstance(obs, dict) else "?"), f"several comparisons refined in turns raised/hung: {str(obs)[:200]}")]
        return _monitor_multi(case, obs)
    a, b = case["a"], case["b"]
    if not isinstance(obs, dict):
        return [_hit("string-crash", "no observation")]
    if obs.get("error"):
        return [_hit("string-crash:" + str(obs.get("exc", obs["error"])),
                     f"diffing {a!r} -> {b!r} raised/hung: " + str(obs.get("msg", ""))[:200])]
    if obs["kind"] not in ("match", "stringedit"):
        return [_hit("string-edit-kind", f"{a!r} -> {b!r} gives a {obs['kind']}")]
    if obs["kind"] == "match" and obs["cost"] not in ([0, 0], [1, 1]):
        return [_hit("string-edit-kind", f"{a!r} -> {b!r} gives Match of cost {obs['cost']}")]
    if obs["kind"] == "match" and obs["cost"] == [1, 1] and not (len(a) == 1 and len(b) == 1):
        return [_hit("string-edit-kind", f"{a!r} -> {b!r} gives a whole-string Match of cost 1")]
    _, ops = _ops(case, obs)
    hits = []
    if any(op[0] == "?" for op in ops):
        return [_hit("string-edit-kind", f"{a!r} -> {b!r}: unknown sub-edit {ops}")]
    frm = "".join(op[1] for op in ops if op[0] in "krs")
    to = "".join(op[2] if op[0] == "s" else op[1] for op in ops if op[0] in "kis")
    kept = "".join(op[1] for op in ops if op[0] == "k")
    removed = sum(1 for op in ops if op[0] in "rs")
    inserted = sum(1 for op in ops if op[0] in "is")
    if frm != a:
        hits.append(_hit("string-from-projection", f"{a!r} -> {b!r}: kept+removed characters spell {frm!r}, not the source"))
    if to != b:
        hits.append(_hit("string-to-projection", f"{a!r} -> {b!r}: kept+inserted characters spell {to!r}, not the target"))
    L = lcs_len(a, b)
    for name, whole in (("source", a), ("target", b)):
        it = iter(whole)
        if not all(ch in it for ch in kept):
            hits.append(_hit("string-kept-not-subsequence", f"{a!r} -> {b!r}: kept characters {kept!r} are not a subsequence of the {name}"))
    if len(kept) != L:
        hits.append(_hit("string-not-lcs", f"{a!r} -> {b!r}: {len(kept)} characters kept ({kept!r}) but the longest common subsequence has {L}"))
    if removed + inserted != len(a) + len(b) - 2 * L:
        hits.append(_hit("string-not-minimal", f"{a!r} -> {b!r}: {removed} removed + {inserted} inserted, minimum is {len(a) + len(b) - 2 * L}"))
    if obs["kind"] == "stringedit":
        if obs["cost"][0] != obs["cost"][1]:
            hits.append(_hit("string-nonfinal", f"{a!r} -> {b!r}: bounds {obs['cost']} after full tightening"))
        elif obs["cost"][1] != removed + inserted:
            hits.append(_hit("string-cost", f"{a!r} -> {b!r}: cost {obs['cost'][1]} but {removed}+{inserted} characters changed"))
        if obs.get("tighten_after"):
            hits.append(_hit("string-tighten-after", f"{a!r} -> {b!r}: tighten_bounds() True after completion"))
        hits += _monitor_shown(case, obs)
    return hits


def classify(case, obs):
    if "multi" in case:
        return f"interleaved:{len(case['multi'])}"
    a, b = case["a"], case["b"]
    if not isinstance(obs, dict) or obs.get("error"):
        return "error"
    if obs["kind"] == "match":
        return ("bytes:" if case.get("bytes") else "") + ("match0" if obs["cost"] == [0, 0] else "match1")
    p = 0
    while p < min(len(a), len(b)) and a[p] == b[p]:
        p += 1
    s = 0
    while s < min(len(a), len(b)) - p and a[len(a) - 1 - s] == b[len(b) - 1 - s]:
        s += 1
    ln = max(len(a), len(b))
    size = "len0-4" if ln <= 4 else "len5-12" if ln <= 12 else "len13+"
    kinds = "".join(sorted({op[0] for op in obs["script"]}))
    e = "emptyside/" if not a or not b else ""
    return f"{e}{size}/{'pre' if p else ''}{'suf' if s else ''}{'' if p or s else 'noshared'}/{kinds}"


def nontrivial(case, obs):
    return case["a"] != case["b"]


def shrink(case):
    a, b = case["a"], case["b"]
    for i in range(len(a)):
        yield {"a": a[:i] + a[i + 1:], "b": b, "drive": case["drive"]}
    for i in range(len(b)):
        yield {"a": a, "b": b[:i] + b[i + 1:], "drive": case["drive"]}
